#!/bin/bash
# usage: ./seedretest.sh <seed-id> <CNN> [<CNN> ...]
# Re-runs the quick tier of the named checks against /repo with the kept seeded change applied, then restores
# /repo. Appends "(after strengthening)" lines to the seed's confirm.txt. Never run while other checks use /repo.
set -u
SID="$1"; shift
D="/verif/seeded/$SID"
[ -f "$D/patch.diff" ] || { echo "no such seed $SID"; exit 2; }
if [ -n "$(git -C /repo status --porcelain --untracked-files=no | grep -v interop/bin)" ]; then echo "/repo is not clean"; exit 2; fi
git -C /repo apply "$D/patch.diff" || { echo "patch does not apply"; exit 2; }
# undo exactly what the patch did (it may have added files), then make sure nothing tracked is left modified
trap "git -C /repo apply -R \"$D/patch.diff\" 2>/dev/null; git -C /repo checkout -- . ; git -C /verif checkout -- evidence 2>/dev/null" EXIT
for C in "$@"; do
  OUT="$(cd /verif && ./check "$C" quick 2>&1 | grep -E "^(signature:|VIOLATION|OK|INCONCLUSIVE|KNOWN)" | grep -v "^KNOWN" | tr '\n' ' ')"
  echo "$SID check $C (after strengthening): $OUT" | tee -a "$D/confirm.txt"
done
