#!/bin/bash
# mkagent.sh <name>: private scratch copy of the harness + its own worktree of /repo under /tmp/<name>
set -e
N="$1"; D="/tmp/$N"
rm -rf "$D"; mkdir -p "$D"
git -C /repo worktree add --detach "$D/repo" HEAD >/dev/null 2>&1
rsync -a --exclude target /verif/harness/ "$D/harness/"
sed -i "s|/repo/|$D/repo/|g" "$D/harness/Cargo.toml"
sed -i "s|target-dir = \"/verif/target\"|target-dir = \"$D/target\"|" "$D/harness/.cargo/config.toml"
echo "$D"
