//! C05 under single-feature builds of tonic: this program is compiled three times, with exactly one of the
//! cargo features gzip / deflate / zstd (which switch on the tonic feature of the same name and nothing else),
//! and runs the negotiation property over generated calls between tonic::client::Grpc and tonic::server::Grpc
//! joined in-process by a recording transport.
//!
//!   featcheck run <cases> <seed> <replay-dir>     -> prints "FEATCHECK ..." (exit 0) or "FEATFAIL ..." (exit 1)
//!   featcheck replay <file>
use bytes::{Buf, BufMut, Bytes};
use http_body_util::BodyExt;
use proptest::prelude::*;
use proptest::test_runner::{Config, RngAlgorithm, RngSeed, TestCaseError, TestError, TestRng, TestRunner};
use serde::{Deserialize, Serialize};
use std::future::Future;
use std::pin::Pin;
use std::sync::{Arc, Mutex};
use std::task::{Context, Poll};
use tonic::codec::{Codec, CompressionEncoding, DecodeBuf, Decoder, EncodeBuf, Encoder};
use tonic::{Code, Request, Response, Status};

#[cfg(feature = "gzip")]
const ENC: CompressionEncoding = CompressionEncoding::Gzip;
#[cfg(feature = "gzip")]
const NAME: &str = "gzip";
#[cfg(all(feature = "deflate", not(feature = "gzip")))]
const ENC: CompressionEncoding = CompressionEncoding::Deflate;
#[cfg(all(feature = "deflate", not(feature = "gzip")))]
const NAME: &str = "deflate";
#[cfg(all(feature = "zstd", not(feature = "gzip"), not(feature = "deflate")))]
const ENC: CompressionEncoding = CompressionEncoding::Zstd;
#[cfg(all(feature = "zstd", not(feature = "gzip"), not(feature = "deflate")))]
const NAME: &str = "zstd";

// ---------------------------------------------------------------------------------------------- codec
#[derive(Clone, Copy, Default)]
struct RawCodec;
#[derive(Clone, Copy)]
struct RawEnc;
#[derive(Clone, Copy)]
struct RawDec;
impl Codec for RawCodec {
    type Encode = Vec<u8>;
    type Decode = Vec<u8>;
    type Encoder = RawEnc;
    type Decoder = RawDec;
    fn encoder(&mut self) -> RawEnc {
        RawEnc
    }
    fn decoder(&mut self) -> RawDec {
        RawDec
    }
}
impl Encoder for RawEnc {
    type Item = Vec<u8>;
    type Error = Status;
    fn encode(&mut self, item: Vec<u8>, dst: &mut EncodeBuf<'_>) -> Result<(), Status> {
        dst.reserve(item.len());
        dst.put_slice(&item);
        Ok(())
    }
}
impl Decoder for RawDec {
    type Item = Vec<u8>;
    type Error = Status;
    fn decode(&mut self, src: &mut DecodeBuf<'_>) -> Result<Option<Vec<u8>>, Status> {
        let mut v = vec![0u8; src.remaining()];
        src.copy_to_slice(&mut v);
        Ok(Some(v))
    }
}

// ---------------------------------------------------------------------------------------------- case
#[derive(Clone, Debug, Serialize, Deserialize)]
struct Case {
    client_send: bool,
    client_accept: bool,
    server_send: bool,
    server_accept: bool,
    /// server configured through apply_compression_config instead of the builder methods
    apply: bool,
    streaming: bool,
    msgs: Vec<Vec<u8>>,
}

fn payload() -> BoxedStrategy<Vec<u8>> {
    prop_oneof![
        1 => Just(vec![]),
        3 => proptest::collection::vec(any::<u8>(), 1..40),
        3 => (1usize..3000, any::<u8>()).prop_map(|(n, b)| vec![b; n]),
        2 => (1usize..600, any::<u64>()).prop_map(|(n, s)| {
            let mut x = s | 1;
            (0..n).map(|_| { x ^= x << 13; x ^= x >> 7; x ^= x << 17; (x >> 24) as u8 }).collect()
        }),
    ]
    .boxed()
}

fn strategy() -> BoxedStrategy<Case> {
    (any::<bool>(), any::<bool>(), any::<bool>(), any::<bool>(), any::<bool>(), any::<bool>(), proptest::collection::vec(payload(), 1..=3))
        .prop_map(|(client_send, client_accept, server_send, server_accept, apply, streaming, mut msgs)| {
            if !streaming {
                msgs.truncate(1);
            }
            Case { client_send, client_accept, server_send, server_accept, apply, streaming, msgs }
        })
        .boxed()
}

// ---------------------------------------------------------------------------------------------- transport
#[derive(Default, Debug)]
struct Wire {
    req_headers: http::HeaderMap,
    req_body: Vec<u8>,
    resp_headers: http::HeaderMap,
    resp_body: Vec<u8>,
    resp_trailers: Option<http::HeaderMap>,
    handler_saw: Vec<Vec<u8>>,
}

#[derive(Clone)]
struct Loop {
    case: Arc<Case>,
    wire: Arc<Mutex<Wire>>,
}

type BoxFut<T> = Pin<Box<dyn Future<Output = T> + Send>>;

#[derive(Clone)]
struct EchoUnary(Arc<Mutex<Wire>>);
impl tower_service::Service<Request<Vec<u8>>> for EchoUnary {
    type Response = Response<Vec<u8>>;
    type Error = Status;
    type Future = BoxFut<Result<Response<Vec<u8>>, Status>>;
    fn poll_ready(&mut self, _: &mut Context<'_>) -> Poll<Result<(), Status>> {
        Poll::Ready(Ok(()))
    }
    fn call(&mut self, r: Request<Vec<u8>>) -> Self::Future {
        let w = self.0.clone();
        Box::pin(async move {
            let m = r.into_inner();
            w.lock().unwrap().handler_saw.push(m.clone());
            Ok(Response::new(m))
        })
    }
}
#[derive(Clone)]
struct EchoStream(Arc<Mutex<Wire>>);
impl tower_service::Service<Request<tonic::Streaming<Vec<u8>>>> for EchoStream {
    type Response = Response<tokio_stream::Iter<std::vec::IntoIter<Result<Vec<u8>, Status>>>>;
    type Error = Status;
    type Future = BoxFut<Result<Self::Response, Status>>;
    fn poll_ready(&mut self, _: &mut Context<'_>) -> Poll<Result<(), Status>> {
        Poll::Ready(Ok(()))
    }
    fn call(&mut self, r: Request<tonic::Streaming<Vec<u8>>>) -> Self::Future {
        let w = self.0.clone();
        Box::pin(async move {
            let mut s = r.into_inner();
            let mut out = vec![];
            while let Some(m) = s.message().await? {
                w.lock().unwrap().handler_saw.push(m.clone());
                out.push(Ok(m));
            }
            Ok(Response::new(tokio_stream::iter(out)))
        })
    }
}

impl tower_service::Service<http::Request<tonic::body::Body>> for Loop {
    type Response = http::Response<tonic::body::Body>;
    type Error = std::convert::Infallible;
    type Future = BoxFut<Result<Self::Response, Self::Error>>;
    fn poll_ready(&mut self, _: &mut Context<'_>) -> Poll<Result<(), Self::Error>> {
        Poll::Ready(Ok(()))
    }
    fn call(&mut self, req: http::Request<tonic::body::Body>) -> Self::Future {
        let case = self.case.clone();
        let wire = self.wire.clone();
        Box::pin(async move {
            // ---- record the request as it would go on the wire
            let (parts, body) = req.into_parts();
            let collected = match body.collect().await {
                Ok(c) => c.to_bytes(),
                Err(s) => {
                    // the client's encoder failed: answer like a transport that saw the stream reset
                    return Ok(Status::internal(format!("request body error: {s}")).into_http());
                }
            };
            {
                let mut w = wire.lock().unwrap();
                w.req_headers = parts.headers.clone();
                w.req_body = collected.to_vec();
            }
            let req = http::Request::from_parts(parts, http_body_util::Full::new(collected).map_err(|e: std::convert::Infallible| -> Status { match e {} }));
            // ---- the server
            let mut grpc = tonic::server::Grpc::new(RawCodec);
            if case.apply {
                let (mut a, mut s) = (tonic::codec::EnabledCompressionEncodings::default(), tonic::codec::EnabledCompressionEncodings::default());
                if case.server_accept {
                    a.enable(ENC);
                }
                if case.server_send {
                    s.enable(ENC);
                }
                grpc = grpc.apply_compression_config(a, s);
            } else {
                if case.server_accept {
                    grpc = grpc.accept_compressed(ENC);
                }
                if case.server_send {
                    grpc = grpc.send_compressed(ENC);
                }
            }
            let resp = if case.streaming { grpc.streaming(EchoStream(wire.clone()), req).await } else { grpc.unary(EchoUnary(wire.clone()), req).await };
            // ---- record the response and hand an equivalent one to the client
            let (parts, mut body) = resp.into_parts();
            let mut data = Vec::new();
            let mut trailers = None;
            let mut frames: Vec<Result<http_body::Frame<Bytes>, Status>> = vec![];
            while let Some(f) = body.frame().await {
                match f {
                    Ok(f) => {
                        if f.is_data() {
                            let d = f.into_data().unwrap();
                            data.extend_from_slice(&d);
                            frames.push(Ok(http_body::Frame::data(d)));
                        } else if let Ok(t) = f.into_trailers() {
                            trailers = Some(t.clone());
                            frames.push(Ok(http_body::Frame::trailers(t)));
                        }
                    }
                    Err(s) => frames.push(Err(s)),
                }
            }
            {
                let mut w = wire.lock().unwrap();
                w.resp_headers = parts.headers.clone();
                w.resp_body = data;
                w.resp_trailers = trailers;
            }
            let body = tonic::body::Body::new(http_body_util::StreamBody::new(tokio_stream::iter(frames)));
            Ok(http::Response::from_parts(parts, body))
        })
    }
}

fn block_on<F: Future>(f: F) -> Option<F::Output> {
    let mut f = Box::pin(f);
    let w = std::task::Waker::noop();
    let mut cx = Context::from_waker(w);
    for _ in 0..10_000 {
        if let Poll::Ready(v) = f.as_mut().poll(&mut cx) {
            return Some(v);
        }
    }
    None
}

// ---------------------------------------------------------------------------------------------- oracle
struct Fail {
    sig: String,
    detail: String,
}
macro_rules! ensure {
    ($c:expr, $sig:expr, $($arg:tt)*) => {
        if !($c) {
            return Err(Fail { sig: $sig.to_string(), detail: format!($($arg)*) });
        }
    };
}

fn frames(mut b: &[u8]) -> Option<Vec<(u8, Vec<u8>)>> {
    let mut v = vec![];
    while !b.is_empty() {
        if b.len() < 5 {
            return None;
        }
        let n = u32::from_be_bytes([b[1], b[2], b[3], b[4]]) as usize;
        if b.len() < 5 + n {
            return None;
        }
        v.push((b[0], b[5..5 + n].to_vec()));
        b = &b[5 + n..];
    }
    Some(v)
}

/// independent decompressor (the codec crates themselves, not tonic)
fn inflate(data: &[u8]) -> Option<Vec<u8>> {
    use std::io::Read;
    let mut out = vec![];
    match NAME {
        "gzip" => flate2::read::GzDecoder::new(data).read_to_end(&mut out).ok()?,
        "deflate" => flate2::read::ZlibDecoder::new(data).read_to_end(&mut out).ok()?,
        _ => zstd::stream::read::Decoder::new(data).ok()?.read_to_end(&mut out).ok()?,
    };
    Some(out)
}

fn header_tokens(h: &http::HeaderMap, name: &str) -> Vec<String> {
    h.get_all(name).iter().flat_map(|v| v.to_str().unwrap_or("\u{fffd}").split(',').map(|t| t.trim().to_string()).collect::<Vec<_>>()).filter(|t| !t.is_empty()).collect()
}

/// one direction: `announced` encoding header vs the frames; every message must be recoverable
fn judge_side(side: &str, headers: &http::HeaderMap, body: &[u8], may_compress: bool, want: &[Vec<u8>]) -> Result<bool, Fail> {
    let enc: Vec<&[u8]> = headers.get_all("grpc-encoding").iter().map(|v| v.as_bytes()).collect();
    ensure!(enc.len() <= 1, format!("C05/single-feature/{side}-encoding-header-count"), "{} grpc-encoding lines", enc.len());
    let announced = match enc.first() {
        None => false,
        Some(v) if *v == b"identity" => false,
        Some(v) => {
            ensure!(*v == NAME.as_bytes(), format!("C05/single-feature/{side}-announces-unknown-encoding"), "grpc-encoding {:?} in a build that only has {NAME}", String::from_utf8_lossy(v));
            true
        }
    };
    ensure!(!announced || may_compress, format!("C05/single-feature/{side}-encoding-not-negotiated"), "{side} announces {NAME} although it was not configured / offered");
    let Some(fr) = frames(body) else { return Err(Fail { sig: format!("C05/single-feature/{side}-framing"), detail: format!("{side} body is not a sequence of whole frames ({} bytes)", body.len()) }) };
    ensure!(fr.len() == want.len(), format!("C05/single-feature/{side}-frame-count"), "{} frames for {} messages", fr.len(), want.len());
    let mut any = false;
    for (i, ((flag, payload), w)) in fr.iter().zip(want).enumerate() {
        match flag {
            0 => ensure!(payload == w, format!("C05/single-feature/{side}-plain-frame-altered"), "frame {i}: flag 0 but the payload is not the message"),
            1 => {
                ensure!(announced, format!("C05/single-feature/{side}-compressed-frame-without-announced-encoding"), "frame {i} has the compressed flag but the {side} headers announce no encoding (build: only {NAME}; headers: {:?})", headers);
                let plain = inflate(payload);
                ensure!(plain.as_deref() == Some(&w[..]), format!("C05/single-feature/{side}-frame-not-in-announced-encoding"), "frame {i}: payload does not decompress under {NAME} to the message");
                any = true;
            }
            f => return Err(Fail { sig: format!("C05/single-feature/{side}-flag"), detail: format!("frame {i} has flag {f}") }),
        }
    }
    Ok(any)
}

fn run(c: &Case) -> Result<(bool, Vec<&'static str>), Fail> {
    let wire = Arc::new(Mutex::new(Wire::default()));
    let lp = Loop { case: Arc::new(c.clone()), wire: wire.clone() };
    let mut client = tonic::client::Grpc::new(lp);
    if c.client_send {
        client = client.send_compressed(ENC);
    }
    if c.client_accept {
        client = client.accept_compressed(ENC);
    }
    let path = http::uri::PathAndQuery::from_static("/f.S/M");
    let msgs = c.msgs.clone();
    let streaming = c.streaming;
    let got: Option<Result<Vec<Vec<u8>>, Status>> = block_on(async move {
        client.ready().await.map_err(|_| Status::internal("not ready"))?;
        if streaming {
            let mut s = client.streaming(Request::new(tokio_stream::iter(msgs)), path, RawCodec).await?.into_inner();
            let mut v = vec![];
            while let Some(m) = s.message().await? {
                v.push(m);
            }
            Ok(v)
        } else {
            Ok(vec![client.unary(Request::new(msgs[0].clone()), path, RawCodec).await?.into_inner()])
        }
    });
    let Some(got) = got else { return Err(Fail { sig: "C05/single-feature/call-never-resolves".into(), detail: "in-process call did not complete within the poll budget".into() }) };
    let w = wire.lock().unwrap();
    let mut labels = vec![];
    // ---- request direction
    let req_compressed = judge_side("request", &w.req_headers, &w.req_body, c.client_send, &c.msgs)?;
    ensure!(!c.client_send || header_tokens(&w.req_headers, "grpc-encoding") == [NAME], "C05/single-feature/request-encoding-not-announced", "client configured to send {NAME} but grpc-encoding is {:?}", w.req_headers.get("grpc-encoding"));
    let offered = header_tokens(&w.req_headers, "grpc-accept-encoding");
    let offers = offered.iter().any(|t| t == NAME);
    ensure!(offers == c.client_accept, "C05/single-feature/accept-encoding-advertised", "client accept={} but grpc-accept-encoding is {:?}", c.client_accept, offered);
    ensure!(offered.iter().all(|t| t == NAME || t == "identity"), "C05/single-feature/accept-encoding-advertised", "grpc-accept-encoding {:?} lists something this build cannot do", offered);
    // ---- verdict
    if c.client_send && !c.server_accept {
        labels.push("refused_request_encoding");
        match &got {
            Err(s) if s.code() == Code::Unimplemented => {}
            other => return Err(Fail { sig: "C05/single-feature/unaccepted-request-encoding-not-unimplemented".into(), detail: format!("server does not accept {NAME}, client sent it: {other:?}") }),
        }
        ensure!(w.handler_saw.is_empty(), "C05/single-feature/handler-called-for-refused-encoding", "handler saw {} messages", w.handler_saw.len());
        return Ok((true, labels));
    }
    let echoed = match got {
        Ok(v) => v,
        Err(s) => return Err(Fail { sig: "C05/single-feature/negotiated-call-failed".into(), detail: format!("client send={} accept={} server send={} accept={} (build: only {NAME}): call failed with {:?} {:?}", c.client_send, c.client_accept, c.server_send, c.server_accept, s.code(), s.message()) }),
    };
    ensure!(w.handler_saw == c.msgs, "C05/single-feature/handler-saw-other-messages", "handler saw {} messages, client sent {}", w.handler_saw.len(), c.msgs.len());
    ensure!(echoed == c.msgs, "C05/single-feature/response-messages-altered", "client got {} messages back, expected the {} it sent", echoed.len(), c.msgs.len());
    // ---- response direction
    let resp_compressed = judge_side("response", &w.resp_headers, &w.resp_body, c.server_send && c.client_accept, &c.msgs)?;
    if req_compressed {
        labels.push("request_compressed");
    }
    if resp_compressed {
        labels.push("response_compressed");
    }
    Ok((c.client_send || (c.server_send && c.client_accept), labels))
}

// ---------------------------------------------------------------------------------------------- driver
fn main() {
    let args: Vec<String> = std::env::args().collect();
    match args.get(1).map(|s| s.as_str()) {
        Some("replay") => {
            let v: serde_json::Value = serde_json::from_str(&std::fs::read_to_string(&args[2]).expect("read replay")).expect("decode replay");
            let inner = v.get("Feature").and_then(|f| f.get("case")).cloned().unwrap_or(v);
            let c: Case = serde_json::from_value(inner).expect("decode case");
            match run(&c) {
                Ok(_) => println!("FEATCHECK feature={NAME} replay passes"),
                Err(f) => {
                    println!("signature: {}", f.sig);
                    println!("detail: {}", f.detail);
                    println!("FEATFAIL feature={NAME} signature={} replay={}", f.sig, args[2]);
                    std::process::exit(1);
                }
            }
        }
        Some("run") => {
            let cases: u32 = args[2].parse().expect("cases");
            let seed: u64 = args[3].parse().expect("seed");
            let dir = &args[4];
            let mut bytes = [0u8; 32];
            bytes[..8].copy_from_slice(&seed.to_le_bytes());
            bytes[8..16].copy_from_slice(&0xfea7_c4ec_u64.to_le_bytes());
            let mut runner = TestRunner::new_with_rng(
                Config { cases, failure_persistence: None, max_shrink_iters: 2000, rng_seed: RngSeed::Fixed(seed), ..Config::default() },
                TestRng::from_seed(RngAlgorithm::ChaCha, &bytes),
            );
            let stats = Arc::new(Mutex::new((0u64, 0u64, std::collections::BTreeMap::<&'static str, u64>::new(), None::<Fail>)));
            let st = stats.clone();
            let res = runner.run(&strategy(), move |c| {
                let mut s = st.lock().unwrap();
                match run(&c) {
                    Ok((nt, labels)) => {
                        if s.3.is_none() {
                            s.0 += 1;
                            s.1 += nt as u64;
                            for l in labels {
                                *s.2.entry(l).or_default() += 1;
                            }
                        }
                        Ok(())
                    }
                    Err(f) => {
                        let msg = f.sig.clone();
                        s.3 = Some(f);
                        Err(TestCaseError::fail(msg))
                    }
                }
            });
            let s = stats.lock().unwrap();
            match res {
                Ok(()) => {
                    println!("FEATCHECK feature={NAME} cases={} nontrivial={} classes={:?}", s.0, s.1, s.2);
                }
                Err(TestError::Fail(_, c)) => {
                    // re-run the shrunk case for its own signature
                    let f = run(&c).err().unwrap_or(Fail { sig: "C05/single-feature/unstable".into(), detail: "shrunk case passes when run again".into() });
                    std::fs::create_dir_all(dir).ok();
                    let body = serde_json::json!({"Feature": {"feature": NAME, "case": c}});
                    let text = serde_json::to_string_pretty(&body).unwrap();
                    let mut h = 0xcbf29ce484222325u64;
                    for b in text.bytes() {
                        h = (h ^ b as u64).wrapping_mul(0x100000001b3);
                    }
                    let path = format!("{dir}/feature-{NAME}-{h:016x}.json");
                    std::fs::write(&path, text).expect("write replay");
                    println!("signature: {}", f.sig);
                    println!("detail: {}", f.detail);
                    println!("FEATFAIL feature={NAME} signature={} replay={}", f.sig, path);
                    std::process::exit(1);
                }
                Err(TestError::Abort(r)) => {
                    println!("FEATABORT feature={NAME} {r}");
                    std::process::exit(2);
                }
            }
        }
        _ => {
            eprintln!("usage: featcheck run <cases> <seed> <replay-dir> | featcheck replay <case.json>");
            std::process::exit(2);
        }
    }
}
