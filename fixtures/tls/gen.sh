#!/bin/bash
# Regenerates the fixture PKI (EC P-256, valid 2020-01-01 .. 2126-01-01). Run once; outputs are committed.
set -e
cd "$(dirname "$0")"
rm -rf work; mkdir work; cd work
mkca() { # name
  openssl ecparam -name prime256v1 -genkey -noout -out $1.key.sec1
  openssl pkcs8 -topk8 -nocrypt -in $1.key.sec1 -out $1.key
  mkdir -p db_$1; : > db_$1/index.txt; echo 1000 > db_$1/serial
  cat > $1.cnf <<CNF
[ca]
default_ca = myca
[myca]
dir = ./db_$1
database = ./db_$1/index.txt
new_certs_dir = ./db_$1
serial = ./db_$1/serial
default_md = sha256
policy = pol
unique_subject = no
copy_extensions = copy
[pol]
commonName = supplied
[req]
distinguished_name = dn
[dn]
[v3_ca]
basicConstraints = critical,CA:TRUE
keyUsage = critical,keyCertSign,cRLSign
subjectKeyIdentifier = hash
[v3_server]
basicConstraints = CA:FALSE
keyUsage = critical,digitalSignature
extendedKeyUsage = serverAuth
[v3_client]
basicConstraints = CA:FALSE
keyUsage = critical,digitalSignature
extendedKeyUsage = clientAuth
CNF
  openssl req -new -key $1.key -subj "/CN=$1" -out $1.csr -config $1.cnf
  openssl ca -batch -selfsign -config $1.cnf -keyfile $1.key -in $1.csr -out $1.pem -extensions v3_ca -startdate 20200101000000Z -enddate 21260101000000Z -notext
}
mkleaf() { # ca name san ext
  openssl ecparam -name prime256v1 -genkey -noout -out $2.key.sec1
  openssl pkcs8 -topk8 -nocrypt -in $2.key.sec1 -out $2.key
  openssl req -new -key $2.key -subj "/CN=$2" -out $2.csr -config $1.cnf -addext "subjectAltName=$3"
  openssl ca -batch -config $1.cnf -keyfile $1.key -cert $1.pem -in $2.csr -out $2.pem -extensions $4 -startdate 20200101000000Z -enddate 21260101000000Z -notext
}
mkca ca_a; mkca ca_b; mkca ca_client
mkleaf ca_a server_good "DNS:good.test" v3_server
mkleaf ca_a server_other "DNS:other.test" v3_server
mkleaf ca_b server_good_by_b "DNS:good.test" v3_server
mkleaf ca_client client_valid "DNS:client.test" v3_client
mkleaf ca_b client_by_b "DNS:client.test" v3_client
cd ..
for f in ca_a ca_b ca_client server_good server_other server_good_by_b client_valid client_by_b; do cp work/$f.pem $f.pem; cp work/$f.key $f.key; done
rm -rf work
