#![allow(clippy::all)]
pub mod infra;
pub mod props;
pub mod svc;

#[global_allocator]
static GLOBAL: infra::alloc::Counting = infra::alloc::Counting;
