#![allow(clippy::all)]
pub mod infra;
pub mod props;
pub mod svc;
