//! Codecs, messages and generated (build.rs) services used by the checks.
use bytes::{Buf, BufMut};
use tonic::codec::{BufferSettings, Codec, DecodeBuf, Decoder, EncodeBuf, Encoder};
use tonic::Status;

pub type RawMsg = Vec<u8>;

/// messages starting with these bytes are refused by `RawCodec`'s encoder (after it has written something)
pub const ENCODER_REFUSES: &[u8] = b"\xff\xfeREFUSE";

/// Codec whose serialisation is the identity on byte strings, with explicit buffer settings.
#[derive(Clone, Copy, Debug, Default)]
pub struct RawCodec {
    pub bs: Option<(usize, usize)>,
    /// opt-in: the encoder refuses messages that start with `ENCODER_REFUSES` (only C06's probe sets it; payloads
    /// of other checks are arbitrary bytes and must never be refused)
    pub refuse: bool,
}
impl RawCodec {
    pub fn with(buffer_size: usize, yield_threshold: usize) -> Self {
        Self { bs: Some((buffer_size, yield_threshold)), refuse: false }
    }
    fn settings(&self) -> BufferSettings {
        match self.bs {
            Some((b, y)) => BufferSettings::new(b, y),
            None => BufferSettings::default(),
        }
    }
}
#[derive(Clone, Copy, Debug)]
pub struct RawEnc(BufferSettings, bool);
#[derive(Clone, Copy, Debug)]
pub struct RawDec(BufferSettings);

impl Codec for RawCodec {
    type Encode = RawMsg;
    type Decode = RawMsg;
    type Encoder = RawEnc;
    type Decoder = RawDec;
    fn encoder(&mut self) -> RawEnc {
        RawEnc(self.settings(), self.refuse)
    }
    fn decoder(&mut self) -> RawDec {
        RawDec(self.settings())
    }
}
impl Encoder for RawEnc {
    type Item = RawMsg;
    type Error = Status;
    fn encode(&mut self, item: RawMsg, dst: &mut EncodeBuf<'_>) -> Result<(), Status> {
        // a codec may refuse a message (validation); whatever it had written by then must not go out
        if self.1 && item.starts_with(ENCODER_REFUSES) {
            dst.put_slice(b"partial output of a failing encoder");
            return Err(Status::data_loss("encoder refuses this message"));
        }
        if item.len() % 2 == 0 {
            // serialise through io::Write without reserving first (what a serde_json codec does): the buffer grows
            use std::io::Write;
            let k = item.len() / 2;
            let mut w = dst.writer();
            w.write_all(&item[..k]).and_then(|_| w.write_all(&item[k..])).map_err(|e| Status::internal(format!("write: {e}")))?;
            return Ok(());
        }
        dst.reserve(item.len());
        // hand the bytes over as a non-contiguous Buf (a codec may serialise into a rope): every segment counts
        let k = item.len() / 3;
        dst.put(bytes::Buf::chain(&item[..k], &item[k..]));
        Ok(())
    }
    fn buffer_settings(&self) -> BufferSettings {
        self.0
    }
}
impl Decoder for RawDec {
    type Item = RawMsg;
    type Error = Status;
    fn decode(&mut self, src: &mut DecodeBuf<'_>) -> Result<Option<RawMsg>, Status> {
        let mut v = vec![0u8; src.remaining()];
        src.copy_to_slice(&mut v);
        Ok(Some(v))
    }
    fn buffer_settings(&self) -> BufferSettings {
        self.0
    }
}

#[derive(Clone, PartialEq, prost::Message)]
pub struct Inner {
    #[prost(sint64, tag = "1")]
    pub z: i64,
    #[prost(string, repeated, tag = "2")]
    pub names: Vec<String>,
}

/// prost test message: bytes, string, packed repeated, nested, fixed-width.
#[derive(Clone, PartialEq, prost::Message)]
pub struct Msg {
    #[prost(bytes = "vec", tag = "1")]
    pub data: Vec<u8>,
    #[prost(string, tag = "2")]
    pub s: String,
    #[prost(uint32, repeated, tag = "3")]
    pub r: Vec<u32>,
    #[prost(message, optional, tag = "4")]
    pub inner: Option<Inner>,
    #[prost(fixed64, tag = "5")]
    pub f: u64,
}

pub mod vt {
    include!(concat!(env!("OUT_DIR"), "/vt.Test.rs"));
    include!(concat!(env!("OUT_DIR"), "/vt.Raw.rs"));
}

pub mod pool {
    include!(concat!(env!("OUT_DIR"), "/pool_index.rs"));
}
