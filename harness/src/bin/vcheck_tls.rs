fn main(){}
