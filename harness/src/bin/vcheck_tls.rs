//! Same driver as vcheck, built with harness feature `tls` (tonic/tls-ring) for C15 only.
use vh::infra::runner::*;

fn main() {
    let args: Vec<String> = std::env::args().collect();
    if args.len() < 3 || args[2] != "C15" {
        eprintln!("usage: vcheck_tls run|replay C15 [quick|thorough|<replay file>]");
        std::process::exit(2);
    }
    let mode = args[1].as_str();
    let third = args.get(3).map(|s| s.as_str());
    let tier = match (mode, third, std::env::var("VERIF_TIER").ok().as_deref()) {
        ("run", Some("thorough"), _) => Tier::Thorough,
        ("run", Some("quick"), _) => Tier::Quick,
        (_, _, Some("thorough")) => Tier::Thorough,
        _ => Tier::Quick,
    };
    let seed: u64 = std::env::var("VERIF_SEED").ok().and_then(|s| s.parse::<i64>().ok()).map(|v| v as u64).unwrap_or(0);
    install_panic_hook();
    vh::infra::watchdog::start("C15", tier);
    type P = vh::props::c15::C15;
    let code = match mode {
        "run" => {
            let r = run_prop::<P>(tier, seed);
            write_evidence::<P>(tier, seed, &r);
            report::<P>(tier, seed, &r)
        }
        "replay" => replay::<P>(third.expect("replay needs a path")),
        _ => 2,
    };
    std::process::exit(code);
}
