use vh::infra::runner::*;

fn run<P: Prop>(mode: &str, tier: Tier, seed: u64, path: Option<&str>) -> i32 {
    match mode {
        "run" => {
            let mut r = run_prop::<P>(tier, seed);
            if r.found.is_none() {
                vh::infra::fuzzdrv::maybe_fuzz::<P>(tier, seed, &mut r);
            }
            write_evidence::<P>(tier, seed, &r);
            report::<P>(tier, seed, &r)
        }
        "replay" => replay::<P>(path.expect("replay needs a path")),
        _ => {
            eprintln!("unknown mode {mode}");
            2
        }
    }
}

macro_rules! dispatch {
    ($id:expr, $mode:expr, $tier:expr, $seed:expr, $path:expr; $($name:literal => $ty:ty),* $(,)?) => {
        match $id {
            $($name => run::<$ty>($mode, $tier, $seed, $path),)*
            other => { eprintln!("unknown property {other}"); 2 }
        }
    };
}

fn main() {
    let args: Vec<String> = std::env::args().collect();
    if args.len() < 3 {
        eprintln!("usage: vcheck run|replay CNN [quick|thorough|<replay file>]");
        std::process::exit(2);
    }
    let mode = args[1].as_str();
    let id = args[2].as_str();
    let third = args.get(3).map(|s| s.as_str());
    let tier = match (mode, third, std::env::var("VERIF_TIER").ok().as_deref()) {
        ("run", Some("thorough"), _) => Tier::Thorough,
        ("run", Some("quick"), _) => Tier::Quick,
        (_, _, Some("thorough")) => Tier::Thorough,
        _ => Tier::Quick,
    };
    let seed: u64 = std::env::var("VERIF_SEED").ok().and_then(|s| s.parse::<i64>().ok()).map(|v| v as u64).unwrap_or(0);
    install_panic_hook();
    vh::infra::watchdog::start(id, tier);
    let code = dispatch!(id, mode, tier, seed, third;
        "C01" => vh::props::c01::C01,
        "C02" => vh::props::c02::C02,
        "C03" => vh::props::c03::C03,
        "C04" => vh::props::c04::C04,
        "C05" => vh::props::c05::C05,
        "C06" => vh::props::c06::C06,
        "C07" => vh::props::c07::C07,
        "C08" => vh::props::c08::C08,
        "C09" => vh::props::c09::C09,
        "C10" => vh::props::c10::C10,
        "C11" => vh::props::c11::C11,
        "C12" => vh::props::c12::C12,
        "C13" => vh::props::c13::C13,
        "C14" => vh::props::c14::C14,
        "C16" => vh::props::c16::C16,
        "C17" => vh::props::c17::C17,
        "C18" => vh::props::c18::C18,
        "C19" => vh::props::c19::C19,
        "C20" => vh::props::c20::C20,
    );
    std::process::exit(code);
}
