//! Drivers for tonic's EncodeBody / Streaming under a harness-owned schedule.
use super::driver::poll_budget;
use super::script::{BodyStep, ScriptBody, ScriptStream, SrcStep};
use super::wire::Enc;
use bytes::Bytes;
use http::HeaderMap;
use http_body::Body;
use serde::{Deserialize, Serialize};
use std::pin::Pin;
use tokio_stream::Stream;
use tonic::codec::{EncodeBody, Encoder, SingleMessageCompressionOverride, Streaming};
use tonic::Status;

#[derive(Clone, Copy, Debug, PartialEq, Eq, Serialize, Deserialize)]
pub enum Role {
    Client,
    Server,
}

#[derive(Debug)]
pub enum Ev {
    Data(Vec<u8>),
    Trailers(HeaderMap),
    Err(Status),
    End,
    /// poll budget exhausted: the body never completed
    Stuck,
}

pub struct EncOut {
    pub events: Vec<Ev>,
    /// `is_end_stream()` observed after each event
    pub end_flags: Vec<bool>,
    /// how often the message source was polled again after it had returned `None`
    pub src_polls_after_end: usize,
}

impl EncOut {
    pub fn data_concat(&self) -> Vec<u8> {
        let mut v = vec![];
        for e in &self.events {
            if let Ev::Data(d) = e {
                v.extend_from_slice(d);
            }
        }
        v
    }
}

/// Polls the body the way hyper does (until None / error / trailers) and then `extra` more times.
pub fn drive_encode<E>(
    encoder: E,
    steps: Vec<SrcStep<E::Item>>,
    role: Role,
    enc: Option<Enc>,
    disable: bool,
    limit: Option<usize>,
    budget: usize,
    extra: usize,
) -> EncOut
where
    E: Encoder<Error = Status>,
{
    let src = ScriptStream::new(steps);
    let src_pae = src.polls_after_end.clone();
    let ce = enc.map(|e| e.tonic());
    let mut body: Pin<Box<EncodeBody<E, ScriptStream<E::Item>>>> = Box::pin(match role {
        Role::Client => EncodeBody::new_client(encoder, src, ce, limit),
        Role::Server => EncodeBody::new_server(
            encoder,
            src,
            ce,
            if disable {
                SingleMessageCompressionOverride::Disable
            } else {
                SingleMessageCompressionOverride::Inherit
            },
            limit,
        ),
    });
    let mut out = EncOut { events: vec![], end_flags: vec![], src_polls_after_end: 0 };
    let mut ended = false;
    let mut extra_left = extra;
    loop {
        let r = poll_budget(budget, |cx| body.as_mut().poll_frame(cx));
        let ev = match r {
            Err(_) => Ev::Stuck,
            Ok(None) => Ev::End,
            Ok(Some(Err(s))) => Ev::Err(s),
            Ok(Some(Ok(f))) => {
                if f.is_data() {
                    // never materialise absurdly large frames (the 4 GiB case): keep a bounded prefix
                    let d = f.into_data().unwrap();
                    let keep = d.len().min(64 << 20);
                    Ev::Data(d[..keep].to_vec())
                } else {
                    Ev::Trailers(f.into_trailers().unwrap())
                }
            }
        };
        // a body that keeps handing out frames without ever ending (e.g. empty chunks for ever) is as stuck as one
        // that keeps returning Pending: the budget covers every item and Pending of the script several times over
        let ev = if out.events.len() > 4 * budget + 64 { Ev::Stuck } else { ev };
        let terminal = matches!(ev, Ev::End | Ev::Err(_) | Ev::Trailers(_) | Ev::Stuck);
        let stuck = matches!(ev, Ev::Stuck);
        out.events.push(ev);
        out.end_flags.push(body.is_end_stream());
        if stuck {
            break;
        }
        if terminal {
            ended = true;
        }
        if ended {
            if extra_left == 0 {
                break;
            }
            extra_left -= 1;
        }
    }
    out.src_polls_after_end = src_pae.load(std::sync::atomic::Ordering::Relaxed);
    out
}

impl EncOut {
    /// http_body contract: once `is_end_stream()` has returned true the consumer (hyper) stops polling, so
    /// nothing but `None` may follow - in particular no error and no data may still be pending behind it.
    /// A message source must not be polled again after it returned `None` (only `FusedStream`s allow that).
    pub fn contract_violation(&self) -> Option<String> {
        if let Some(i) = self.end_flags.iter().position(|f| *f) {
            for (j, ev) in self.events.iter().enumerate().skip(i + 1) {
                if !matches!(ev, Ev::End) {
                    return Some(format!("is_end_stream() was true after event {i}, but event {j} is {}", match ev { Ev::Data(d) => format!("DATA({} bytes)", d.len()), Ev::Trailers(_) => "TRAILERS".into(), Ev::Err(s) => format!("ERR({:?})", s.code()), Ev::End => "END".into(), Ev::Stuck => "STUCK".into() }));
                }
            }
        }
        // (the counter includes the poll that returned the first `None`)
        if self.src_polls_after_end > 1 {
            return Some(format!("the message source was polled {} time(s) after it had returned None", self.src_polls_after_end - 1));
        }
        None
    }
}

#[derive(Debug)]
pub enum DecEv<T> {
    Item(T),
    Err(Status),
    End,
    Stuck,
}

/// Polls the stream until the first `Err`/`None`, then `extra` more times.
pub fn drive_decode<T>(s: &mut Streaming<T>, budget: usize, extra: usize) -> Vec<DecEv<T>> {
    let mut out = vec![];
    let mut ended = false;
    let mut extra_left = extra;
    loop {
        let r = poll_budget(budget, |cx| Pin::new(&mut *s).poll_next(cx));
        let ev = match r {
            Err(_) => DecEv::Stuck,
            Ok(None) => DecEv::End,
            Ok(Some(Ok(t))) => DecEv::Item(t),
            Ok(Some(Err(e))) => DecEv::Err(e),
        };
        let stuck = matches!(ev, DecEv::Stuck);
        if matches!(ev, DecEv::End | DecEv::Err(_)) {
            ended = true;
        }
        out.push(ev);
        if stuck {
            break;
        }
        if ended {
            if extra_left == 0 {
                break;
            }
            extra_left -= 1;
        }
    }
    out
}

/// Build the chunk list of `bytes` from sequential sizes (0 = empty chunk) plus extra cut positions.
pub fn cut(bytes: &[u8], sizes: &[u16], extra_cuts: &[usize]) -> Vec<Vec<u8>> {
    // boundaries (sorted, unique), and positions where an empty chunk is inserted
    let mut bounds: Vec<usize> = vec![];
    let mut empties: Vec<usize> = vec![];
    let mut pos = 0usize;
    for s in sizes {
        if pos >= bytes.len() {
            if *s == 0 {
                empties.push(pos);
            }
            continue;
        }
        if *s == 0 {
            empties.push(pos);
        } else {
            pos = (pos + *s as usize).min(bytes.len());
            bounds.push(pos);
        }
    }
    for c in extra_cuts {
        if *c > 0 && *c < bytes.len() {
            bounds.push(*c);
        }
    }
    bounds.push(bytes.len());
    bounds.sort();
    bounds.dedup();
    let mut out = vec![];
    let mut start = 0usize;
    let mut ei = 0usize;
    empties.sort();
    for b in bounds {
        while ei < empties.len() && empties[ei] <= start {
            out.push(vec![]);
            ei += 1;
        }
        if b > start {
            out.push(bytes[start..b].to_vec());
            start = b;
        }
    }
    while ei < empties.len() {
        out.push(vec![]);
        ei += 1;
    }
    out
}

/// ScriptBody steps from chunks + a readiness pattern (cycled) + optional trailers.
pub fn body_steps(chunks: &[Vec<u8>], pend: &[u8], trailers: Option<HeaderMap>) -> Vec<BodyStep> {
    let mut steps = vec![];
    let mut pi = 0usize;
    let mut pends = |steps: &mut Vec<BodyStep>| {
        if !pend.is_empty() {
            for _ in 0..pend[pi % pend.len()] {
                steps.push(BodyStep::Pending);
            }
            pi += 1;
        }
    };
    for c in chunks {
        pends(&mut steps);
        steps.push(BodyStep::Data(Bytes::from(c.clone())));
    }
    pends(&mut steps);
    if let Some(t) = trailers {
        steps.push(BodyStep::Trailers(t));
    }
    steps
}

pub fn script_body(chunks: &[Vec<u8>], pend: &[u8], trailers: Option<HeaderMap>) -> ScriptBody {
    ScriptBody::new(body_steps(chunks, pend, trailers))
}

/// source steps: `pend[i]` Pendings before item i, `pend[n]` before the end
pub fn src_steps<T>(items: Vec<Result<T, Status>>, pend: &[u8]) -> Vec<SrcStep<T>> {
    let mut steps = vec![];
    for (i, it) in items.into_iter().enumerate() {
        for _ in 0..pend.get(i).copied().unwrap_or(0) {
            steps.push(SrcStep::Pending);
        }
        steps.push(match it {
            Ok(t) => SrcStep::Item(t),
            Err(s) => SrcStep::Err(s),
        });
    }
    if let Some(p) = pend.last() {
        if pend.len() > steps.iter().filter(|s| !matches!(s, SrcStep::Pending)).count() {
            for _ in 0..*p {
                steps.push(SrcStep::Pending);
            }
        }
    }
    steps
}

pub fn ok_trailers() -> HeaderMap {
    let mut h = HeaderMap::new();
    h.insert("grpc-status", http::HeaderValue::from_static("0"));
    h
}

pub fn _unused(_: &dyn Stream<Item = ()>) {}
