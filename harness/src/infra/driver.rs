//! Hand-written poll loop with a no-op waker: the harness owns the schedule of poll-based layers.
use std::future::Future;
use std::pin::Pin;
use std::task::{Context, Poll, RawWaker, RawWakerVTable, Waker};

fn raw() -> RawWaker {
    fn clone(_: *const ()) -> RawWaker {
        raw()
    }
    fn noop(_: *const ()) {}
    static VT: RawWakerVTable = RawWakerVTable::new(clone, noop, noop, noop);
    RawWaker::new(std::ptr::null(), &VT)
}
pub fn noop_waker() -> Waker {
    unsafe { Waker::from_raw(raw()) }
}

#[derive(Debug)]
pub struct BudgetExceeded;

/// Polls `f` up to `budget` times (every scripted source becomes ready after finitely many polls,
/// so re-polling after `Pending` is always legitimate here).
pub fn poll_budget<T>(
    budget: usize,
    mut f: impl FnMut(&mut Context<'_>) -> Poll<T>,
) -> Result<T, BudgetExceeded> {
    let w = noop_waker();
    let mut cx = Context::from_waker(&w);
    for _ in 0..budget {
        if let Poll::Ready(v) = f(&mut cx) {
            return Ok(v);
        }
    }
    Err(BudgetExceeded)
}

pub fn block_on_budget<F: Future>(budget: usize, fut: F) -> Result<F::Output, BudgetExceeded> {
    let mut fut = Box::pin(fut);
    poll_budget(budget, |cx| Pin::as_mut(&mut fut).poll(cx))
}
