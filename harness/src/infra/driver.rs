//! Hand-written poll loop with a no-op waker: the harness owns the schedule of poll-based layers.
use std::future::Future;
use std::pin::Pin;
use std::task::{Context, Poll, RawWaker, RawWakerVTable, Waker};

fn raw() -> RawWaker {
    fn clone(_: *const ()) -> RawWaker {
        raw()
    }
    fn noop(_: *const ()) {}
    static VT: RawWakerVTable = RawWakerVTable::new(clone, noop, noop, noop);
    RawWaker::new(std::ptr::null(), &VT)
}
pub fn noop_waker() -> Waker {
    unsafe { Waker::from_raw(raw()) }
}

#[derive(Debug)]
pub struct BudgetExceeded;

thread_local! {
    /// true when the last `BudgetExceeded` was a lost wake-up (Pending returned, nobody woke the task)
    pub static LOST_WAKEUP: std::cell::Cell<bool> = const { std::cell::Cell::new(false) };
}

struct CountingWaker(std::sync::atomic::AtomicUsize);
impl std::task::Wake for CountingWaker {
    fn wake(self: std::sync::Arc<Self>) {
        self.0.fetch_add(1, std::sync::atomic::Ordering::SeqCst);
    }
    fn wake_by_ref(self: &std::sync::Arc<Self>) {
        self.0.fetch_add(1, std::sync::atomic::Ordering::SeqCst);
    }
}

/// Polls `f` up to `budget` times, the way an executor would: after `Pending` it is polled again only
/// if its waker was invoked (every scripted source wakes itself before returning `Pending`). A
/// `Pending` with no wake-up can never make progress in this closed world: that is reported at once
/// (lost wake-up = the task would hang in a real runtime).
pub fn poll_budget<T>(
    budget: usize,
    mut f: impl FnMut(&mut Context<'_>) -> Poll<T>,
) -> Result<T, BudgetExceeded> {
    let cw = std::sync::Arc::new(CountingWaker(std::sync::atomic::AtomicUsize::new(0)));
    let w = Waker::from(cw.clone());
    let mut cx = Context::from_waker(&w);
    LOST_WAKEUP.with(|l| l.set(false));
    for _ in 0..budget {
        let before = cw.0.load(std::sync::atomic::Ordering::SeqCst);
        if let Poll::Ready(v) = f(&mut cx) {
            return Ok(v);
        }
        if cw.0.load(std::sync::atomic::Ordering::SeqCst) == before {
            LOST_WAKEUP.with(|l| l.set(true));
            return Err(BudgetExceeded);
        }
    }
    Err(BudgetExceeded)
}

pub fn block_on_budget<F: Future>(budget: usize, fut: F) -> Result<F::Output, BudgetExceeded> {
    let mut fut = Box::pin(fut);
    poll_budget(budget, |cx| Pin::as_mut(&mut fut).poll(cx))
}
