//! Shared proptest strategies (constructive, boundary-biased).
use super::blob::{blob_len, Blob};
use super::wire::Enc;
use proptest::prelude::*;

pub const BUFFER_SIZES: [usize; 7] = [1, 2, 5, 16, 100, 4096, 8192];
pub const YIELD_THRESHOLDS: [usize; 6] = [0, 1, 5, 64, 1024, 32768];

pub fn buffer_settings() -> impl Strategy<Value = (usize, usize)> {
    (
        proptest::sample::select(&BUFFER_SIZES[..]),
        proptest::sample::select(&YIELD_THRESHOLDS[..]),
    )
}

pub fn enc_opt() -> impl Strategy<Value = Option<Enc>> {
    prop_oneof![
        2 => Just(None),
        1 => Just(Some(Enc::Gzip)),
        1 => Just(Some(Enc::Deflate)),
        1 => Just(Some(Enc::Zstd)),
    ]
}
pub fn enc() -> impl Strategy<Value = Enc> {
    prop_oneof![Just(Enc::Gzip), Just(Enc::Deflate), Just(Enc::Zstd)]
}

/// message length mixture around the configured buffer size / yield threshold
pub fn msg_len(bs: usize, yt: usize, allow_big: bool) -> BoxedStrategy<u32> {
    let near = |c: usize, d: usize| -> BoxedStrategy<u32> {
        let lo = c.saturating_sub(d) as u32;
        let hi = (c + d) as u32;
        (lo..=hi).boxed()
    };
    let big: BoxedStrategy<u32> = if allow_big { (300u32..=70 * 1024).boxed() } else { (0u32..=300).boxed() };
    prop_oneof![
        2 => Just(0u32),
        6 => 1u32..=16,
        6 => 0u32..=300,
        3 => near(bs, 2),
        3 => near(yt.min(40000), 6),
        1 => big,
    ]
    .boxed()
}

pub fn payload(bs: usize, yt: usize, allow_big: bool) -> BoxedStrategy<Blob> {
    blob_len(msg_len(bs, yt, allow_big))
}

/// readiness pattern: number of spurious `Pending`s before each of `n` events
pub fn pend_pattern(n: usize) -> BoxedStrategy<Vec<u8>> {
    proptest::collection::vec(
        prop_oneof![6 => Just(0u8), 2 => Just(1u8), 1 => 2u8..=3],
        n,
    )
    .boxed()
}

/// chunk sizes: 0 = empty DATA frame
pub fn chunk_sizes(max: usize) -> BoxedStrategy<Vec<u16>> {
    proptest::collection::vec(
        prop_oneof![
            1 => Just(0u16),
            4 => Just(1u16),
            4 => 2u16..=5,
            4 => 6u16..=100,
            1 => 101u16..=9000,
        ],
        0..=max,
    )
    .boxed()
}

/// Unicode strings from the classes that matter for header coding
pub fn unicode_string(max: usize) -> BoxedStrategy<String> {
    let ch = prop_oneof![
        8 => (0x20u32..0x7f).prop_map(|c| char::from_u32(c).unwrap()),
        2 => prop_oneof![Just('%'), Just(' '), Just(':'), Just('\r'), Just('\n'), Just('\0'), Just('\t'), Just('\u{7f}')],
        2 => (0x80u32..0x800).prop_map(|c| char::from_u32(c).unwrap_or('é')),
        1 => (0x800u32..0xd800).prop_map(|c| char::from_u32(c).unwrap_or('€')),
        1 => (0x10000u32..0x10ffff).prop_map(|c| char::from_u32(c).unwrap_or('😀')),
        1 => Just('%').prop_flat_map(|_| prop_oneof![Just('4'), Just('z'), Just('%')]),
    ];
    proptest::collection::vec(ch, 0..=max)
        .prop_map(|v| v.into_iter().collect::<String>())
        .boxed()
}

/// monotone index mapping (shrinks towards 0)
pub fn pick(sel: u16, len: usize) -> usize {
    if len == 0 {
        0
    } else {
        ((sel as usize) * len) >> 16
    }
}
