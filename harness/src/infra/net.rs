//! In-memory "network": tonic servers accept `PipeEnd`s from an mpsc-fed incoming stream, tonic
//! channels connect through a connector that manufactures a fresh pipe per connection attempt.
use super::pipe::{pipe, PipeEnd, PipeHandle};
use hyper_util::rt::TokioIo;
use std::io;
use std::sync::atomic::{AtomicUsize, Ordering};
use std::sync::{Arc, Mutex};
use tokio::sync::mpsc;
use tokio_stream::wrappers::UnboundedReceiverStream;

pub type Incoming = UnboundedReceiverStream<Result<PipeEnd, io::Error>>;

#[derive(Clone)]
pub struct Net {
    tx: Arc<Mutex<Option<mpsc::UnboundedSender<Result<PipeEnd, io::Error>>>>>,
    pub conns: Arc<Mutex<Vec<PipeHandle>>>,
    /// (client->server schedule, server->client schedule) per connection index (cycled)
    pub schedules: Arc<Vec<(Vec<u8>, Vec<u8>)>>,
    pub attempts: Arc<AtomicUsize>,
}

impl Net {
    pub fn new(schedules: Vec<(Vec<u8>, Vec<u8>)>) -> (Net, Incoming) {
        let (tx, rx) = mpsc::unbounded_channel();
        (
            Net {
                tx: Arc::new(Mutex::new(Some(tx))),
                conns: Default::default(),
                schedules: Arc::new(schedules),
                attempts: Default::default(),
            },
            UnboundedReceiverStream::new(rx),
        )
    }
    /// Opens a connection: the server end is offered to the server's incoming stream.
    pub fn open(&self) -> io::Result<(PipeEnd, PipeHandle)> {
        let i = self.attempts.fetch_add(1, Ordering::SeqCst);
        let (c2s, s2c) = if self.schedules.is_empty() {
            (vec![], vec![])
        } else {
            self.schedules[i % self.schedules.len()].clone()
        };
        let (c, s, h) = pipe(c2s, s2c);
        let g = self.tx.lock().unwrap();
        match g.as_ref() {
            Some(tx) => tx.send(Ok(s)).map_err(|_| io::Error::new(io::ErrorKind::ConnectionRefused, "server gone"))?,
            None => return Err(io::Error::new(io::ErrorKind::ConnectionRefused, "listener closed")),
        }
        self.conns.lock().unwrap().push(h.clone());
        Ok((c, h))
    }
    /// The listener reports a (non-fatal for the server) accept error, e.g. EMFILE.
    pub fn inject_accept_error(&self, kind: io::ErrorKind) {
        if let Some(tx) = self.tx.lock().unwrap().as_ref() {
            let _ = tx.send(Err(io::Error::new(kind, "injected accept error")));
        }
    }
    /// Stops offering connections (the incoming stream ends).
    pub fn close_listener(&self) {
        self.tx.lock().unwrap().take();
    }
    pub fn connector(
        &self,
    ) -> impl tower::Service<
        http::Uri,
        Response = TokioIo<PipeEnd>,
        Error = io::Error,
        Future = std::pin::Pin<Box<dyn std::future::Future<Output = io::Result<TokioIo<PipeEnd>>> + Send>>,
    > + Clone
           + Send
           + 'static {
        let net = self.clone();
        tower::service_fn(move |_uri: http::Uri| {
            let net = net.clone();
            Box::pin(async move { net.open().map(|(c, _)| TokioIo::new(c)) })
                as std::pin::Pin<Box<dyn std::future::Future<Output = io::Result<TokioIo<PipeEnd>>> + Send>>
        })
    }
    pub async fn channel(&self) -> Result<tonic::transport::Channel, tonic::transport::Error> {
        tonic::transport::Endpoint::from_static("http://pipe.test")
            .connect_with_connector(self.connector())
            .await
    }
}
