//! In-process mock transport for generated clients, and helpers to call generated servers directly.
use super::driver::{block_on_budget, poll_budget, BudgetExceeded};
use super::script::{BodyStep, ScriptBody};
use http::HeaderMap;
use http_body::Body;
use std::future::Future;
use std::pin::Pin;
use std::sync::{Arc, Mutex};
use std::task::{Context, Poll};

#[derive(Clone, Debug, Default)]
pub struct Recorded {
    pub method: http::Method,
    pub uri: http::Uri,
    pub version: http::Version,
    pub headers: HeaderMap,
    /// DATA frames as produced by the request body
    pub frames: Vec<Vec<u8>>,
    pub trailers: Vec<HeaderMap>,
    pub body_error: Option<(tonic::Code, String)>,
}
impl Recorded {
    pub fn body(&self) -> Vec<u8> {
        self.frames.concat()
    }
}

#[derive(Clone, Debug)]
pub struct Reply {
    pub status: u16,
    pub headers: HeaderMap,
    pub steps: Vec<BodyStep>,
}

type ReplyFn = dyn Fn(&Recorded) -> Reply + Send + Sync;

/// tower::Service<http::Request<tonic::body::Body>>: drains the request body (recording frames and
/// trailers), then answers with the scripted reply.
#[derive(Clone)]
pub struct MockChannel {
    pub log: Arc<Mutex<Vec<Recorded>>>,
    pub reply: Arc<ReplyFn>,
}
impl MockChannel {
    pub fn new(reply: impl Fn(&Recorded) -> Reply + Send + Sync + 'static) -> Self {
        Self { log: Default::default(), reply: Arc::new(reply) }
    }
}

pub async fn drain_body<B>(body: B) -> (Vec<Vec<u8>>, Vec<HeaderMap>, Option<(tonic::Code, String)>)
where
    B: Body,
    B::Error: Into<Box<dyn std::error::Error + Send + Sync>>,
{
    let mut body = Box::pin(body);
    let mut frames = vec![];
    let mut trailers = vec![];
    let mut err = None;
    loop {
        // like hyper: a body that reports `is_end_stream()` is not polled any further
        if body.is_end_stream() {
            break;
        }
        let f = std::future::poll_fn(|cx| body.as_mut().poll_frame(cx)).await;
        match f {
            None => break,
            Some(Err(e)) => {
                let st = tonic::Status::from_error(e.into());
                err = Some((st.code(), st.message().to_string()));
                break;
            }
            Some(Ok(fr)) => {
                if fr.is_data() {
                    use bytes::Buf;
                    let mut d = fr.into_data().ok().unwrap();
                    let mut v = vec![0u8; d.remaining()];
                    d.copy_to_slice(&mut v);
                    frames.push(v);
                } else if let Ok(t) = fr.into_trailers() {
                    trailers.push(t);
                }
            }
        }
    }
    (frames, trailers, err)
}

impl tower_service::Service<http::Request<tonic::body::Body>> for MockChannel {
    type Response = http::Response<ScriptBody>;
    type Error = tonic::Status;
    type Future = Pin<Box<dyn Future<Output = Result<Self::Response, Self::Error>> + Send>>;
    fn poll_ready(&mut self, _: &mut Context<'_>) -> Poll<Result<(), Self::Error>> {
        Poll::Ready(Ok(()))
    }
    fn call(&mut self, req: http::Request<tonic::body::Body>) -> Self::Future {
        let log = self.log.clone();
        let reply = self.reply.clone();
        Box::pin(async move {
            let (parts, body) = req.into_parts();
            let (frames, trailers, body_error) = drain_body(body).await;
            let rec = Recorded {
                method: parts.method,
                uri: parts.uri,
                version: parts.version,
                headers: parts.headers,
                frames,
                trailers,
                body_error,
            };
            // a transport cannot complete a call whose request body failed (hyper resets the stream
            // and fails the response future with the body's error)
            if let Some((code, msg)) = rec.body_error.clone() {
                log.lock().unwrap().push(rec);
                return Err(tonic::Status::new(code, msg));
            }
            let r = reply(&rec);
            log.lock().unwrap().push(rec);
            let mut resp = http::Response::new(ScriptBody::new(r.steps));
            *resp.status_mut() = http::StatusCode::from_u16(r.status).unwrap_or(http::StatusCode::OK);
            *resp.headers_mut() = r.headers;
            Ok(resp)
        })
    }
}

/// What a generated server answered, collected under the harness poll loop.
#[derive(Debug, Default)]
pub struct ServerAnswer {
    pub status: u16,
    pub headers: HeaderMap,
    pub frames: Vec<Vec<u8>>,
    pub trailers: Vec<HeaderMap>,
    pub body_error: Option<(tonic::Code, String)>,
    /// frames observed after the trailers (must stay empty)
    pub data_after_trailers: usize,
    pub end_stream_after: bool,
}
impl ServerAnswer {
    pub fn body(&self) -> Vec<u8> {
        self.frames.concat()
    }
    /// grpc-status from trailers or (trailers-only) headers
    pub fn grpc_status(&self) -> Option<Vec<u8>> {
        self.trailers
            .iter()
            .find_map(|t| t.get("grpc-status"))
            .or_else(|| self.headers.get("grpc-status"))
            .map(|v| v.as_bytes().to_vec())
    }
    pub fn status_obj(&self) -> Option<tonic::Status> {
        for t in &self.trailers {
            if let Some(s) = tonic::Status::from_header_map(t) {
                return Some(s);
            }
        }
        tonic::Status::from_header_map(&self.headers)
    }
}

/// Calls a tower service (generated server, Routes, layers) in-process and drains the response body.
pub fn call_service<S, B, RB>(svc: &mut S, req: http::Request<B>, budget: usize) -> Result<ServerAnswer, String>
where
    S: tower_service::Service<http::Request<B>, Response = http::Response<RB>>,
    S::Error: std::fmt::Debug,
    RB: Body,
    RB::Error: Into<Box<dyn std::error::Error + Send + Sync>>,
    RB::Data: bytes::Buf,
{
    match poll_budget(budget, |cx| svc.poll_ready(cx)) {
        Ok(Ok(())) => {}
        Ok(Err(e)) => return Err(format!("poll_ready error {e:?}")),
        Err(BudgetExceeded) => return Err("poll_ready never ready".into()),
    }
    let fut = svc.call(req);
    let resp = match block_on_budget(budget, fut) {
        Ok(Ok(r)) => r,
        Ok(Err(e)) => return Err(format!("service error {e:?}")),
        Err(BudgetExceeded) => return Err("response future did not complete within the poll budget".into()),
    };
    let (parts, body) = resp.into_parts();
    let mut ans = ServerAnswer { status: parts.status.as_u16(), headers: parts.headers, ..Default::default() };
    let mut body = Box::pin(body);
    let mut seen_trailers = false;
    let mut extra = 3;
    loop {
        let r = poll_budget(budget, |cx| body.as_mut().poll_frame(cx));
        match r {
            Err(BudgetExceeded) => return Err("response body did not complete within the poll budget".into()),
            Ok(None) => {
                if extra == 0 {
                    break;
                }
                extra -= 1;
                seen_trailers = true;
            }
            Ok(Some(Err(e))) => {
                let st = tonic::Status::from_error(e.into());
                ans.body_error = Some((st.code(), st.message().to_string()));
                break;
            }
            Ok(Some(Ok(fr))) => {
                if fr.is_data() {
                    use bytes::Buf;
                    let mut d = fr.into_data().ok().unwrap();
                    let mut v = vec![0u8; d.remaining()];
                    d.copy_to_slice(&mut v);
                    if seen_trailers {
                        ans.data_after_trailers += 1;
                    } else {
                        ans.frames.push(v);
                    }
                } else if let Ok(t) = fr.into_trailers() {
                    ans.trailers.push(t);
                    seen_trailers = true;
                }
            }
        }
    }
    ans.end_stream_after = body.is_end_stream();
    Ok(ans)
}

/// A gRPC request for an in-process generated server.
pub fn grpc_request(path: &str, headers: &[(&str, &[u8])], body: ScriptBody) -> http::Request<ScriptBody> {
    let mut req = http::Request::new(body);
    *req.method_mut() = http::Method::POST;
    *req.version_mut() = http::Version::HTTP_2;
    *req.uri_mut() = path.parse().expect("valid path");
    req.headers_mut().insert("content-type", http::HeaderValue::from_static("application/grpc"));
    req.headers_mut().insert("te", http::HeaderValue::from_static("trailers"));
    for (k, v) in headers {
        if let (Ok(n), Ok(v)) = (http::HeaderName::from_bytes(k.as_bytes()), http::HeaderValue::from_bytes(v)) {
            req.headers_mut().append(n, v);
        }
    }
    req
}
