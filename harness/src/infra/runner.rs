//! Generic driver: proptest `TestRunner` from a binary, 16 shards, measured generators,
//! known-finding tolerance by signature, evidence writing, replay.
use proptest::strategy::{BoxedStrategy, Strategy};
use proptest::test_runner::{Config, RngSeed, TestCaseError, TestError, TestRunner};
use serde::{de::DeserializeOwned, Serialize};
use std::cell::RefCell;
use std::collections::{BTreeMap, HashSet};
use std::panic::{catch_unwind, AssertUnwindSafe};
use std::sync::atomic::{AtomicBool, Ordering};
use std::sync::{Arc, Mutex};
use std::time::Instant;

#[derive(Clone, Copy, PartialEq, Eq, Debug)]
pub enum Tier {
    Quick,
    Thorough,
}
impl Tier {
    pub fn name(self) -> &'static str {
        match self {
            Tier::Quick => "quick",
            Tier::Thorough => "thorough",
        }
    }
}

#[derive(Clone, Debug)]
pub struct Failure {
    /// oracle clause + discriminating predicate on the input; no spaces
    pub sig: String,
    pub detail: String,
}

#[derive(Default, Debug)]
pub struct Outcome {
    pub fail: Option<Failure>,
    pub labels: Vec<&'static str>,
    pub nontrivial: bool,
}
impl Outcome {
    pub fn label(&mut self, l: &'static str) {
        if !self.labels.contains(&l) {
            self.labels.push(l);
        }
    }
    pub fn label_if(&mut self, c: bool, l: &'static str) {
        if c {
            self.label(l)
        }
    }
}

/// `ensure!(cond, "signature", "detail {}", x)` -> early `Err(Failure)`
#[macro_export]
macro_rules! ensure {
    ($cond:expr, $sig:expr, $($arg:tt)*) => {
        if !($cond) {
            return Err($crate::infra::runner::Failure { sig: ($sig).to_string(), detail: format!($($arg)*) });
        }
    };
}
#[macro_export]
macro_rules! bail {
    ($sig:expr, $($arg:tt)*) => {
        return Err($crate::infra::runner::Failure { sig: ($sig).to_string(), detail: format!($($arg)*) })
    };
}

pub struct FuzzSpec {
    pub target: &'static str,
    pub runs: u64,
    pub max_len: u32,
}

pub trait Prop: 'static {
    const ID: &'static str;
    type Case: Serialize + DeserializeOwned + std::fmt::Debug + Clone + 'static;
    fn strategy() -> BoxedStrategy<Self::Case>;
    fn run(case: &Self::Case, o: &mut Outcome) -> Result<(), Failure>;
    fn rule() -> &'static str;
    fn assumptions() -> Vec<String> {
        vec![]
    }
    fn cases(tier: Tier) -> u64;
    /// enumerated (non-random) part of the domain, run before the random search
    fn fixed_cases(_tier: Tier) -> Vec<Self::Case> {
        vec![]
    }
    /// true when `fixed_cases` enumerates a finite sub-domain completely
    fn fixed_is_exhaustive() -> Option<&'static str> {
        None
    }
    fn from_bytes(_data: &[u8]) -> Option<Self::Case> {
        None
    }
    fn fuzz(_tier: Tier) -> Option<FuzzSpec> {
        None
    }
    fn max_shrink_iters() -> u32 {
        4000
    }
    fn shards() -> usize {
        16
    }
    /// extra evidence keys (measured by the property itself)
    fn extra_evidence() -> Option<serde_json::Value> {
        None
    }
}

thread_local! {
    static LAST_PANIC: RefCell<Option<String>> = const { RefCell::new(None) };
}

pub fn install_panic_hook() {
    std::panic::set_hook(Box::new(|info| {
        let msg = if let Some(s) = info.payload().downcast_ref::<&str>() {
            s.to_string()
        } else if let Some(s) = info.payload().downcast_ref::<String>() {
            s.clone()
        } else {
            "<non-string panic>".to_string()
        };
        let loc = info
            .location()
            .map(|l| format!("{}:{}", l.file(), l.line()))
            .unwrap_or_default();
        LAST_PANIC.with(|p| *p.borrow_mut() = Some(format!("{} @ {}", msg, loc)));
    }));
}

fn short_loc(s: &str) -> String {
    // "msg @ /repo/tonic/src/status.rs:454" -> "status.rs:454"
    let loc = s.rsplit(" @ ").next().unwrap_or("");
    let file = loc.rsplit('/').next().unwrap_or(loc);
    file.to_string()
}

/// Runs one case with panic capture. A panic anywhere is a failure whose signature names the
/// panic site (file:line), so distinct panics are distinct findings.
pub fn run_case<P: Prop>(case: &P::Case) -> Outcome {
    let _guard = CaseGuard::set(case);
    let mut o = Outcome::default();
    LAST_PANIC.with(|p| *p.borrow_mut() = None);
    let r = catch_unwind(AssertUnwindSafe(|| P::run(case, &mut o)));
    match r {
        Ok(Ok(())) => {}
        Ok(Err(f)) => o.fail = Some(f),
        Err(_) => {
            let m = LAST_PANIC
                .with(|p| p.borrow_mut().take())
                .unwrap_or_else(|| "panic".into());
            o.fail = Some(Failure {
                sig: format!("{}/panic/{}", P::ID, short_loc(&m)),
                detail: format!("panic: {}", m),
            });
        }
    }
    o
}


// ---------------------------------------------------------------- process-abort reporter
// A change to tonic may make the *process* die (e.g. an absurd allocation -> alloc error -> abort), which
// no catch_unwind can see. Each shard publishes a pointer to the case it is running; a SIGABRT handler
// serialises that case into a replay file and prints the VIOLATION line before exiting with status 1.
// (Not async-signal-safe in the strict sense; the process is dying anyway and the worst outcome is the
// old behaviour: a non-zero exit without a VIOLATION line.)
thread_local! {
    static CUR_CASE: std::cell::Cell<Option<(*const (), fn(*const ()) -> String)>> = const { std::cell::Cell::new(None) };
}
static CRASH_ID: std::sync::OnceLock<&'static str> = std::sync::OnceLock::new();

extern "C" {
    fn signal(signum: i32, handler: usize) -> usize;
    fn _exit(code: i32) -> !;
}

extern "C" fn on_abort(_sig: i32) {
    let id = CRASH_ID.get().copied().unwrap_or("C??");
    let case = CUR_CASE.try_with(|c| c.get()).ok().flatten();
    if let Some((ptr, ser)) = case {
        let json = ser(ptr);
        let dir = format!("{}/replays/{}", verif_root(), id);
        let _ = std::fs::create_dir_all(&dir);
        let path = format!("{}/abort-{:016x}.json", dir, fnv64(json.as_bytes()));
        let _ = std::fs::write(&path, json);
        println!("signature: {}/process-abort", id);
        println!("detail: the process aborted (SIGABRT: allocation failure, double panic or abort()) while running the saved case");
        println!("VIOLATION property={} replay={}", id, path);
        use std::io::Write;
        let _ = std::io::stdout().flush();
        unsafe { _exit(1) }
    }
    unsafe { _exit(134) }
}

pub fn install_abort_reporter(id: &'static str) {
    let _ = CRASH_ID.set(id);
    unsafe {
        signal(6, on_abort as usize);
    }
}

fn ser_case<C: Serialize>(p: *const ()) -> String {
    let c: &C = unsafe { &*(p as *const C) };
    serde_json::to_string_pretty(c).unwrap_or_else(|_| "null".into())
}

struct CaseGuard;
impl CaseGuard {
    fn set<C: Serialize>(c: &C) -> CaseGuard {
        CUR_CASE.with(|cell| cell.set(Some((c as *const C as *const (), ser_case::<C> as fn(*const ()) -> String))));
        CaseGuard
    }
}
impl Drop for CaseGuard {
    fn drop(&mut self) {
        CUR_CASE.with(|cell| cell.set(None));
    }
}

pub fn fnv64(data: &[u8]) -> u64 {
    let mut h: u64 = 0xcbf29ce484222325;
    for b in data {
        h ^= *b as u64;
        h = h.wrapping_mul(0x100000001b3);
    }
    h
}

// ---------------------------------------------------------------- known findings

#[derive(Clone, Debug)]
pub struct KnownEntry {
    pub property: String,
    pub signature: String,
    pub what: String,
}

pub fn verif_root() -> String {
    std::env::var("VERIF_ROOT").unwrap_or_else(|_| "/verif".into())
}

/// Lines: `known: property=C17 signature=<sig> <what fails>` suppress (with a KNOWN-FINDING line);
/// `fixed: property=C04 <commit> signature=<sig> <what failed>` suppress nothing.
pub fn load_known(prop: &str) -> Vec<KnownEntry> {
    let path = format!("{}/known_findings.txt", verif_root());
    let Ok(text) = std::fs::read_to_string(path) else {
        return vec![];
    };
    let mut out = vec![];
    for line in text.lines() {
        let line = line.trim();
        let Some(rest) = line.strip_prefix("known:") else {
            continue;
        };
        let mut property = String::new();
        let mut signature = String::new();
        let mut what = vec![];
        for tok in rest.split_whitespace() {
            if let Some(p) = tok.strip_prefix("property=") {
                property = p.to_string();
            } else if let Some(s) = tok.strip_prefix("signature=") {
                signature = s.to_string();
            } else {
                what.push(tok);
            }
        }
        if property == prop && !signature.is_empty() {
            out.push(KnownEntry {
                property,
                signature,
                what: what.join(" "),
            });
        }
    }
    out
}

// ---------------------------------------------------------------- stats

#[derive(Default)]
pub struct Stats {
    pub evaluations: u64,
    pub nontrivial: u64,
    pub fingerprints: HashSet<u64>,
    pub labels: BTreeMap<&'static str, u64>,
    pub samples: Vec<serde_json::Value>,
    pub label_sampled: HashSet<&'static str>,
    pub last: Option<serde_json::Value>,
    pub excluded_known: BTreeMap<String, u64>,
}

impl Stats {
    fn record<C: Serialize>(&mut self, case: &C, o: &Outcome) {
        self.evaluations += 1;
        for l in &o.labels {
            *self.labels.entry(l).or_default() += 1;
        }
        let mut json: Option<String> = None;
        if o.nontrivial {
            self.nontrivial += 1;
            let s = serde_json::to_string(case).unwrap_or_default();
            self.fingerprints.insert(fnv64(s.as_bytes()));
            json = Some(s);
        }
        let want_label = o
            .labels
            .iter()
            .find(|l| !self.label_sampled.contains(*l))
            .copied();
        let want = self.samples.len() < 2 || (want_label.is_some() && self.samples.len() < 10);
        if want {
            let s = json
                .clone()
                .unwrap_or_else(|| serde_json::to_string(case).unwrap_or_default());
            if s.len() <= 6000 {
                if let Some(l) = want_label {
                    self.label_sampled.insert(l);
                }
                let v: serde_json::Value = serde_json::from_str(&s).unwrap_or(serde_json::Value::Null);
                self.samples.push(serde_json::json!({"labels": o.labels, "nontrivial": o.nontrivial, "case": v}));
            }
        }
        if self.evaluations % 257 == 0 || self.last.is_none() {
            let s = json.unwrap_or_else(|| serde_json::to_string(case).unwrap_or_default());
            if s.len() <= 6000 {
                let v: serde_json::Value = serde_json::from_str(&s).unwrap_or(serde_json::Value::Null);
                self.last = Some(serde_json::json!({"labels": o.labels, "nontrivial": o.nontrivial, "case": v}));
            }
        }
    }
    fn merge(&mut self, other: Stats) {
        self.evaluations += other.evaluations;
        self.nontrivial += other.nontrivial;
        self.fingerprints.extend(other.fingerprints);
        for (k, v) in other.labels {
            *self.labels.entry(k).or_default() += v;
        }
        for s in other.samples {
            if self.samples.len() < 12 {
                self.samples.push(s);
            }
        }
        if other.last.is_some() {
            self.last = other.last;
        }
        for (k, v) in other.excluded_known {
            *self.excluded_known.entry(k).or_default() += v;
        }
    }
}

pub struct Found {
    pub case_json: String,
    pub failure: Failure,
    pub bytes: Option<Vec<u8>>,
}

pub struct RunResult {
    pub stats: Stats,
    pub found: Option<Found>,
    pub wall_s: f64,
    pub fuzz: Option<serde_json::Value>,
    pub inconclusive: Option<String>,
}

fn is_known(known: &[KnownEntry], sig: &str) -> bool {
    known.iter().any(|k| k.signature == sig)
}

/// Slot the watchdog can read: what each shard is running right now.
pub static CURRENT: Mutex<Vec<(u64, String)>> = Mutex::new(Vec::new());

pub fn run_prop<P: Prop>(tier: Tier, seed: u64) -> RunResult {
    install_abort_reporter(P::ID);
    let t0 = Instant::now();
    let known = Arc::new(load_known(P::ID));
    let mut total = Stats::default();
    let mut found: Option<Found> = None;

    // 1. committed regression inputs
    let regdir = format!("{}/regressions/{}", verif_root(), P::ID);
    if let Ok(rd) = std::fs::read_dir(&regdir) {
        let mut files: Vec<_> = rd.filter_map(|e| e.ok()).map(|e| e.path()).collect();
        files.sort();
        for f in files {
            let case: Option<P::Case> = if f.extension().map(|e| e == "json").unwrap_or(false) {
                std::fs::read_to_string(&f)
                    .ok()
                    .and_then(|s| serde_json::from_str(&s).ok())
            } else {
                std::fs::read(&f).ok().and_then(|b| P::from_bytes(&b))
            };
            let Some(case) = case else { continue };
            let o = run_case::<P>(&case);
            let mut o2 = o;
            o2.label("regression_input");
            if let Some(fl) = o2.fail.take() {
                if is_known(&known, &fl.sig) {
                    *total.excluded_known.entry(fl.sig.clone()).or_default() += 1;
                } else if found.is_none() {
                    found = Some(Found {
                        case_json: serde_json::to_string_pretty(&case).unwrap(),
                        failure: fl,
                        bytes: None,
                    });
                }
            }
            total.record(&case, &o2);
        }
    }

    // 2. enumerated part
    if found.is_none() {
        for case in P::fixed_cases(tier) {
            let mut o = run_case::<P>(&case);
            o.label("enumerated");
            if let Some(fl) = o.fail.take() {
                if is_known(&known, &fl.sig) {
                    *total.excluded_known.entry(fl.sig.clone()).or_default() += 1;
                } else {
                    found = Some(Found {
                        case_json: serde_json::to_string_pretty(&case).unwrap(),
                        failure: fl,
                        bytes: None,
                    });
                    total.record(&case, &o);
                    break;
                }
            }
            total.record(&case, &o);
        }
    }

    // 3. random search, sharded
    let n = P::cases(tier);
    if found.is_none() && n > 0 {
        let shards = P::shards().max(1).min(n as usize);
        let stop = Arc::new(AtomicBool::new(false));
        {
            let mut cur = CURRENT.lock().unwrap();
            cur.clear();
            cur.resize(shards, (0, String::new()));
        }
        let results: Vec<(Stats, Option<Found>)> = std::thread::scope(|sc| {
            let mut hs = vec![];
            for shard in 0..shards {
                let stop = stop.clone();
                let known = known.clone();
                let per = n / shards as u64 + if (shard as u64) < n % shards as u64 { 1 } else { 0 };
                hs.push(
                    std::thread::Builder::new()
                        .stack_size(64 << 20)
                        .name(format!("shard{shard}"))
                        .spawn_scoped(sc, move || shard_run::<P>(shard, per, seed, stop, known))
                        .unwrap(),
                );
            }
            hs.into_iter().map(|h| h.join().expect("shard thread")).collect()
        });
        for (st, f) in results {
            total.merge(st);
            if found.is_none() {
                found = f;
            }
        }
    }

    RunResult {
        stats: total,
        found,
        wall_s: t0.elapsed().as_secs_f64(),
        fuzz: None,
        inconclusive: None,
    }
}

fn shard_run<P: Prop>(
    shard: usize,
    cases: u64,
    seed: u64,
    stop: Arc<AtomicBool>,
    known: Arc<Vec<KnownEntry>>,
) -> (Stats, Option<Found>) {
    let stats = RefCell::new(Stats::default());
    let failed_once = std::cell::Cell::new(false);
    let cfg = Config {
        cases: cases.min(u32::MAX as u64) as u32,
        max_shrink_iters: P::max_shrink_iters(),
        failure_persistence: None,
        rng_seed: RngSeed::Fixed(seed.wrapping_mul(0x9E3779B97F4A7C15).wrapping_add(shard as u64 + 1)),
        max_global_rejects: 1 << 20,
        ..Config::default()
    };
    let mut runner = TestRunner::new(cfg);
    let strat = P::strategy();
    let counter = std::cell::Cell::new(0u64);
    let res = runner.run(&strat, |case| {
        if stop.load(Ordering::Relaxed) && !failed_once.get() {
            return Ok(());
        }
        counter.set(counter.get() + 1);
        if counter.get() % 64 == 1 {
            if let Ok(mut cur) = CURRENT.try_lock() {
                if let Some(slot) = cur.get_mut(shard) {
                    slot.0 = counter.get();
                    slot.1 = serde_json::to_string(&case).unwrap_or_default();
                }
            }
        }
        let mut o = run_case::<P>(&case);
        if let Some(fl) = o.fail.take() {
            if is_known(&known, &fl.sig) {
                if !failed_once.get() {
                    *stats.borrow_mut().excluded_known.entry(fl.sig).or_default() += 1;
                    o.label("excluded_known_finding");
                    stats.borrow_mut().record(&case, &o);
                }
                return Ok(());
            }
            if !failed_once.get() {
                stats.borrow_mut().record(&case, &o);
            }
            failed_once.set(true);
            stop.store(true, Ordering::Relaxed);
            return Err(TestCaseError::fail(fl.sig));
        }
        if !failed_once.get() {
            stats.borrow_mut().record(&case, &o);
        }
        Ok(())
    });
    let found = match res {
        Ok(()) => None,
        Err(TestError::Fail(_, case)) => {
            let o = run_case::<P>(&case);
            let failure = o.fail.unwrap_or(Failure {
                sig: format!("{}/flaky", P::ID),
                detail: "shrunk case did not fail when re-run (non-deterministic check?)".into(),
            });
            Some(Found {
                case_json: serde_json::to_string_pretty(&case).unwrap(),
                failure,
                bytes: None,
            })
        }
        Err(TestError::Abort(r)) => Some(Found {
            case_json: "null".into(),
            failure: Failure {
                sig: format!("{}/generator-abort", P::ID),
                detail: format!("{r}"),
            },
            bytes: None,
        }),
    };
    (stats.into_inner(), found)
}

// ---------------------------------------------------------------- evidence + verdict

pub fn write_evidence<P: Prop>(tier: Tier, seed: u64, r: &RunResult) {
    let dir = format!("{}/evidence", verif_root());
    let _ = std::fs::create_dir_all(&dir);
    let mut samples = r.stats.samples.clone();
    if let Some(l) = &r.stats.last {
        samples.push(l.clone());
    }
    let mut coverage = serde_json::json!({
        "evaluations": r.stats.evaluations,
        "distinct_nontrivial": r.stats.fingerprints.len(),
        "nontrivial_total": r.stats.nontrivial,
        "rule": P::rule(),
        "samples": samples,
        "classes": r.stats.labels,
        "excluded_known": r.stats.excluded_known,
    });
    if let Some(what) = P::fixed_is_exhaustive() {
        coverage["exhaustive_part"] = serde_json::json!(what);
    }
    if let Some(f) = &r.fuzz {
        coverage["fuzz"] = f.clone();
    }
    if let Some(x) = P::extra_evidence() {
        coverage["extra"] = x;
    }
    let mut ev = serde_json::json!({
        "property_id": P::ID,
        "tier": tier.name(),
        "seed": seed,
        "level": "exploration",
        "coverage": coverage,
        "assumptions": P::assumptions(),
        "wall_s": r.wall_s,
        "violations": if r.found.is_some() { 1 } else { 0 },
    });
    if let Some(f) = &r.found {
        ev["violation"] = serde_json::json!({"signature": f.failure.sig, "detail": f.failure.detail});
    }
    if let Some(i) = &r.inconclusive {
        ev["inconclusive"] = serde_json::json!(i);
    }
    let path = format!("{}/{}.json", dir, P::ID);
    std::fs::write(&path, serde_json::to_string_pretty(&ev).unwrap()).expect("write evidence");
}

/// Prints the verdict lines and returns the process exit code.
pub fn report<P: Prop>(tier: Tier, seed: u64, r: &RunResult) -> i32 {
    let known = load_known(P::ID);
    for k in &known {
        let n = r.stats.excluded_known.get(&k.signature).copied().unwrap_or(0);
        println!(
            "KNOWN-FINDING: property={} {} [signature={} hit {} times this run]",
            P::ID, k.what, k.signature, n
        );
    }
    println!(
        "{} tier={} seed={} evaluations={} nontrivial={} distinct_nontrivial={} wall={:.1}s",
        P::ID,
        tier.name(),
        seed,
        r.stats.evaluations,
        r.stats.nontrivial,
        r.stats.fingerprints.len(),
        r.wall_s
    );
    let mut classes: Vec<_> = r.stats.labels.iter().collect();
    classes.sort();
    println!(
        "classes: {}",
        classes
            .iter()
            .map(|(k, v)| format!("{k}={v}"))
            .collect::<Vec<_>>()
            .join(" ")
    );
    if let Some(f) = &r.found {
        let dir = format!("{}/replays/{}", verif_root(), P::ID);
        let _ = std::fs::create_dir_all(&dir);
        let (path, data): (String, Vec<u8>) = match &f.bytes {
            Some(b) => (format!("{}/{:016x}.bin", dir, fnv64(b)), b.clone()),
            None => (
                format!("{}/{:016x}.json", dir, fnv64(f.case_json.as_bytes())),
                f.case_json.clone().into_bytes(),
            ),
        };
        std::fs::write(&path, data).expect("write replay");
        println!("signature: {}", f.failure.sig);
        println!("detail: {}", f.failure.detail);
        println!("VIOLATION property={} replay={}", P::ID, path);
        return 1;
    }
    if let Some(i) = &r.inconclusive {
        println!("INCONCLUSIVE property={} {}", P::ID, i);
        return 2;
    }
    if r.stats.evaluations == 0 || r.stats.fingerprints.len() < 2 {
        println!("INCONCLUSIVE property={} vacuous generator", P::ID);
        return 2;
    }
    println!("OK property={}", P::ID);
    0
}

pub fn replay<P: Prop>(path: &str) -> i32 {
    install_abort_reporter(P::ID);
    let case: Option<P::Case> = if path.ends_with(".json") {
        std::fs::read_to_string(path)
            .ok()
            .and_then(|s| serde_json::from_str(&s).ok())
    } else {
        std::fs::read(path).ok().and_then(|b| P::from_bytes(&b))
    };
    let Some(case) = case else {
        println!("INCONCLUSIVE property={} cannot read/decode replay file {}", P::ID, path);
        return 2;
    };
    let o = run_case::<P>(&case);
    println!("labels: {:?} nontrivial={}", o.labels, o.nontrivial);
    match o.fail {
        None => {
            println!("OK property={} replay passes", P::ID);
            0
        }
        Some(f) => {
            println!("signature: {}", f.sig);
            println!("detail: {}", f.detail);
            if is_known(&load_known(P::ID), &f.sig) {
                println!("KNOWN-FINDING: property={} signature={}", P::ID, f.sig);
                0
            } else {
                println!("VIOLATION property={} replay={}", P::ID, path);
                1
            }
        }
    }
}

/// Entry used by fuzz targets: decode, run, abort (=libFuzzer crash) on an unknown violation.
pub fn fuzz_one<P: Prop>(data: &[u8], known: &[KnownEntry]) {
    let Some(case) = P::from_bytes(data) else {
        return;
    };
    let o = run_case::<P>(&case);
    if let Some(f) = o.fail {
        if !is_known(known, &f.sig) {
            eprintln!("FUZZ-VIOLATION property={} signature={} detail={}", P::ID, f.sig, f.detail);
            std::process::abort();
        }
    }
}

pub fn strat_box<S: Strategy + 'static>(s: S) -> BoxedStrategy<S::Value> {
    s.boxed()
}
