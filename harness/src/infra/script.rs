//! Scripted message sources and HTTP bodies whose readiness pattern is part of the case.
use bytes::Bytes;
use http::HeaderMap;
use http_body::{Body, Frame};
use std::collections::VecDeque;
use std::pin::Pin;
use std::sync::atomic::{AtomicUsize, Ordering};
use std::sync::Arc;
use std::task::{Context, Poll};
use tokio_stream::Stream;
use tonic::Status;

pub const POLL_AFTER_END_TRIP: usize = 1000;

#[derive(Debug)]
pub enum SrcStep<T> {
    Pending,
    Item(T),
    Err(Status),
}

/// Stream<Item = Result<T, Status>>: plays the steps, then ends (None, sticky).
pub struct ScriptStream<T> {
    steps: VecDeque<SrcStep<T>>,
    pub polls_after_end: Arc<AtomicUsize>,
    pub polls: Arc<AtomicUsize>,
}
impl<T> ScriptStream<T> {
    pub fn new(steps: Vec<SrcStep<T>>) -> Self {
        Self {
            steps: steps.into(),
            polls_after_end: Arc::new(AtomicUsize::new(0)),
            polls: Arc::new(AtomicUsize::new(0)),
        }
    }
}
impl<T> Unpin for ScriptStream<T> {}
impl<T> Stream for ScriptStream<T> {
    type Item = Result<T, Status>;
    fn poll_next(mut self: Pin<&mut Self>, cx: &mut Context<'_>) -> Poll<Option<Self::Item>> {
        self.polls.fetch_add(1, Ordering::Relaxed);
        match self.steps.pop_front() {
            None => {
                let n = self.polls_after_end.fetch_add(1, Ordering::Relaxed);
                if n > POLL_AFTER_END_TRIP {
                    panic!("busy loop: message source polled {n} times after it ended");
                }
                Poll::Ready(None)
            }
            Some(SrcStep::Pending) => {
                cx.waker().wake_by_ref();
                Poll::Pending
            }
            Some(SrcStep::Item(t)) => Poll::Ready(Some(Ok(t))),
            Some(SrcStep::Err(s)) => Poll::Ready(Some(Err(s))),
        }
    }
    /// exact, like an iterator-backed stream: the number of items still to come
    fn size_hint(&self) -> (usize, Option<usize>) {
        let n = self.steps.iter().filter(|s| !matches!(s, SrcStep::Pending)).count();
        (n, Some(n))
    }
}

#[derive(Debug, Clone)]
pub enum BodyStep {
    Pending,
    Data(Bytes),
    Trailers(HeaderMap),
    Err(Status),
}

#[derive(Clone, Default)]
pub struct BodyProbe {
    pub polls: Arc<AtomicUsize>,
    pub polls_after_end: Arc<AtomicUsize>,
}

/// http_body::Body: plays the steps, then ends (None, sticky; `is_end_stream` stays false until then,
/// which is allowed). Counts polls after the end so a busy loop becomes a caught panic.
pub struct ScriptBody {
    steps: VecDeque<BodyStep>,
    pub probe: BodyProbe,
    /// when set, the body never ends: after the script it stays Pending (declared-but-absent payloads)
    pub hang_at_end: bool,
    /// when set, `size_hint()` is exact (a peer that announces its body size, e.g. content-length)
    pub sized: bool,
    /// when set, `is_end_stream()` is exact: true as soon as nothing is left to hand out (what hyper's HTTP/2
    /// body and `Full` report after their last frame)
    pub eos: bool,
}
impl ScriptBody {
    pub fn new(steps: Vec<BodyStep>) -> Self {
        Self {
            steps: steps.into(),
            probe: BodyProbe::default(),
            hang_at_end: false,
            sized: false,
            eos: false,
        }
    }
}
impl Body for ScriptBody {
    type Data = Bytes;
    type Error = Status;
    fn poll_frame(
        mut self: Pin<&mut Self>,
        cx: &mut Context<'_>,
    ) -> Poll<Option<Result<Frame<Bytes>, Status>>> {
        self.probe.polls.fetch_add(1, Ordering::Relaxed);
        match self.steps.pop_front() {
            None => {
                let n = self.probe.polls_after_end.fetch_add(1, Ordering::Relaxed);
                if n > POLL_AFTER_END_TRIP {
                    panic!("busy loop: body polled {n} times after it ended");
                }
                if self.hang_at_end {
                    return Poll::Pending;
                }
                Poll::Ready(None)
            }
            Some(BodyStep::Pending) => {
                cx.waker().wake_by_ref();
                Poll::Pending
            }
            Some(BodyStep::Data(b)) => Poll::Ready(Some(Ok(Frame::data(b)))),
            Some(BodyStep::Trailers(t)) => Poll::Ready(Some(Ok(Frame::trailers(t)))),
            Some(BodyStep::Err(s)) => Poll::Ready(Some(Err(s))),
        }
    }
    fn is_end_stream(&self) -> bool {
        self.eos && !self.hang_at_end && self.steps.is_empty()
    }
    fn size_hint(&self) -> http_body::SizeHint {
        if !self.sized {
            return http_body::SizeHint::default();
        }
        let n: u64 = self.steps.iter().map(|s| if let BodyStep::Data(d) = s { d.len() as u64 } else { 0 }).sum();
        http_body::SizeHint::with_exact(n)
    }
}

/// The scripted body with every DATA chunk presented as a non-contiguous `Buf` of two segments: a transport is
/// free to hand over any `Buf`, not only `Bytes`.
pub struct SegBody {
    inner: ScriptBody,
    seg: u8,
}
impl SegBody {
    /// split every DATA chunk after len * seg / 256 bytes (0: the first segment is empty)
    pub fn new(inner: ScriptBody, seg: u8) -> Self {
        SegBody { inner, seg }
    }
}
impl Body for SegBody {
    type Data = bytes::buf::Chain<Bytes, Bytes>;
    type Error = Status;
    fn poll_frame(mut self: Pin<&mut Self>, cx: &mut Context<'_>) -> Poll<Option<Result<Frame<Self::Data>, Status>>> {
        let seg = self.seg as usize;
        Pin::new(&mut self.inner).poll_frame(cx).map(|o| {
            o.map(|r| {
                r.map(|f| {
                    f.map_data(|mut d: Bytes| {
                        let tail = d.split_off(d.len() * seg / 256);
                        bytes::Buf::chain(d, tail)
                    })
                })
            })
        })
    }
    fn is_end_stream(&self) -> bool {
        self.inner.is_end_stream()
    }
    fn size_hint(&self) -> http_body::SizeHint {
        self.inner.size_hint()
    }
}
