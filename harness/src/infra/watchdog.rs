//! Wall-clock guard: converts a stuck process into exit 2 (inconclusive), never into a violation.
use super::runner::{verif_root, Tier, CURRENT};
use std::time::{Duration, Instant};

pub fn start(id: &str, tier: Tier) {
    let id = id.to_string();
    let limit = std::env::var("VERIF_WALL_LIMIT_S")
        .ok()
        .and_then(|s| s.parse::<u64>().ok())
        .unwrap_or(match tier {
            Tier::Quick => 40 * 60,
            Tier::Thorough => 8 * 3600,
        });
    std::thread::spawn(move || {
        let t0 = Instant::now();
        let mut last: Vec<(u64, String)> = vec![];
        let mut same_since: Vec<Instant> = vec![];
        loop {
            std::thread::sleep(Duration::from_secs(5));
            let cur = CURRENT.lock().map(|c| c.clone()).unwrap_or_default();
            if cur.len() != last.len() {
                same_since = vec![Instant::now(); cur.len()];
            } else {
                for i in 0..cur.len() {
                    if cur[i].0 != last[i].0 {
                        same_since[i] = Instant::now();
                    }
                }
            }
            last = cur;
            if t0.elapsed().as_secs() > limit {
                let dir = format!("{}/replays/{}", verif_root(), id);
                let _ = std::fs::create_dir_all(&dir);
                for (i, (_, c)) in last.iter().enumerate() {
                    if !c.is_empty() && same_since.get(i).map(|t| t.elapsed().as_secs() > 120).unwrap_or(false) {
                        let _ = std::fs::write(format!("{dir}/stuck-shard{i}.json"), c);
                    }
                }
                println!("INCONCLUSIVE property={id} wall-clock limit of {limit}s exceeded (recent cases of stuck shards, if any, saved under {dir})");
                std::process::exit(2);
            }
        }
    });
}
