//! A minimal `tracing` subscriber that counts events by target suffix and message prefix. Used where the only
//! way to see how often tonic did something internal (e.g. started a connection attempt over real TCP) is the
//! trace line it already emits.
use std::fmt::Debug;
use std::sync::atomic::{AtomicUsize, Ordering};
use std::sync::Arc;
use tracing::field::{Field, Visit};
use tracing::span;
use tracing::{Event, Metadata, Subscriber};

pub struct CountEvents {
    pub target_suffix: &'static str,
    pub message_prefix: &'static str,
    pub count: Arc<AtomicUsize>,
    /// only events emitted on this thread are counted (None: every thread)
    pub thread: Arc<std::sync::Mutex<Option<std::thread::ThreadId>>>,
}

/// Installs (once per process) a global subscriber counting Reconnect's "poll_ready; idle" events - the start
/// of a connection attempt - on the thread chosen through the returned handle.
pub fn reconnect_attempts() -> (Arc<AtomicUsize>, Arc<std::sync::Mutex<Option<std::thread::ThreadId>>>) {
    static H: std::sync::OnceLock<(Arc<AtomicUsize>, Arc<std::sync::Mutex<Option<std::thread::ThreadId>>>)> = std::sync::OnceLock::new();
    H.get_or_init(|| {
        let count = Arc::new(AtomicUsize::new(0));
        let thread = Arc::new(std::sync::Mutex::new(Some(std::thread::current().id())));
        let sub = CountEvents { target_suffix: "service::reconnect", message_prefix: "poll_ready; idle", count: count.clone(), thread: thread.clone() };
        let _ = tracing::subscriber::set_global_default(sub);
        (count, thread)
    })
    .clone()
}

struct Msg(String);
impl Visit for Msg {
    fn record_debug(&mut self, f: &Field, v: &dyn Debug) {
        if f.name() == "message" {
            self.0 = format!("{v:?}");
        }
    }
}

impl Subscriber for CountEvents {
    fn enabled(&self, m: &Metadata<'_>) -> bool {
        m.target().ends_with(self.target_suffix)
    }
    fn new_span(&self, _: &span::Attributes<'_>) -> span::Id {
        span::Id::from_u64(1)
    }
    fn record(&self, _: &span::Id, _: &span::Record<'_>) {}
    fn record_follows_from(&self, _: &span::Id, _: &span::Id) {}
    fn event(&self, e: &Event<'_>) {
        let mut m = Msg(String::new());
        e.record(&mut m);
        if std::env::var("VERIF_TRACE").is_ok() { eprintln!("trace: {} {}", e.metadata().target(), m.0); }
        if let Some(t) = *self.thread.lock().unwrap_or_else(|e| e.into_inner()) {
            if t != std::thread::current().id() {
                return;
            }
        }
        if m.0.starts_with(self.message_prefix) {
            self.count.fetch_add(1, Ordering::SeqCst);
        }
    }
    fn enter(&self, _: &span::Id) {}
    fn exit(&self, _: &span::Id) {}
}
