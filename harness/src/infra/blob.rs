//! Compact, shrinkable byte-string descriptions so that cases (and evidence samples) stay small.
use proptest::prelude::*;
use serde::{Deserialize, Serialize};

#[derive(Clone, Debug, Serialize, Deserialize, PartialEq, Eq)]
pub enum Blob {
    /// literal bytes, hex coded
    Hex(String),
    /// `len` zero bytes
    Zeros(u32),
    /// `len` bytes of a short repeating pattern (compressible)
    Rep(u32, u8),
    /// `len` pseudo-random bytes from xorshift(seed) (incompressible)
    Rnd(u32, u32),
}

pub fn hex(b: &[u8]) -> String {
    let mut s = String::with_capacity(b.len() * 2);
    for x in b {
        s.push_str(&format!("{:02x}", x));
    }
    s
}
pub fn unhex(s: &str) -> Vec<u8> {
    let b = s.as_bytes();
    let mut out = Vec::with_capacity(b.len() / 2);
    let v = |c: u8| -> u8 {
        match c {
            b'0'..=b'9' => c - b'0',
            b'a'..=b'f' => c - b'a' + 10,
            b'A'..=b'F' => c - b'A' + 10,
            _ => 0,
        }
    };
    let mut i = 0;
    while i + 1 < b.len() {
        out.push(v(b[i]) << 4 | v(b[i + 1]));
        i += 2;
    }
    out
}

pub fn xorshift_bytes(seed: u32, len: usize) -> Vec<u8> {
    let mut x: u64 = (seed as u64) << 1 | 1;
    x = x.wrapping_mul(0x9E3779B97F4A7C15) | 1;
    let mut out = Vec::with_capacity(len);
    while out.len() < len {
        x ^= x << 13;
        x ^= x >> 7;
        x ^= x << 17;
        for b in x.to_le_bytes() {
            if out.len() < len {
                out.push(b);
            }
        }
    }
    out
}

impl Blob {
    pub fn bytes(&self) -> Vec<u8> {
        match self {
            Blob::Hex(h) => unhex(h),
            Blob::Zeros(n) => vec![0u8; *n as usize],
            Blob::Rep(n, k) => {
                let pat = [b'a', b'b', *k, b'c', 0xff, *k ^ 0x55];
                (0..*n as usize).map(|i| pat[i % pat.len()]).collect()
            }
            Blob::Rnd(n, s) => xorshift_bytes(*s, *n as usize),
        }
    }
    pub fn len(&self) -> usize {
        match self {
            Blob::Hex(h) => h.len() / 2,
            Blob::Zeros(n) | Blob::Rep(n, _) | Blob::Rnd(n, _) => *n as usize,
        }
    }
    pub fn of(b: &[u8]) -> Blob {
        Blob::Hex(hex(b))
    }
}

/// blob whose length is drawn from `len`
pub fn blob_len(len: impl Strategy<Value = u32> + 'static) -> BoxedStrategy<Blob> {
    len.prop_flat_map(|n| {
        prop_oneof![
            3 => proptest::collection::vec(any::<u8>(), (n.min(64)) as usize).prop_map(move |v| {
                if n <= 64 { Blob::Hex(hex(&v)) } else { Blob::Rnd(n, u32::from_le_bytes([v[0],v[1],v[2],v[3]])) }
            }),
            1 => Just(Blob::Zeros(n)),
            1 => any::<u8>().prop_map(move |k| Blob::Rep(n, k)),
            1 => any::<u32>().prop_map(move |s| Blob::Rnd(n, s)),
        ]
    })
    .boxed()
}

/// small literal byte strings (shrink well)
pub fn small_bytes(max: usize) -> BoxedStrategy<Blob> {
    proptest::collection::vec(any::<u8>(), 0..=max)
        .prop_map(|v| Blob::Hex(hex(&v)))
        .boxed()
}
