//! Independent oracles, written from the gRPC / grpc-web / base64 / percent-encoding / protobuf wire
//! specifications. Shares no code with tonic.
use serde::{Deserialize, Serialize};
use std::io::Write;

#[derive(Clone, Copy, Debug, PartialEq, Eq, Hash, Serialize, Deserialize, PartialOrd, Ord)]
pub enum Enc {
    Gzip,
    Deflate,
    Zstd,
}
pub const ALL_ENC: [Enc; 3] = [Enc::Gzip, Enc::Deflate, Enc::Zstd];

impl Enc {
    pub fn name(self) -> &'static str {
        match self {
            Enc::Gzip => "gzip",
            Enc::Deflate => "deflate",
            Enc::Zstd => "zstd",
        }
    }
    pub fn from_name(s: &str) -> Option<Enc> {
        match s {
            "gzip" => Some(Enc::Gzip),
            "deflate" => Some(Enc::Deflate),
            "zstd" => Some(Enc::Zstd),
            _ => None,
        }
    }
    pub fn tonic(self) -> tonic::codec::CompressionEncoding {
        match self {
            Enc::Gzip => tonic::codec::CompressionEncoding::Gzip,
            Enc::Deflate => tonic::codec::CompressionEncoding::Deflate,
            Enc::Zstd => tonic::codec::CompressionEncoding::Zstd,
        }
    }
}

pub fn compress(enc: Enc, data: &[u8]) -> Vec<u8> {
    match enc {
        Enc::Gzip => {
            let mut e = flate2::write::GzEncoder::new(Vec::new(), flate2::Compression::new(4));
            e.write_all(data).unwrap();
            e.finish().unwrap()
        }
        Enc::Deflate => {
            let mut e = flate2::write::ZlibEncoder::new(Vec::new(), flate2::Compression::new(4));
            e.write_all(data).unwrap();
            e.finish().unwrap()
        }
        Enc::Zstd => zstd::bulk::compress(data, 1).unwrap(),
    }
}

/// Magic/header check for the announced encoding (RFC 1952, RFC 1950, RFC 8878).
pub fn magic_ok(enc: Enc, z: &[u8]) -> bool {
    match enc {
        Enc::Gzip => z.len() >= 18 && z[0] == 0x1f && z[1] == 0x8b && z[2] == 0x08,
        Enc::Deflate => {
            z.len() >= 6
                && (z[0] & 0x0f) == 8
                && (z[0] >> 4) <= 7
                && ((z[0] as u32) * 256 + z[1] as u32) % 31 == 0
        }
        Enc::Zstd => z.len() >= 4 && z[0..4] == [0x28, 0xb5, 0x2f, 0xfd],
    }
}

/// Decompress the *whole* input as exactly one stream of `enc` (different API path than tonic's
/// `read::*Decoder` + io::copy). Trailing garbage is an error.
pub fn decompress(enc: Enc, z: &[u8]) -> Result<Vec<u8>, String> {
    if !magic_ok(enc, z) {
        return Err(format!("bad magic for {}", enc.name()));
    }
    match enc {
        Enc::Gzip => {
            let mut d = flate2::write::GzDecoder::new(Vec::new());
            d.write_all(z).map_err(|e| e.to_string())?;
            d.finish().map_err(|e| e.to_string())
        }
        Enc::Deflate => {
            // the write-side zlib decoder silently accepts a truncated stream: drive the raw
            // decompressor and insist on StreamEnd with every input byte consumed
            let mut d = flate2::Decompress::new(true);
            let mut out: Vec<u8> = Vec::with_capacity(z.len() * 4 + 64);
            loop {
                let before_in = d.total_in();
                let before_out = d.total_out();
                if out.capacity() - out.len() < 4096 {
                    out.reserve(out.len().max(4096));
                }
                let st = d
                    .decompress_vec(&z[d.total_in() as usize..], &mut out, flate2::FlushDecompress::None)
                    .map_err(|e| e.to_string())?;
                match st {
                    flate2::Status::StreamEnd => break,
                    _ => {
                        if d.total_in() == before_in && d.total_out() == before_out && out.capacity() > out.len() {
                            return Err("truncated zlib stream".into());
                        }
                    }
                }
            }
            if d.total_in() as usize != z.len() {
                return Err("trailing bytes after the zlib stream".into());
            }
            Ok(out)
        }
        Enc::Zstd => {
            let v = zstd::stream::decode_all(z).map_err(|e| e.to_string())?;
            Ok(v)
        }
    }
}

// ------------------------------------------------------------------ gRPC framing

pub fn frame(flag: u8, payload: &[u8]) -> Vec<u8> {
    let mut v = Vec::with_capacity(5 + payload.len());
    v.push(flag);
    v.extend_from_slice(&(payload.len() as u32).to_be_bytes());
    v.extend_from_slice(payload);
    v
}

#[derive(Clone, Debug, PartialEq, Eq)]
pub struct RefFrame {
    pub off: usize,
    pub flag: u8,
    pub len: usize,
    pub payload: Vec<u8>,
}

#[derive(Clone, Debug, PartialEq, Eq)]
pub enum ParseEnd {
    Clean,
    /// fewer than 5 bytes left (but > 0)
    TruncatedPrefix { off: usize },
    /// prefix complete but payload shorter than declared
    TruncatedPayload { off: usize, flag: u8, declared: usize, have: usize },
}

/// Strict reference parse of a gRPC message body. Does not judge flag values.
pub fn parse_frames(b: &[u8]) -> (Vec<RefFrame>, ParseEnd) {
    let mut out = vec![];
    let mut off = 0usize;
    loop {
        if off == b.len() {
            return (out, ParseEnd::Clean);
        }
        if b.len() - off < 5 {
            return (out, ParseEnd::TruncatedPrefix { off });
        }
        let flag = b[off];
        let len = u32::from_be_bytes([b[off + 1], b[off + 2], b[off + 3], b[off + 4]]) as usize;
        if b.len() - off - 5 < len {
            return (
                out,
                ParseEnd::TruncatedPayload { off, flag, declared: len, have: b.len() - off - 5 },
            );
        }
        out.push(RefFrame { off, flag, len, payload: b[off + 5..off + 5 + len].to_vec() });
        off += 5 + len;
    }
}

// ------------------------------------------------------------------ base64 (RFC 4648)

const B64: &[u8; 64] = b"ABCDEFGHIJKLMNOPQRSTUVWXYZabcdefghijklmnopqrstuvwxyz0123456789+/";

pub fn b64_encode(data: &[u8], pad: bool) -> String {
    let mut s = String::new();
    for c in data.chunks(3) {
        let n = (c[0] as u32) << 16 | (*c.get(1).unwrap_or(&0) as u32) << 8 | *c.get(2).unwrap_or(&0) as u32;
        s.push(B64[(n >> 18) as usize & 63] as char);
        s.push(B64[(n >> 12) as usize & 63] as char);
        if c.len() > 1 {
            s.push(B64[(n >> 6) as usize & 63] as char);
        } else if pad {
            s.push('=');
        }
        if c.len() > 2 {
            s.push(B64[n as usize & 63] as char);
        } else if pad {
            s.push('=');
        }
    }
    s
}

fn b64_val(c: u8) -> Option<u32> {
    match c {
        b'A'..=b'Z' => Some((c - b'A') as u32),
        b'a'..=b'z' => Some((c - b'a' + 26) as u32),
        b'0'..=b'9' => Some((c - b'0' + 52) as u32),
        b'+' => Some(62),
        b'/' => Some(63),
        _ => None,
    }
}

/// Decode one base64 run. Accepts padded and unpadded input (padding only at the end, at most the
/// amount that completes the quantum). Non-canonical trailing bits are accepted (lenient), since
/// decoders legitimately differ there. Returns None for a bad alphabet / impossible length.
pub fn b64_decode(s: &[u8]) -> Option<Vec<u8>> {
    let mut end = s.len();
    let mut pads = 0;
    while end > 0 && s[end - 1] == b'=' && pads < 2 {
        end -= 1;
        pads += 1;
    }
    let body = &s[..end];
    if pads > 0 && (body.len() + pads) % 4 != 0 {
        return None;
    }
    if body.len() % 4 == 1 {
        return None;
    }
    let mut out = Vec::with_capacity(body.len() * 3 / 4);
    for q in body.chunks(4) {
        let mut n = 0u32;
        for (i, c) in q.iter().enumerate() {
            n |= b64_val(*c)? << (18 - 6 * i);
        }
        out.push((n >> 16) as u8);
        if q.len() > 2 {
            out.push((n >> 8) as u8);
        }
        if q.len() > 3 {
            out.push(n as u8);
        }
    }
    Some(out)
}

/// True iff the trailing bits of the last (partial) quantum are zero (canonical encoding).
pub fn b64_is_canonical(s: &[u8]) -> bool {
    let mut end = s.len();
    while end > 0 && s[end - 1] == b'=' {
        end -= 1;
    }
    let body = &s[..end];
    match body.len() % 4 {
        2 => b64_val(body[body.len() - 1]).map(|v| v & 0x0f == 0).unwrap_or(false),
        3 => b64_val(body[body.len() - 1]).map(|v| v & 0x03 == 0).unwrap_or(false),
        _ => true,
    }
}

/// grpc-web-text: a concatenation of independently padded base64 runs. Decode quantum by quantum,
/// padding allowed at the end of any quantum.
pub fn b64_decode_quanta(s: &[u8]) -> Option<Vec<u8>> {
    if s.len() % 4 != 0 {
        return None;
    }
    let mut out = vec![];
    for q in s.chunks(4) {
        out.extend(b64_decode(q)?);
    }
    Some(out)
}

// ------------------------------------------------------------------ percent-encoding, header values

/// Percent-decoding per the gRPC spec for grpc-message: `%XX` with two hex digits is one byte,
/// everything else is literal. Returns the raw bytes.
pub fn percent_decode(s: &[u8]) -> Vec<u8> {
    let hexv = |c: u8| -> Option<u8> {
        match c {
            b'0'..=b'9' => Some(c - b'0'),
            b'a'..=b'f' => Some(c - b'a' + 10),
            b'A'..=b'F' => Some(c - b'A' + 10),
            _ => None,
        }
    };
    let mut out = vec![];
    let mut i = 0;
    while i < s.len() {
        if s[i] == b'%' && i + 2 < s.len() {
            if let (Some(a), Some(b)) = (hexv(s[i + 1]), hexv(s[i + 2])) {
                out.push(a << 4 | b);
                i += 3;
                continue;
            }
        }
        out.push(s[i]);
        i += 1;
    }
    out
}

/// Every `%` is followed by two hex digits and all bytes are in 0x20..=0x7e.
pub fn is_strict_percent_encoded(s: &[u8]) -> bool {
    let mut i = 0;
    while i < s.len() {
        let c = s[i];
        if !(0x20..=0x7e).contains(&c) {
            return false;
        }
        if c == b'%' {
            if i + 2 >= s.len() {
                return false;
            }
            if !(s[i + 1].is_ascii_hexdigit() && s[i + 2].is_ascii_hexdigit()) {
                return false;
            }
            i += 3;
        } else {
            i += 1;
        }
    }
    true
}

/// RFC 9110 field-value bytes as `http` accepts them on the wire: HTAB, SP..=0x7e, obs-text 0x80..=0xff.
pub fn is_legal_header_value(v: &[u8]) -> bool {
    v.iter().all(|&b| b == b'\t' || (0x20..=0x7e).contains(&b) || b >= 0x80)
}

pub fn is_visible_ascii(v: &[u8]) -> bool {
    v.iter().all(|&b| (0x20..=0x7e).contains(&b))
}

// ------------------------------------------------------------------ grpc-timeout grammar

/// `TimeoutValue TimeoutUnit`: 1..=8 ASCII digits and one of H M S m u n. Returns nanoseconds.
pub fn parse_timeout_spec(v: &[u8]) -> Option<u128> {
    if v.len() < 2 || v.len() > 9 {
        return None;
    }
    let (digits, unit) = v.split_at(v.len() - 1);
    if !digits.iter().all(|c| c.is_ascii_digit()) {
        return None;
    }
    let mut n: u128 = 0;
    for d in digits {
        n = n * 10 + (d - b'0') as u128;
    }
    let mult: u128 = match unit[0] {
        b'H' => 3_600_000_000_000,
        b'M' => 60_000_000_000,
        b'S' => 1_000_000_000,
        b'm' => 1_000_000,
        b'u' => 1_000,
        b'n' => 1,
        _ => return None,
    };
    Some(n * mult)
}

pub fn timeout_unit_nanos(unit: u8) -> Option<u128> {
    parse_timeout_spec(&[b'1', unit])
}

// ------------------------------------------------------------------ grpc-web

/// Parse a grpc-web (binary) body into (message frames, trailer blocks). Frame flag bit 7 marks
/// trailers. Returns Err on truncation.
pub fn parse_grpc_web(b: &[u8]) -> Result<Vec<RefFrame>, String> {
    let (frames, end) = parse_frames(b);
    if end != ParseEnd::Clean {
        return Err(format!("truncated: {:?}", end));
    }
    Ok(frames)
}

/// Trailer block of a grpc-web trailers frame: HTTP/1-style `name:value\r\n` lines. The value is
/// everything after the *first* colon, with optional leading/trailing whitespace trimmed.
pub fn parse_trailer_block(b: &[u8]) -> Result<Vec<(String, Vec<u8>)>, String> {
    let mut out = vec![];
    let mut rest = b;
    while !rest.is_empty() {
        let pos = rest
            .windows(2)
            .position(|w| w == b"\r\n")
            .ok_or_else(|| "line without CRLF".to_string())?;
        let line = &rest[..pos];
        rest = &rest[pos + 2..];
        if line.is_empty() {
            continue;
        }
        let c = line.iter().position(|&x| x == b':').ok_or_else(|| "line without colon".to_string())?;
        let name = String::from_utf8_lossy(&line[..c]).trim().to_ascii_lowercase();
        let mut v = &line[c + 1..];
        while let [b' ' | b'\t', r @ ..] = v {
            v = r;
        }
        while let [r @ .., b' ' | b'\t'] = v {
            v = r;
        }
        out.push((name, v.to_vec()));
    }
    Ok(out)
}

pub fn encode_trailer_block(t: &[(String, Vec<u8>)], space_after_colon: bool) -> Vec<u8> {
    let mut v = vec![];
    for (n, val) in t {
        v.extend_from_slice(n.as_bytes());
        v.push(b':');
        if space_after_colon {
            v.push(b' ');
        }
        v.extend_from_slice(val);
        v.extend_from_slice(b"\r\n");
    }
    v
}

// ------------------------------------------------------------------ minimal protobuf wire

#[derive(Clone, Debug, PartialEq)]
pub enum PbVal {
    Varint(u64),
    Fixed64(u64),
    Bytes(Vec<u8>),
    Fixed32(u32),
}

pub fn pb_read_varint(b: &[u8], i: &mut usize) -> Option<u64> {
    let mut v = 0u64;
    let mut shift = 0;
    loop {
        let c = *b.get(*i)?;
        *i += 1;
        if shift >= 64 {
            return None;
        }
        v |= ((c & 0x7f) as u64) << shift;
        if c & 0x80 == 0 {
            return Some(v);
        }
        shift += 7;
    }
}

pub fn pb_parse(b: &[u8]) -> Option<Vec<(u32, PbVal)>> {
    let mut i = 0;
    let mut out = vec![];
    while i < b.len() {
        let key = pb_read_varint(b, &mut i)?;
        let field = (key >> 3) as u32;
        match key & 7 {
            0 => out.push((field, PbVal::Varint(pb_read_varint(b, &mut i)?))),
            1 => {
                let s = b.get(i..i + 8)?;
                i += 8;
                out.push((field, PbVal::Fixed64(u64::from_le_bytes(s.try_into().ok()?))));
            }
            2 => {
                let l = pb_read_varint(b, &mut i)? as usize;
                let s = b.get(i..i.checked_add(l)?)?;
                i += l;
                out.push((field, PbVal::Bytes(s.to_vec())));
            }
            5 => {
                let s = b.get(i..i + 4)?;
                i += 4;
                out.push((field, PbVal::Fixed32(u32::from_le_bytes(s.try_into().ok()?))));
            }
            _ => return None,
        }
    }
    Some(out)
}

pub fn pb_write_varint(out: &mut Vec<u8>, mut v: u64) {
    loop {
        let b = (v & 0x7f) as u8;
        v >>= 7;
        if v == 0 {
            out.push(b);
            return;
        }
        out.push(b | 0x80);
    }
}
pub fn pb_write_bytes(out: &mut Vec<u8>, field: u32, data: &[u8]) {
    pb_write_varint(out, ((field as u64) << 3) | 2);
    pb_write_varint(out, data.len() as u64);
    out.extend_from_slice(data);
}
pub fn pb_write_uvarint_field(out: &mut Vec<u8>, field: u32, v: u64) {
    pb_write_varint(out, (field as u64) << 3);
    pb_write_varint(out, v);
}

// ------------------------------------------------------------------ tables transcribed from the gRPC docs

/// doc/http-grpc-status-mapping.md
pub fn http_status_to_code(status: u16) -> i32 {
    match status {
        400 => 13, // INTERNAL
        401 => 16, // UNAUTHENTICATED
        403 => 7,  // PERMISSION_DENIED
        404 => 12, // UNIMPLEMENTED
        429 | 502 | 503 | 504 => 14, // UNAVAILABLE
        _ => 2,    // UNKNOWN
    }
}

/// doc/PROTOCOL-HTTP2.md "HTTP2 Transport Mapping / Errors": Some(code) where the document pins a code.
pub fn h2_reason_to_code(reason: u32) -> Option<i32> {
    match reason {
        0x0 => Some(13), // NO_ERROR -> INTERNAL
        0x1 => Some(13), // PROTOCOL_ERROR
        0x2 => Some(13), // INTERNAL_ERROR
        0x3 => Some(13), // FLOW_CONTROL_ERROR
        0x4 => Some(13), // SETTINGS_TIMEOUT
        0x5 => None,     // STREAM_CLOSED: "no mapping"
        0x6 => Some(13), // FRAME_SIZE_ERROR
        0x7 => Some(14), // REFUSED_STREAM -> UNAVAILABLE
        0x8 => Some(1),  // CANCEL -> CANCELLED
        0x9 => Some(13), // COMPRESSION_ERROR
        0xa => Some(13), // CONNECT_ERROR
        0xb => Some(8),  // ENHANCE_YOUR_CALM -> RESOURCE_EXHAUSTED
        0xc => Some(7),  // INADEQUATE_SECURITY -> PERMISSION_DENIED
        _ => None,
    }
}

pub const RESERVED_METADATA: [&str; 6] =
    ["te", "user-agent", "content-type", "grpc-status", "grpc-message", "grpc-message-type"];

#[cfg(test)]
mod tests {
    use super::*;
    #[test]
    fn b64() {
        for n in 0..20usize {
            let d: Vec<u8> = (0..n as u8).map(|x| x.wrapping_mul(37)).collect();
            for pad in [true, false] {
                let e = b64_encode(&d, pad);
                assert_eq!(b64_decode(e.as_bytes()).unwrap(), d);
            }
        }
        assert!(b64_decode(b"A").is_none());
        assert!(b64_decode(b"A=").is_none());
        assert_eq!(b64_decode(b"QQ==").unwrap(), b"A");
        assert_eq!(b64_decode_quanta(b"QQ==QQ==").unwrap(), b"AA");
    }
    #[test]
    fn pct() {
        assert_eq!(percent_decode(b"a%41%zz%4"), b"aA%zz%4");
        assert_eq!(percent_decode(b"%"), b"%");
        assert_eq!(percent_decode(b"%41"), b"A");
        assert!(is_strict_percent_encoded(b"a%41"));
        assert!(!is_strict_percent_encoded(b"a%4"));
        assert!(!is_strict_percent_encoded(b"%"));
    }
    #[test]
    fn comp() {
        for e in ALL_ENC {
            let d = b"hello hello hello hello".to_vec();
            let z = compress(e, &d);
            assert!(magic_ok(e, &z));
            assert_eq!(decompress(e, &z).unwrap(), d);
            for o in ALL_ENC {
                if o != e {
                    assert!(decompress(o, &z).is_err());
                }
            }
            // truncated streams are rejected
            for cut in 1..z.len() {
                assert!(decompress(e, &z[..cut]).is_err(), "{:?} truncated at {}", e, cut);
            }
            // large outputs
            let big: Vec<u8> = (0..100_000u32).map(|i| (i % 7) as u8).collect();
            assert_eq!(decompress(e, &compress(e, &big)).unwrap(), big);
        }
    }
}
