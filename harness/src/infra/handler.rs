//! Scripted handlers for the generated `vt.Raw` / `vt.Test` services: the reference model of C02/C03/
//! C05/C06/C08/C13 is the script; the handler records what it saw.
use super::blob::Blob;
use super::md::{self, MdEntry};
use crate::svc::{vt, Msg};
use serde::{Deserialize, Serialize};
use std::pin::Pin;
use std::sync::{Arc, Mutex};
use std::time::Duration;
use tokio_stream::Stream;
use tonic::{Code, Request, Response, Status, Streaming};

#[derive(Clone, Debug, Serialize, Deserialize, PartialEq)]
pub struct StatusSpec {
    pub code: i32,
    pub message: String,
    pub details: Blob,
    pub md: Vec<MdEntry>,
}
impl StatusSpec {
    pub fn status(&self) -> Status {
        Status::with_details_and_metadata(
            Code::from_i32(self.code),
            self.message.clone(),
            bytes::Bytes::from(self.details.bytes()),
            md::build_map(&self.md),
        )
    }
}

#[derive(Clone, Debug, Serialize, Deserialize, PartialEq)]
pub enum ErrKind {
    /// handler returns Err(status): trailers-only response
    Handler,
    /// error is an item of the response stream after the scripted messages (streaming shapes);
    /// for unary/client-streaming shapes it degrades to `Handler`
    StreamItem,
}

#[derive(Clone, Debug, Serialize, Deserialize, PartialEq)]
pub struct RespMsg {
    pub data: Blob,
    /// spurious Pendings before this message
    pub pend: u8,
    /// virtual milliseconds to sleep before this message (0 = none; needs a tokio runtime otherwise)
    pub delay_ms: u32,
}

#[derive(Clone, Debug, Serialize, Deserialize, PartialEq, Default)]
pub struct HandlerScript {
    pub initial_md: Vec<MdEntry>,
    pub msgs: Vec<RespMsg>,
    pub outcome: Option<StatusSpec>,
    pub err_kind: Option<ErrKind>,
    pub latency_ms: u32,
    pub disable_compression: bool,
    /// streaming shapes: read the whole request stream before the first response message
    pub drain_first: bool,
}

#[derive(Clone, Debug, Default)]
pub struct CallLog {
    pub method: &'static str,
    pub script: usize,
    pub metadata: http::HeaderMap,
    pub msgs: Vec<Vec<u8>>,
    pub req_error: Option<(Code, String)>,
    pub req_ended: bool,
    pub completed: bool,
    /// handler future / response stream dropped before completion
    pub cancelled: bool,
    pub peer_certs: Option<usize>,
    pub has_timeout_header: Option<Vec<u8>>,
    /// virtual milliseconds (paused-clock runtimes only)
    pub entered_ms: Option<u64>,
    pub completed_ms: Option<u64>,
}

#[derive(Clone, Default)]
pub struct Shared {
    pub scripts: Arc<Vec<HandlerScript>>,
    pub log: Arc<Mutex<Vec<CallLog>>>,
    /// called with (call index, event) for event-triggered actions (C13)
    pub on_event: Option<Arc<dyn Fn(usize, &'static str, usize) + Send + Sync>>,
}

pub trait TestMsg: Send + 'static {
    fn from_bytes(b: Vec<u8>) -> Self;
    fn to_bytes(&self) -> Vec<u8>;
}
impl TestMsg for Vec<u8> {
    fn from_bytes(b: Vec<u8>) -> Self {
        b
    }
    fn to_bytes(&self) -> Vec<u8> {
        self.clone()
    }
}
impl TestMsg for Msg {
    fn from_bytes(b: Vec<u8>) -> Self {
        Msg { data: b, ..Default::default() }
    }
    fn to_bytes(&self) -> Vec<u8> {
        self.data.clone()
    }
}

struct Guard {
    log: Arc<Mutex<Vec<CallLog>>>,
    idx: usize,
    done: bool,
}
impl Drop for Guard {
    fn drop(&mut self) {
        if !self.done {
            if let Ok(mut l) = self.log.lock() {
                l[self.idx].cancelled = true;
            }
        }
    }
}

impl Shared {
    pub fn new(scripts: Vec<HandlerScript>) -> Self {
        Self { scripts: Arc::new(scripts), log: Default::default(), on_event: None }
    }
    fn event(&self, idx: usize, ev: &'static str, n: usize) {
        if let Some(f) = &self.on_event {
            f(idx, ev, n);
        }
    }
    fn enter<T>(&self, method: &'static str, req: &Request<T>) -> (usize, HandlerScript, Guard) {
        let md = req.metadata().clone().into_headers();
        let script = md
            .get("x-script")
            .and_then(|v| v.to_str().ok())
            .and_then(|s| s.parse::<usize>().ok())
            .unwrap_or(0);
        let sc = self.scripts.get(script).cloned().unwrap_or_default();
        let mut l = self.log.lock().unwrap();
        let idx = l.len();
        l.push(CallLog {
            method,
            script,
            has_timeout_header: md.get("grpc-timeout").map(|v| v.as_bytes().to_vec()),
            entered_ms: crate::infra::rt::virtual_ms(),
            metadata: md,
            ..Default::default()
        });
        drop(l);
        self.event(idx, "entered", 0);
        (idx, sc, Guard { log: self.log.clone(), idx, done: false })
    }
    fn finish(&self, idx: usize, g: &mut Guard) {
        g.done = true;
        {
            let mut l = self.log.lock().unwrap();
            l[idx].completed = true;
            l[idx].completed_ms = crate::infra::rt::virtual_ms();
        }
        self.event(idx, "completed", 0);
    }
    async fn drain<M: TestMsg>(&self, idx: usize, s: &mut Streaming<M>) {
        loop {
            match s.message().await {
                Ok(Some(m)) => self.log.lock().unwrap()[idx].msgs.push(m.to_bytes()),
                Ok(None) => {
                    self.log.lock().unwrap()[idx].req_ended = true;
                    break;
                }
                Err(e) => {
                    self.log.lock().unwrap()[idx].req_error = Some((e.code(), e.message().to_string()));
                    break;
                }
            }
        }
    }
    async fn single<M: TestMsg>(&self, idx: usize, sc: HandlerScript, mut g: Guard) -> Result<Response<M>, Status> {
        if sc.latency_ms > 0 {
            tokio::time::sleep(Duration::from_millis(sc.latency_ms as u64)).await;
        }
        let r = match &sc.outcome {
            Some(st) => Err(st.status()),
            None => {
                let data = sc.msgs.first().map(|m| m.data.bytes()).unwrap_or_default();
                let mut resp = Response::new(M::from_bytes(data));
                *resp.metadata_mut() = md::build_map(&sc.initial_md);
                if sc.disable_compression {
                    resp.disable_compression();
                }
                Ok(resp)
            }
        };
        self.finish(idx, &mut g);
        r
    }
    fn stream<M: TestMsg>(
        &self,
        idx: usize,
        sc: HandlerScript,
        mut g: Guard,
        mut req: Option<Streaming<M>>,
    ) -> Pin<Box<dyn Stream<Item = Result<M, Status>> + Send>> {
        let me = self.clone();
        // scripts with an even number of messages (0 included) answer with a stream that knows its exact length,
        // like `tokio_stream::iter(vec![..])`; the others give no hint, like a channel-backed stream
        let exact = if sc.msgs.len() % 2 == 0 { Some(sc.msgs.len() + sc.outcome.is_some() as usize) } else { None };
        let inner: Pin<Box<dyn Stream<Item = Result<M, Status>> + Send>> = Box::pin(async_stream::stream! {
            if sc.drain_first {
                if let Some(r) = req.as_mut() { me.drain(idx, r).await; }
            }
            for (i, m) in sc.msgs.iter().enumerate() {
                for _ in 0..m.pend {
                    PendOnce(false).await;
                }
                if m.delay_ms > 0 {
                    tokio::time::sleep(Duration::from_millis(m.delay_ms as u64)).await;
                }
                yield Ok(M::from_bytes(m.data.bytes()));
                me.event(idx, "sent", i);
            }
            if !sc.drain_first {
                if let Some(r) = req.as_mut() { me.drain(idx, r).await; }
            }
            // the stream is legitimately dropped right after an error item: finish first
            me.finish(idx, &mut g);
            if let Some(st) = &sc.outcome {
                yield Err(st.status());
            }
        });
        Box::pin(HintedStream { inner, left: exact })
    }
}

/// A response stream with an optional exact `size_hint`.
struct HintedStream<M> {
    inner: Pin<Box<dyn Stream<Item = Result<M, Status>> + Send>>,
    left: Option<usize>,
}
impl<M> Stream for HintedStream<M> {
    type Item = Result<M, Status>;
    fn poll_next(mut self: Pin<&mut Self>, cx: &mut std::task::Context<'_>) -> std::task::Poll<Option<Self::Item>> {
        let r = self.inner.as_mut().poll_next(cx);
        if let std::task::Poll::Ready(Some(_)) = &r {
            if let Some(l) = self.left.as_mut() {
                *l = l.saturating_sub(1);
            }
        }
        r
    }
    fn size_hint(&self) -> (usize, Option<usize>) {
        match self.left {
            Some(l) => (l, Some(l)),
            None => (0, None),
        }
    }
}

/// Future that returns Pending once (waking itself), then Ready.
pub struct PendOnce(pub bool);
impl std::future::Future for PendOnce {
    type Output = ();
    fn poll(mut self: Pin<&mut Self>, cx: &mut std::task::Context<'_>) -> std::task::Poll<()> {
        if self.0 {
            std::task::Poll::Ready(())
        } else {
            self.0 = true;
            cx.waker().wake_by_ref();
            std::task::Poll::Pending
        }
    }
}

macro_rules! impl_service {
    ($trait:path, $msg:ty) => {
        #[tonic::async_trait]
        impl $trait for Shared {
            async fn unary(&self, req: Request<$msg>) -> Result<Response<$msg>, Status> {
                let (idx, sc, g) = self.enter("Unary", &req);
                self.log.lock().unwrap()[idx].msgs.push(TestMsg::to_bytes(req.get_ref()));
                self.log.lock().unwrap()[idx].req_ended = true;
                #[cfg(feature = "tls")]
                {
                    self.log.lock().unwrap()[idx].peer_certs = req.peer_certs().map(|c| c.len());
                }
                self.single::<$msg>(idx, sc, g).await
            }
            async fn client_stream(&self, req: Request<Streaming<$msg>>) -> Result<Response<$msg>, Status> {
                let (idx, sc, g) = self.enter("ClientStream", &req);
                let mut s = req.into_inner();
                self.drain(idx, &mut s).await;
                self.single::<$msg>(idx, sc, g).await
            }
            type ServerStreamStream = Pin<Box<dyn Stream<Item = Result<$msg, Status>> + Send>>;
            async fn server_stream(&self, req: Request<$msg>) -> Result<Response<Self::ServerStreamStream>, Status> {
                let (idx, sc, mut g) = self.enter("ServerStream", &req);
                self.log.lock().unwrap()[idx].msgs.push(TestMsg::to_bytes(req.get_ref()));
                self.log.lock().unwrap()[idx].req_ended = true;
                if sc.latency_ms > 0 {
                    tokio::time::sleep(Duration::from_millis(sc.latency_ms as u64)).await;
                }
                if let (Some(st), Some(ErrKind::Handler)) = (&sc.outcome, &sc.err_kind) {
                    self.finish(idx, &mut g);
                    return Err(st.status());
                }
                let initial = md::build_map(&sc.initial_md);
                let dis = sc.disable_compression;
                let mut resp = Response::new(self.stream::<$msg>(idx, sc, g, None));
                *resp.metadata_mut() = initial;
                if dis {
                    resp.disable_compression();
                }
                Ok(resp)
            }
            type BidiStream = Pin<Box<dyn Stream<Item = Result<$msg, Status>> + Send>>;
            async fn bidi(&self, req: Request<Streaming<$msg>>) -> Result<Response<Self::BidiStream>, Status> {
                let (idx, sc, mut g) = self.enter("Bidi", &req);
                if sc.latency_ms > 0 {
                    tokio::time::sleep(Duration::from_millis(sc.latency_ms as u64)).await;
                }
                if let (Some(st), Some(ErrKind::Handler)) = (&sc.outcome, &sc.err_kind) {
                    self.finish(idx, &mut g);
                    return Err(st.status());
                }
                let initial = md::build_map(&sc.initial_md);
                let dis = sc.disable_compression;
                let s = req.into_inner();
                let mut resp = Response::new(self.stream::<$msg>(idx, sc, g, Some(s)));
                *resp.metadata_mut() = initial;
                if dis {
                    resp.disable_compression();
                }
                Ok(resp)
            }
        }
    };
}
impl_service!(vt::raw_server::Raw, Vec<u8>);
impl_service!(vt::test_server::Test, Msg);
