//! Metadata generators and the reference ordered multimap.
use super::blob::{hex, unhex};
use super::wire;
use http::HeaderMap;
use proptest::prelude::*;
use serde::{Deserialize, Serialize};
use tonic::metadata::{Ascii, Binary, MetadataKey, MetadataMap, MetadataValue};

#[derive(Clone, Debug, Serialize, Deserialize, PartialEq, Eq)]
pub struct MdEntry {
    pub name: String,
    /// hex of the raw value (ASCII entries: the header bytes; binary entries: the undecoded bytes)
    pub val: String,
}
impl MdEntry {
    pub fn is_bin(&self) -> bool {
        self.name.ends_with("-bin")
    }
    pub fn bytes(&self) -> Vec<u8> {
        unhex(&self.val)
    }
    pub fn is_reserved(&self) -> bool {
        wire::RESERVED_METADATA.contains(&self.name.as_str())
    }
}

pub const NAME_POOL: &[&str] = &[
    "x-a", "k", "trace-id", "a.b", "a_b", "bin", "x-bin-", "x-binx", "xbin", "x-bi", "x-bin", "data-bin",
    "-bin", "a-bin", "k-bin", "x1", "x2", "zz-top",
    // custom names that merely look like protocol headers (the statement reserves exactly six names)
    "grpc-status-upstream", "grpc-messages", "grpc-statu", "x-grpc-status", "grpc-status-upstream-bin", "content-types",
];

pub fn name(allow_reserved: bool) -> BoxedStrategy<String> {
    let pool = proptest::sample::select(NAME_POOL).prop_map(|s| s.to_string());
    let rnd = "x[a-z0-9_.-]{0,8}(-bin)?".prop_map(|s| s);
    if allow_reserved {
        prop_oneof![
            6 => pool,
            2 => rnd,
            2 => proptest::sample::select(&wire::RESERVED_METADATA[..]).prop_map(|s| s.to_string()),
        ]
        .boxed()
    } else {
        prop_oneof![6 => pool, 2 => rnd].boxed()
    }
}

pub fn ascii_value(opaque: bool) -> BoxedStrategy<Vec<u8>> {
    let visible = proptest::collection::vec(0x21u8..=0x7e, 0..=24);
    let spaced = ("[!-~]{1,6}( [!-~:]{1,6}){0,3}").prop_map(|s| s.into_bytes());
    if opaque {
        prop_oneof![
            5 => visible,
            3 => spaced,
            1 => proptest::collection::vec(prop_oneof![0x21u8..=0x7e, 0x80u8..=0xff], 1..=12),
        ]
        .boxed()
    } else {
        prop_oneof![5 => visible, 3 => spaced].boxed()
    }
}

pub fn entry(allow_reserved: bool, opaque: bool) -> BoxedStrategy<MdEntry> {
    name(allow_reserved)
        .prop_flat_map(move |n| {
            let v: BoxedStrategy<Vec<u8>> = if n.ends_with("-bin") {
                proptest::collection::vec(any::<u8>(), 0..=20).boxed()
            } else {
                ascii_value(opaque)
            };
            v.prop_map(move |v| MdEntry { name: n.clone(), val: hex(&v) })
        })
        .boxed()
}

pub fn entries(max: usize, allow_reserved: bool, opaque: bool) -> BoxedStrategy<Vec<MdEntry>> {
    proptest::collection::vec(entry(allow_reserved, opaque), 0..=max).boxed()
}

/// Builds the MetadataMap with `append`/`append_bin` in order.
pub fn build_map(es: &[MdEntry]) -> MetadataMap {
    let mut m = MetadataMap::new();
    for e in es {
        if e.is_bin() {
            let k = MetadataKey::<Binary>::from_bytes(e.name.as_bytes()).expect("valid bin key");
            m.append_bin(k, MetadataValue::from_bytes(&e.bytes()));
        } else {
            let k = MetadataKey::<Ascii>::from_bytes(e.name.as_bytes()).expect("valid ascii key");
            let v = MetadataValue::<Ascii>::try_from(&e.bytes()[..]).expect("valid ascii value");
            m.append(k, v);
        }
    }
    m
}

/// name -> ordered raw values
pub fn multimap(es: &[MdEntry]) -> Vec<(String, Vec<Vec<u8>>)> {
    let mut out: Vec<(String, Vec<Vec<u8>>)> = vec![];
    for e in es {
        if let Some(x) = out.iter_mut().find(|x| x.0 == e.name) {
            x.1.push(e.bytes());
        } else {
            out.push((e.name.clone(), vec![e.bytes()]));
        }
    }
    out
}

/// Checks that `headers` carries every non-reserved entry under the same name with the same
/// ordered values (binary: any base64 that independently decodes to the bytes), and no reserved
/// user entry. Returns Err(description).
pub fn check_present(headers: &HeaderMap, es: &[MdEntry], exact_keys: Option<&[&str]>) -> Result<(), String> {
    for (name, vals) in multimap(es) {
        if wire::RESERVED_METADATA.contains(&name.as_str()) {
            continue;
        }
        let got: Vec<Vec<u8>> = headers.get_all(name.as_str()).iter().map(|v| v.as_bytes().to_vec()).collect();
        if got.len() != vals.len() {
            return Err(format!("key {name:?}: expected {} values, found {}", vals.len(), got.len()));
        }
        for (i, (g, v)) in got.iter().zip(vals.iter()).enumerate() {
            if name.ends_with("-bin") {
                match wire::b64_decode(g) {
                    Some(d) if d == *v => {}
                    other => {
                        return Err(format!(
                            "key {name:?} value {i}: wire {:?} decodes to {:?}, expected {}",
                            String::from_utf8_lossy(g),
                            other.map(|d| hex(&d)),
                            hex(v)
                        ))
                    }
                }
            } else if g != v {
                return Err(format!("key {name:?} value {i}: {} != {}", hex(g), hex(v)));
            }
        }
    }
    if let Some(allowed_extra) = exact_keys {
        for k in headers.keys() {
            let k = k.as_str();
            if !es.iter().any(|e| e.name == k && !e.is_reserved()) && !allowed_extra.contains(&k) {
                return Err(format!("unexpected key {k:?} in result"));
            }
        }
    }
    Ok(())
}

pub fn label_md(es: &[MdEntry]) -> (bool, bool, bool) {
    let bin_mod3 = es.iter().any(|e| e.is_bin() && e.bytes().len() % 3 != 0);
    let repeated = multimap(es).iter().any(|x| x.1.len() > 1);
    let reserved = es.iter().any(|e| e.is_reserved());
    (bin_mod3, repeated, reserved)
}
