//! In-memory duplex byte pipe whose read sizes and spurious `Pending`s are part of the generated case.
use std::collections::VecDeque;
use std::io;
use std::pin::Pin;
use std::sync::{Arc, Mutex};
use std::task::{Context, Poll, Waker};
use tokio::io::{AsyncRead, AsyncWrite, ReadBuf};

#[derive(Default)]
pub struct Dir {
    buf: VecDeque<u8>,
    /// writer side closed (shutdown or dropped): reader sees EOF after draining
    closed: bool,
    /// peer vanished: reads fail with ConnectionReset, writes with BrokenPipe
    killed: bool,
    /// reader dropped
    reader_gone: bool,
    reader_waker: Option<Waker>,
    schedule: Vec<u8>,
    pos: usize,
    /// consecutive spurious Pendings (bounded so that a schedule of zeros cannot livelock)
    consec_pending: u8,
    /// total bytes written into this direction
    pub written: u64,
    /// copy of the first bytes written (to prove "no plaintext" in C15)
    pub head: Vec<u8>,
    /// virtual time (ms since runtime start) when the writer side closed
    pub closed_at_ms: Option<u64>,
    /// number of reads that returned fewer than 9 bytes (inside an h2 frame header)
    pub small_reads: u64,
}

pub type Shared = Arc<Mutex<Dir>>;

/// One end of the pipe. Reads from `rx`, writes into `tx`.
pub struct PipeEnd {
    rx: Shared,
    tx: Shared,
}

/// Observer/controller handle for one connection.
#[derive(Clone)]
pub struct PipeHandle {
    /// bytes flowing client -> server
    pub c2s: Shared,
    /// bytes flowing server -> client
    pub s2c: Shared,
}

fn step_len(s: u8) -> usize {
    match s {
        0 => 0,
        1..=200 => s as usize,
        _ => (s as usize - 200) * 4096,
    }
}

/// schedule: one `u8` per read: 0 = spurious Pending, 1..=200 = deliver at most n bytes,
/// 201..=255 = deliver at most (n-200)*4096 bytes. Cycled. Empty = deliver everything.
pub fn pipe(c2s_schedule: Vec<u8>, s2c_schedule: Vec<u8>) -> (PipeEnd, PipeEnd, PipeHandle) {
    let c2s = Arc::new(Mutex::new(Dir { schedule: c2s_schedule, ..Default::default() }));
    let s2c = Arc::new(Mutex::new(Dir { schedule: s2c_schedule, ..Default::default() }));
    let client = PipeEnd { rx: s2c.clone(), tx: c2s.clone() };
    let server = PipeEnd { rx: c2s.clone(), tx: s2c.clone() };
    (client, server, PipeHandle { c2s, s2c })
}

impl PipeHandle {
    /// The peer vanishes: both directions fail from now on.
    pub fn kill(&self) {
        for d in [&self.c2s, &self.s2c] {
            let mut g = d.lock().unwrap();
            g.killed = true;
            if let Some(w) = g.reader_waker.take() {
                w.wake();
            }
        }
    }
    /// server side has closed its writing half (sent EOF)
    pub fn server_closed(&self) -> bool {
        self.s2c.lock().unwrap().closed
    }
    pub fn client_closed(&self) -> bool {
        self.c2s.lock().unwrap().closed
    }
}

fn now_ms() -> Option<u64> {
    // only meaningful inside a paused-clock runtime started at virtual time 0
    crate::infra::rt::virtual_ms()
}

impl AsyncRead for PipeEnd {
    fn poll_read(self: Pin<&mut Self>, cx: &mut Context<'_>, out: &mut ReadBuf<'_>) -> Poll<io::Result<()>> {
        let mut g = self.rx.lock().unwrap();
        if g.killed {
            return Poll::Ready(Err(io::Error::new(io::ErrorKind::ConnectionReset, "peer vanished")));
        }
        if g.buf.is_empty() {
            if g.closed {
                return Poll::Ready(Ok(()));
            }
            g.reader_waker = Some(cx.waker().clone());
            return Poll::Pending;
        }
        let max = if g.schedule.is_empty() {
            usize::MAX
        } else {
            let s = g.schedule[g.pos % g.schedule.len()];
            g.pos += 1;
            if s == 0 && g.consec_pending < 3 {
                g.consec_pending += 1;
                cx.waker().wake_by_ref();
                return Poll::Pending;
            }
            g.consec_pending = 0;
            step_len(s).max(1)
        };
        let n = max.min(g.buf.len()).min(out.remaining());
        if n < 9 {
            g.small_reads += 1;
        }
        for _ in 0..n {
            let b = g.buf.pop_front().unwrap();
            out.put_slice(&[b]);
        }
        Poll::Ready(Ok(()))
    }
}

impl AsyncWrite for PipeEnd {
    fn poll_write(self: Pin<&mut Self>, _cx: &mut Context<'_>, data: &[u8]) -> Poll<io::Result<usize>> {
        let mut g = self.tx.lock().unwrap();
        if g.killed {
            return Poll::Ready(Err(io::Error::new(io::ErrorKind::BrokenPipe, "peer gone")));
        }
        if g.reader_gone {
            // the peer has closed its end in an orderly way: like a TCP socket, the pipe still takes the bytes (they
            // go nowhere); the writer learns about the close when it reads (EOF) - after whatever the peer had sent
            g.written += data.len() as u64;
            return Poll::Ready(Ok(data.len()));
        }
        if g.closed {
            return Poll::Ready(Err(io::Error::new(io::ErrorKind::BrokenPipe, "write after shutdown")));
        }
        // some directions take only part of what is offered (a short write, as any socket may): the cap follows from
        // the direction's schedule so that a case always behaves the same
        let cap = match g.schedule.first() {
            Some(b) if *b % 4 == 3 => 1 + (*b as usize) * 8,
            _ => usize::MAX,
        };
        let data = &data[..data.len().min(cap)];
        g.buf.extend(data.iter().copied());
        g.written += data.len() as u64;
        if g.head.len() < 256 {
            let k = (256 - g.head.len()).min(data.len());
            g.head.extend_from_slice(&data[..k]);
        }
        if let Some(w) = g.reader_waker.take() {
            w.wake();
        }
        Poll::Ready(Ok(data.len()))
    }
    fn poll_flush(self: Pin<&mut Self>, _cx: &mut Context<'_>) -> Poll<io::Result<()>> {
        Poll::Ready(Ok(()))
    }
    fn poll_shutdown(self: Pin<&mut Self>, _cx: &mut Context<'_>) -> Poll<io::Result<()>> {
        let mut g = self.tx.lock().unwrap();
        if !g.closed {
            g.closed = true;
            g.closed_at_ms = now_ms();
        }
        if let Some(w) = g.reader_waker.take() {
            w.wake();
        }
        Poll::Ready(Ok(()))
    }
}

impl Drop for PipeEnd {
    fn drop(&mut self) {
        {
            let mut g = self.tx.lock().unwrap();
            if !g.closed {
                g.closed = true;
                g.closed_at_ms = now_ms();
            }
            if let Some(w) = g.reader_waker.take() {
                w.wake();
            }
        }
        let mut r = self.rx.lock().unwrap();
        r.reader_gone = true;
    }
}

impl tonic::transport::server::Connected for PipeEnd {
    type ConnectInfo = tonic::transport::server::TcpConnectInfo;
    fn connect_info(&self) -> Self::ConnectInfo {
        tonic::transport::server::TcpConnectInfo { local_addr: None, remote_addr: None }
    }
}
