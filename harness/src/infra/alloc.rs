//! Counting global allocator: thread-local window recording the largest single (re)allocation request.
use std::alloc::{GlobalAlloc, Layout, System};
use std::cell::Cell;

pub struct Counting;

thread_local! {
    static ARMED: Cell<bool> = const { Cell::new(false) };
    static MAX_REQ: Cell<usize> = const { Cell::new(0) };
}

#[inline]
fn note(size: usize) {
    let _ = ARMED.try_with(|a| {
        if a.get() {
            let _ = MAX_REQ.try_with(|m| {
                if size > m.get() {
                    m.set(size)
                }
            });
        }
    });
}

unsafe impl GlobalAlloc for Counting {
    unsafe fn alloc(&self, l: Layout) -> *mut u8 {
        note(l.size());
        System.alloc(l)
    }
    unsafe fn dealloc(&self, p: *mut u8, l: Layout) {
        System.dealloc(p, l)
    }
    unsafe fn alloc_zeroed(&self, l: Layout) -> *mut u8 {
        note(l.size());
        System.alloc_zeroed(l)
    }
    unsafe fn realloc(&self, p: *mut u8, l: Layout, new: usize) -> *mut u8 {
        note(new);
        System.realloc(p, l, new)
    }
}

/// Arms the window on this thread; returns the previous maximum.
pub fn arm() {
    MAX_REQ.with(|m| m.set(0));
    ARMED.with(|a| a.set(true));
}
/// Disarms and returns the largest single request seen on this thread since `arm()`.
pub fn disarm() -> usize {
    ARMED.with(|a| a.set(false));
    MAX_REQ.with(|m| m.get())
}
