//! Thorough tier: fixed-work libFuzzer campaign (cargo-fuzz) with the semantic oracle inside the target.
use super::runner::*;
use std::process::Command;

pub fn maybe_fuzz<P: Prop>(tier: Tier, seed: u64, r: &mut RunResult) {
    let Some(spec) = P::fuzz(tier) else { return };
    if std::env::var("VERIF_NO_FUZZ").is_ok() {
        return;
    }
    let root = verif_root();
    let fuzz_dir = format!("{root}/harness");
    let t0 = std::time::Instant::now();
    let corpus = format!("{root}/target/fuzz-corpus/{}-{}", spec.target, std::process::id());
    let artifacts = format!("{root}/target/fuzz-artifacts/{}-{}/", spec.target, std::process::id());
    let _ = std::fs::remove_dir_all(&corpus);
    let _ = std::fs::create_dir_all(&corpus);
    let _ = std::fs::create_dir_all(&artifacts);
    let seeds = format!("{fuzz_dir}/fuzz/seeds/{}", spec.target);
    let jobs = 8u64;
    let runs = std::env::var("VERIF_FUZZ_RUNS").ok().and_then(|s| s.parse::<u64>().ok()).unwrap_or(spec.runs);
    let per = runs / jobs;
    // build once
    let b = Command::new("cargo")
        .args(["+nightly", "fuzz", "build", spec.target])
        .current_dir(&fuzz_dir)
        .env("CARGO_NET_OFFLINE", "true")
        .env("RUSTFLAGS", "--cfg tokio_unstable")
        .output();
    match b {
        Ok(o) if o.status.success() => {}
        Ok(o) => {
            r.inconclusive = Some(format!("fuzz build failed: {}", String::from_utf8_lossy(&o.stderr).lines().rev().take(5).collect::<Vec<_>>().join(" | ")));
            return;
        }
        Err(e) => {
            r.inconclusive = Some(format!("cannot run cargo fuzz: {e}"));
            return;
        }
    }
    let mut children = vec![];
    for j in 0..jobs {
        let mut cmd = Command::new("cargo");
        cmd.args(["+nightly", "fuzz", "run", spec.target, &corpus]);
        if std::path::Path::new(&seeds).is_dir() {
            cmd.arg(&seeds);
        }
        cmd.arg("--");
        cmd.arg(format!("-runs={per}"));
        cmd.arg(format!("-seed={}", seed.wrapping_mul(31).wrapping_add(j + 1) % 4_000_000_000 + 1));
        cmd.arg(format!("-max_len={}", spec.max_len));
        cmd.arg("-len_control=0");
        cmd.arg("-print_final_stats=1");
        cmd.arg("-rss_limit_mb=4096");
        cmd.arg(format!("-artifact_prefix={artifacts}"));
        cmd.current_dir(&fuzz_dir).env("CARGO_NET_OFFLINE", "true").env("RUSTFLAGS", "--cfg tokio_unstable").env("VERIF_ROOT", &root);
        // stderr goes to a file: with pipes the children block on a full pipe while an earlier one is awaited
        let logp = format!("{artifacts}job{j}.log");
        let Ok(logf) = std::fs::File::create(&logp) else {
            r.inconclusive = Some(format!("cannot create {logp}"));
            return;
        };
        cmd.stdout(std::process::Stdio::null()).stderr(logf);
        match cmd.spawn() {
            Ok(c) => children.push((c, logp)),
            Err(e) => {
                r.inconclusive = Some(format!("cannot spawn fuzzer: {e}"));
                return;
            }
        }
    }
    let mut executed = 0u64;
    let mut crashed = false;
    let mut other_fail: Option<String> = None;
    for (mut c, logp) in children {
        let status = c.wait().expect("fuzzer wait");
        let err = std::fs::read_to_string(&logp).unwrap_or_default();
        for line in err.lines() {
            if let Some(v) = line.strip_prefix("stat::number_of_executed_units:") {
                executed += v.trim().parse::<u64>().unwrap_or(0);
            }
        }
        if !status.success() {
            if err.contains("FUZZ-VIOLATION") || err.contains("panicked") || err.contains("ERROR: AddressSanitizer") || err.contains("deadly signal") {
                crashed = true;
            } else {
                other_fail = Some(err.lines().rev().take(6).collect::<Vec<_>>().join(" | "));
            }
        }
    }
    let corpus_units = std::fs::read_dir(&corpus).map(|d| d.count()).unwrap_or(0);
    let mut fuzz_ev = serde_json::json!({
        "target": spec.target, "engine": "libFuzzer (cargo-fuzz, ASan, debug assertions)",
        "requested_runs": runs, "executed_units": executed, "jobs": jobs,
        "corpus_units_at_end": corpus_units, "wall_s": t0.elapsed().as_secs_f64(),
    });
    if crashed {
        // replay artifacts in-process to obtain the signature
        if let Ok(rd) = std::fs::read_dir(&artifacts) {
            let mut files: Vec<_> = rd.filter_map(|e| e.ok()).map(|e| e.path()).filter(|p| p.extension().map(|x| x != "log").unwrap_or(true)).collect();
            files.sort();
            let known = load_known(P::ID);
            for f in files {
                let Ok(bytes) = std::fs::read(&f) else { continue };
                let Some(case) = P::from_bytes(&bytes) else { continue };
                let o = run_case::<P>(&case);
                if let Some(fl) = o.fail {
                    if known.iter().any(|k| k.signature == fl.sig) {
                        continue;
                    }
                    r.found = Some(Found { case_json: serde_json::to_string_pretty(&case).unwrap(), failure: fl, bytes: None });
                    break;
                }
            }
        }
        if r.found.is_none() {
            fuzz_ev["note"] = serde_json::json!("fuzzer process crashed but no artifact reproduces in-process (sanitizer-only or flaky); see artifacts dir");
            r.inconclusive = Some(format!("fuzzer crashed without an in-process reproducible artifact; artifacts in {artifacts}"));
        }
    } else if let Some(e) = other_fail {
        r.inconclusive = Some(format!("fuzzer exited abnormally: {e}"));
    }
    r.stats.evaluations += executed;
    r.fuzz = Some(fuzz_ev);
    r.wall_s += t0.elapsed().as_secs_f64();
    let _ = std::fs::remove_dir_all(&corpus);
    if r.found.is_none() && r.inconclusive.is_none() {
        let _ = std::fs::remove_dir_all(&artifacts);
    }
}
