//! Deterministic runtime: current_thread, paused virtual clock, seeded scheduler randomness.
use std::cell::Cell;
use std::future::Future;
use std::time::Duration;

thread_local! {
    static START: Cell<Option<tokio::time::Instant>> = const { Cell::new(None) };
}

/// Milliseconds of virtual time since `run_virtual` started on this thread.
pub fn virtual_ms() -> Option<u64> {
    START.with(|s| s.get()).map(|t0| tokio::time::Instant::now().duration_since(t0).as_millis() as u64)
}

#[derive(Debug)]
pub struct NeverResolves;

/// Runs `fut` to completion on a fresh single-threaded runtime with a paused clock. With a paused
/// clock an idle runtime jumps to the next timer; if only the watchdog is left, nothing else can
/// ever happen, so `Err(NeverResolves)` is a deterministic "hangs" verdict (no wall clock involved).
pub fn run_virtual<F: Future>(seed: u64, watchdog: Duration, fut: F) -> Result<F::Output, NeverResolves> {
    let mut sb = [0u8; 32];
    sb[..8].copy_from_slice(&seed.to_le_bytes());
    let rt = tokio::runtime::Builder::new_current_thread()
        .enable_time()
        .start_paused(true)
        .rng_seed(tokio::runtime::RngSeed::from_bytes(&sb))
        .build()
        .expect("runtime");
    let r = rt.block_on(async {
        START.with(|s| s.set(Some(tokio::time::Instant::now())));
        tokio::select! {
            biased;
            v = fut => Ok(v),
            _ = tokio::time::sleep(watchdog) => Err(NeverResolves),
        }
    });
    START.with(|s| s.set(None));
    drop(rt);
    r
}

/// Completes once every task is idle (paused clock only advances when nothing is runnable).
pub async fn quiesce() {
    tokio::time::sleep(Duration::from_millis(1)).await;
}
