//! C05 – compression is used only as negotiated and configured.
//!
//! Server half: generated `vt.Raw` server (and `tonic::server::Grpc` directly) configured with every
//! ordered subset of {gzip,deflate,zstd} for sending and for accepting, called in-process with requests
//! whose `grpc-accept-encoding` / `grpc-encoding` / compressed-flag come from a grammar.
//! Client half: generated `vt.Raw` client over the mock transport.
//! The oracle is a negotiation model written here from the gRPC compression document; it shares no
//! code with tonic (header tokenising, set comparison, magic numbers and decompression are the
//! harness's own, `infra::wire`).
use crate::infra::blob::Blob;
use crate::infra::codec_drv::ok_trailers;
use crate::infra::driver::block_on_budget;
use crate::infra::handler::{HandlerScript, RespMsg, Shared};
use crate::infra::mock::{self, MockChannel, Reply, ServerAnswer};
use crate::infra::runner::*;
use crate::infra::script::{BodyStep, ScriptBody};
use crate::infra::wire::{self, Enc, ALL_ENC};
use crate::svc::{vt, RawCodec};
use crate::{bail, ensure};
use bytes::Bytes;
use proptest::prelude::*;
use serde::{Deserialize, Serialize};
use std::collections::BTreeSet;
use tonic::Code;

// ------------------------------------------------------------------ case

#[derive(Clone, Copy, Debug, Serialize, Deserialize, PartialEq, Eq)]
pub enum Shape {
    Unary,
    ServerStream,
    ClientStream,
    Bidi,
}
impl Shape {
    fn path(self) -> &'static str {
        match self {
            Shape::Unary => "/vt.Raw/Unary",
            Shape::ServerStream => "/vt.Raw/ServerStream",
            Shape::ClientStream => "/vt.Raw/ClientStream",
            Shape::Bidi => "/vt.Raw/Bidi",
        }
    }
    fn streaming_request(self) -> bool {
        matches!(self, Shape::ClientStream | Shape::Bidi)
    }
    fn streaming_response(self) -> bool {
        matches!(self, Shape::ServerStream | Shape::Bidi)
    }
}

/// one token of a `grpc-accept-encoding` list
#[derive(Clone, Copy, Debug, Serialize, Deserialize, PartialEq, Eq)]
pub enum Tok {
    Gzip,
    Deflate,
    Zstd,
    Identity,
    Br,
    Snappy,
    /// `GZIP`
    GzipUpper,
    /// `gzip;q=1`
    GzipQ,
    /// the empty token
    Empty,
    /// a token containing bytes >= 0x80 (selector into `HI_TOKENS`)
    Hi(u8),
    /// an unknown token with whitespace *inside* it (selector into `WS_TOKENS`): offers nothing
    InnerWs(u8),
}
const WS_TOKENS: [&[u8]; 7] = [b"x gzip", b"gzip deflate", b"gzip\tq=0", b"not gzip", b"zstd x", b"de flate", b"gzip zstd deflate"];
const HI_TOKENS: [&[u8]; 5] = [b"\xff", b"gz\xc3\xafp", b"\xc3\xa9", b"gzip\xc2\xa0", b"\x80zstd"];
/// optional whitespace (SP / HTAB) variants
const OWS: [&[u8]; 5] = [b"", b" ", b"\t", b"  ", b" \t"];

impl Tok {
    fn bytes(self) -> &'static [u8] {
        match self {
            Tok::Gzip => b"gzip",
            Tok::Deflate => b"deflate",
            Tok::Zstd => b"zstd",
            Tok::Identity => b"identity",
            Tok::Br => b"br",
            Tok::Snappy => b"snappy",
            Tok::GzipUpper => b"GZIP",
            Tok::GzipQ => b"gzip;q=1",
            Tok::Empty => b"",
            Tok::Hi(k) => HI_TOKENS[k as usize % HI_TOKENS.len()],
            Tok::InnerWs(k) => WS_TOKENS[k as usize % WS_TOKENS.len()],
        }
    }
}

/// token with optional whitespace before / after it (selectors into `OWS`)
#[derive(Clone, Copy, Debug, Serialize, Deserialize, PartialEq, Eq)]
pub struct TokSp {
    pub t: Tok,
    pub l: u8,
    pub r: u8,
}

#[derive(Clone, Debug, Serialize, Deserialize, PartialEq, Eq)]
pub enum AcceptHdr {
    Absent,
    /// one header line per inner list (normally one); tokens joined by `,`
    Lines(Vec<Vec<TokSp>>),
    /// opaque bytes (made header-legal: control bytes get the high bit)
    Opaque(Blob),
}

impl AcceptHdr {
    /// header lines as they are put on the request
    fn lines(&self) -> Vec<Vec<u8>> {
        match self {
            AcceptHdr::Absent => vec![],
            AcceptHdr::Lines(ls) => ls
                .iter()
                .map(|l| {
                    let mut v = vec![];
                    for (i, t) in l.iter().enumerate() {
                        if i > 0 {
                            v.push(b',');
                        }
                        v.extend_from_slice(OWS[t.l as usize % OWS.len()]);
                        v.extend_from_slice(t.t.bytes());
                        v.extend_from_slice(OWS[t.r as usize % OWS.len()]);
                    }
                    v
                })
                .collect(),
            AcceptHdr::Opaque(b) => {
                vec![b.bytes().into_iter().map(|c| if (c < 0x20 && c != b'\t') || c == 0x7f { c | 0x80 } else { c }).collect()]
            }
        }
    }
}

/// value of a `grpc-encoding` header
#[derive(Clone, Copy, Debug, Serialize, Deserialize, PartialEq, Eq)]
pub enum EncHdr {
    Absent,
    Identity,
    Known(Enc),
    Br,
    GzipUpper,
    NonUtf8,
    Empty,
}
impl EncHdr {
    fn value(self) -> Option<&'static [u8]> {
        match self {
            EncHdr::Absent => None,
            EncHdr::Identity => Some(b"identity"),
            EncHdr::Known(e) => Some(e.name().as_bytes()),
            EncHdr::Br => Some(b"br"),
            EncHdr::GzipUpper => Some(b"GZIP"),
            EncHdr::NonUtf8 => Some(b"\xff\xfegzip"),
            EncHdr::Empty => Some(b""),
        }
    }
}

#[derive(Clone, Copy, Debug, Serialize, Deserialize, PartialEq, Eq)]
pub enum Pay {
    /// the message itself
    Plain,
    /// really compressed with the encoding the `grpc-encoding` header of this direction names
    /// (plain when that header names no known encoding)
    AsHeader,
    /// really compressed with this encoding, whatever the header says
    Comp(Enc),
    /// bytes that are no valid stream of any encoding
    Garbage,
}

/// one length-prefixed message put on the wire by the harness
#[derive(Clone, Debug, Serialize, Deserialize, PartialEq, Eq)]
pub struct Frame {
    pub flag: u8,
    pub pay: Pay,
    pub msg: Blob,
}
impl Frame {
    fn payload(&self, hdr: EncHdr) -> Vec<u8> {
        let m = self.msg.bytes();
        match self.pay {
            Pay::Plain => m,
            Pay::AsHeader => match hdr {
                EncHdr::Known(e) => wire::compress(e, &m),
                _ => m,
            },
            Pay::Comp(e) => wire::compress(e, &m),
            Pay::Garbage => {
                let mut v = vec![0x00, 0x13, 0x37];
                v.extend_from_slice(&m);
                v
            }
        }
    }
    fn flag(&self) -> u8 {
        self.flag & 1
    }
}

#[derive(Clone, Copy, Debug, Serialize, Deserialize, PartialEq, Eq)]
pub enum Path {
    /// generated `RawServer` builder methods
    Generated,
    /// `tonic::server::Grpc::new(codec).accept_compressed(..).send_compressed(..)`
    GrpcDirect,
    /// `tonic::server::Grpc::new(codec).apply_compression_config(accept, send)`
    GrpcApply,
}

#[derive(Clone, Debug, Serialize, Deserialize)]
pub struct ServerCase {
    /// encodings enabled for sending, in the order the builder methods are called
    pub send: Vec<Enc>,
    /// encodings enabled for accepting, in call order
    pub accept: Vec<Enc>,
    pub path: Path,
    pub shape: Shape,
    pub accept_hdr: AcceptHdr,
    pub req_enc: EncHdr,
    /// request messages (unary request shapes use the first one)
    pub req: Vec<Frame>,
    pub disable_compression: bool,
    /// handler's response messages (unary response shapes use the first one)
    pub resp: Vec<Blob>,
}

#[derive(Clone, Debug, Serialize, Deserialize)]
pub struct ClientCase {
    pub send: Option<Enc>,
    pub accept: Vec<Enc>,
    pub shape: Shape,
    pub req: Vec<Blob>,
    pub resp_enc: EncHdr,
    pub resp: Vec<Frame>,
    /// answer with a body-less Trailers-Only response (grpc-status 0 in the headers); forces `resp` empty
    #[serde(default)]
    pub trailers_only: bool,
    /// the client first makes a call *without* any compression configuration; the configuration under test is
    /// applied afterwards (to a clone when the flag's second bit is set) and only the second call is judged
    #[serde(default)]
    pub warm_up: u8,
}

#[derive(Clone, Debug, Serialize, Deserialize)]
pub enum Case {
    Server(ServerCase),
    Client(ClientCase),
    /// thorough tier only: /verif/featcheck compiled with exactly this one compression feature of tonic and run
    /// as a fixed-seed proptest campaign of its own (client::Grpc <-> server::Grpc in-process)
    Feature(FeatureBuild),
}

#[derive(Clone, Debug, Serialize, Deserialize)]
pub struct FeatureBuild {
    pub feature: String,
    pub cases: u32,
    pub seed: u64,
    /// Some: replay this one case of the campaign instead (the shrunk failure featcheck saved)
    #[serde(default)]
    pub case: Option<serde_json::Value>,
}

static FEATURE_RUNS: std::sync::Mutex<Vec<String>> = std::sync::Mutex::new(Vec::new());

fn run_feature(f: &FeatureBuild, o: &mut Outcome) -> Result<(), Failure> {
    use std::process::Command;
    let root = verif_root();
    ensure!(["gzip", "deflate", "zstd"].contains(&f.feature.as_str()), "C05/harness", "unknown feature {:?}", f.feature);
    let target = format!("{root}/target/featcheck-{}", f.feature);
    let b = Command::new("cargo")
        .args(["build", "--release", "--offline", "--no-default-features", "--features", &f.feature, "--target-dir", &target])
        .current_dir(format!("{root}/featcheck"))
        .env_remove("CARGO_TARGET_DIR")
        .env_remove("RUSTFLAGS")
        .env("CARGO_NET_OFFLINE", "true")
        .output();
    match b {
        Ok(out) if out.status.success() => {}
        other => {
            let why = match other {
                Ok(out) => String::from_utf8_lossy(&out.stderr).lines().filter(|l| l.starts_with("error")).take(3).collect::<Vec<_>>().join(" | "),
                Err(e) => e.to_string(),
            };
            // tonic may legitimately stop compiling with a single feature only if the tree is broken in a way the
            // registered build would show too; nothing can be said about the property here
            println!("INCONCLUSIVE property=C05 featcheck does not build with only the {} feature: {why}", f.feature);
            std::process::exit(2);
        }
    }
    let bin = format!("{target}/release/featcheck");
    let out = if let Some(case) = &f.case {
        let path = std::env::temp_dir().join(format!("vh-c05-feature-{}-{}.json", std::process::id(), f.feature));
        std::fs::write(&path, serde_json::to_string(case).unwrap()).map_err(|e| Failure { sig: "C05/harness-io".into(), detail: e.to_string() })?;
        let r = Command::new(&bin).args(["replay", path.to_str().unwrap()]).output();
        let _ = std::fs::remove_file(&path);
        r
    } else {
        Command::new(&bin).args(["run", &f.cases.to_string(), &f.seed.to_string(), &format!("{root}/replays/C05")]).output()
    };
    let out = out.map_err(|e| Failure { sig: "C05/harness-io".into(), detail: format!("{bin}: {e}") })?;
    let text = String::from_utf8_lossy(&out.stdout).to_string();
    o.label(match f.feature.as_str() {
        "gzip" => "build_with_only_gzip",
        "deflate" => "build_with_only_deflate",
        _ => "build_with_only_zstd",
    });
    o.nontrivial = true;
    if let Some(l) = text.lines().find(|l| l.starts_with("FEATCHECK")) {
        FEATURE_RUNS.lock().unwrap().push(l.to_string());
        return Ok(());
    }
    let sig = text.lines().find_map(|l| l.strip_prefix("signature: ")).unwrap_or("C05/single-feature/featcheck-died").to_string();
    let detail = text.lines().find_map(|l| l.strip_prefix("detail: ")).unwrap_or("").to_string();
    let saved = text.lines().find_map(|l| l.split("replay=").nth(1)).unwrap_or("-");
    Err(Failure { sig, detail: format!("tonic built with only the {} feature: {detail} [shrunk case: {saved}; exit {:?}; stderr: {}]", f.feature, out.status.code(), String::from_utf8_lossy(&out.stderr).lines().rev().take(3).collect::<Vec<_>>().join(" | ")) })
}

// ------------------------------------------------------------------ generator

/// the 16 ordered subsets of {gzip, deflate, zstd}
pub fn ordered_subsets() -> Vec<Vec<Enc>> {
    let mut v = vec![vec![]];
    for a in ALL_ENC {
        v.push(vec![a]);
    }
    for a in ALL_ENC {
        for b in ALL_ENC {
            if a != b {
                v.push(vec![a, b]);
            }
        }
    }
    for a in ALL_ENC {
        for b in ALL_ENC {
            for c in ALL_ENC {
                if a != b && a != c && b != c {
                    v.push(vec![a, b, c]);
                }
            }
        }
    }
    v
}

fn subset() -> impl Strategy<Value = Vec<Enc>> {
    // an ordered subset; sometimes an encoding is enabled again later in the sequence (enabling is
    // idempotent: the set, not the call sequence, is what is configured)
    (0usize..16, prop_oneof![4 => Just(0u8), 1 => 1u8..=3], any::<u16>()).prop_map(|(i, again, sel)| {
        let mut v = ordered_subsets()[i].clone();
        for k in 0..again {
            if v.is_empty() {
                break;
            }
            let e = v[crate::infra::gen::pick(sel.wrapping_mul(k as u16 + 1), v.len())];
            // re-enable an early one first, then the rest of the subset once more
            v.insert(0, e);
        }
        v
    })
}
fn enc() -> impl Strategy<Value = Enc> {
    prop_oneof![Just(Enc::Gzip), Just(Enc::Deflate), Just(Enc::Zstd)]
}
fn tok() -> impl Strategy<Value = Tok> {
    prop_oneof![
        4 => Just(Tok::Gzip),
        4 => Just(Tok::Deflate),
        4 => Just(Tok::Zstd),
        2 => Just(Tok::Identity),
        2 => Just(Tok::Br),
        1 => Just(Tok::Snappy),
        1 => Just(Tok::GzipUpper),
        1 => Just(Tok::GzipQ),
        1 => Just(Tok::Empty),
        1 => (0u8..HI_TOKENS.len() as u8).prop_map(Tok::Hi),
        2 => (0u8..WS_TOKENS.len() as u8).prop_map(Tok::InnerWs),
    ]
}
fn ows() -> impl Strategy<Value = u8> {
    prop_oneof![6 => Just(0u8), 2 => Just(1u8), 1 => 2u8..OWS.len() as u8]
}
fn toksp() -> impl Strategy<Value = TokSp> {
    (tok(), ows(), ows()).prop_map(|(t, l, r)| TokSp { t, l, r })
}
fn accept_hdr() -> impl Strategy<Value = AcceptHdr> {
    prop_oneof![
        1 => Just(AcceptHdr::Absent),
        9 => proptest::collection::vec(toksp(), 1..=5).prop_map(|l| AcceptHdr::Lines(vec![l])),
        1 => (proptest::collection::vec(toksp(), 0..=3), proptest::collection::vec(toksp(), 0..=3)).prop_map(|(a, b)| AcceptHdr::Lines(vec![a, b])),
        1 => crate::infra::blob::small_bytes(12).prop_map(AcceptHdr::Opaque),
    ]
}
fn enc_hdr() -> impl Strategy<Value = EncHdr> {
    prop_oneof![
        5 => Just(EncHdr::Absent),
        1 => Just(EncHdr::Identity),
        6 => enc().prop_map(EncHdr::Known),
        1 => Just(EncHdr::Br),
        1 => Just(EncHdr::GzipUpper),
        1 => Just(EncHdr::NonUtf8),
        1 => Just(EncHdr::Empty),
    ]
}
fn msg() -> impl Strategy<Value = Blob> {
    prop_oneof![
        4 => crate::infra::blob::small_bytes(24),
        1 => (0u32..2000, any::<u8>()).prop_map(|(n, k)| Blob::Rep(n, k)),
        1 => (0u32..300, any::<u32>()).prop_map(|(n, s)| Blob::Rnd(n, s)),
    ]
}
fn frame() -> impl Strategy<Value = Frame> {
    (
        prop_oneof![3 => Just(0u8), 3 => Just(1u8)],
        prop_oneof![3 => Just(Pay::Plain), 5 => Just(Pay::AsHeader), 2 => enc().prop_map(Pay::Comp), 1 => Just(Pay::Garbage)],
        msg(),
    )
        .prop_map(|(flag, pay, msg)| Frame { flag, pay, msg })
}
fn shape() -> impl Strategy<Value = Shape> {
    prop_oneof![3 => Just(Shape::Unary), 3 => Just(Shape::ServerStream), 1 => Just(Shape::ClientStream), 2 => Just(Shape::Bidi)]
}

pub fn strategy() -> BoxedStrategy<Case> {
    let server = (
        subset(),
        subset(),
        prop_oneof![4 => Just(Path::Generated), 1 => Just(Path::GrpcDirect), 1 => Just(Path::GrpcApply)],
        shape(),
        accept_hdr(),
        enc_hdr(),
        proptest::collection::vec(frame(), 1..=3),
        proptest::bool::weighted(0.2),
        proptest::collection::vec(msg(), 0..=3),
    )
        .prop_map(|(send, accept, path, shape, accept_hdr, req_enc, req, disable_compression, resp)| {
            Case::Server(ServerCase { send, accept, path, shape, accept_hdr, req_enc, req, disable_compression, resp })
        });
    let client = (
        prop_oneof![2 => Just(None), 3 => enc().prop_map(Some)],
        subset(),
        shape(),
        proptest::collection::vec(msg(), 0..=3),
        enc_hdr(),
        proptest::collection::vec(frame(), 0..=3),
        proptest::bool::weighted(0.15),
        prop_oneof![3 => Just(0u8), 1 => Just(1u8), 1 => Just(3u8)],
    )
        .prop_map(|(send, accept, shape, req, resp_enc, resp, trailers_only, warm_up)| {
            let resp = if trailers_only { vec![] } else { resp };
            Case::Client(ClientCase { send, accept, shape, req, resp_enc, resp, trailers_only, warm_up })
        });
    prop_oneof![3 => server, 2 => client].boxed()
}

// ------------------------------------------------------------------ the model

fn trim_ows(mut b: &[u8]) -> &[u8] {
    while let [first, rest @ ..] = b {
        if *first == b' ' || *first == b'\t' {
            b = rest;
        } else {
            break;
        }
    }
    while let [rest @ .., last] = b {
        if *last == b' ' || *last == b'\t' {
            b = rest;
        } else {
            break;
        }
    }
    b
}

/// tokens of a comma-separated list header (all lines), trimmed of optional whitespace
fn list_tokens<'a>(lines: impl Iterator<Item = &'a [u8]>) -> Vec<Vec<u8>> {
    let mut out = vec![];
    for l in lines {
        for t in l.split(|c| *c == b',') {
            out.push(trim_ows(t).to_vec());
        }
    }
    out
}

fn enc_of_token(t: &[u8]) -> Option<Enc> {
    match t {
        b"gzip" => Some(Enc::Gzip),
        b"deflate" => Some(Enc::Deflate),
        b"zstd" => Some(Enc::Zstd),
        _ => None,
    }
}

fn set_of(v: &[Enc]) -> BTreeSet<Enc> {
    v.iter().copied().collect()
}

fn names(s: &BTreeSet<Enc>) -> String {
    format!("{{{}}}", s.iter().map(|e| e.name()).collect::<Vec<_>>().join(","))
}

/// What the receiving side must make of one frame, given the negotiated encoding of the direction.
#[derive(Debug, Clone, PartialEq)]
enum Expect {
    Msg(Vec<u8>),
    /// compressed-flag set although nothing was negotiated: INTERNAL
    FlagWithoutEncoding,
    /// flagged payload that is no valid stream of the negotiated encoding (independent judge): must not
    /// be delivered as a message
    Undecodable,
}

fn expect_frame(f: &Frame, hdr: EncHdr, negotiated: Option<Enc>) -> Expect {
    let p = f.payload(hdr);
    if f.flag() == 0 {
        return Expect::Msg(p);
    }
    match negotiated {
        None => Expect::FlagWithoutEncoding,
        Some(e) => match strict_decompress(e, &p) {
            Ok(m) => Expect::Msg(m),
            Err(_) => Expect::Undecodable,
        },
    }
}

/// `wire::decompress`, except that a zlib stream must also be complete (flate2's write-side zlib
/// decoder used there finishes silently on a truncated stream, so a plain message that happens to
/// start with a valid 2-byte zlib header would be judged "decodable").
fn strict_decompress(e: Enc, z: &[u8]) -> Result<Vec<u8>, String> {
    let out = wire::decompress(e, z)?;
    if e == Enc::Deflate {
        let mut d = flate2::Decompress::new(true);
        let mut buf: Vec<u8> = Vec::with_capacity(out.len() + 64);
        loop {
            let (tin, tout) = (d.total_in(), d.total_out());
            let st = d.decompress_vec(&z[tin as usize..], &mut buf, flate2::FlushDecompress::Finish).map_err(|e| e.to_string())?;
            if st == flate2::Status::StreamEnd {
                if d.total_in() as usize != z.len() {
                    return Err("bytes after the end of the zlib stream".into());
                }
                if buf != out {
                    return Err("zlib decoders disagree".into());
                }
                return Ok(out);
            }
            if buf.len() == buf.capacity() {
                buf.reserve(4096);
            } else if d.total_in() == tin && d.total_out() == tout {
                return Err("incomplete zlib stream".into());
            }
        }
    }
    Ok(out)
}

/// `grpc-encoding` of the receiving direction against the receiver's accept set
enum Recv {
    /// header names something that is neither identity nor enabled: UNIMPLEMENTED
    Refused,
    Negotiated(Option<Enc>),
}
fn receive(hdr: EncHdr, accept: &BTreeSet<Enc>) -> Recv {
    match hdr {
        EncHdr::Absent | EncHdr::Identity => Recv::Negotiated(None),
        EncHdr::Known(e) if accept.contains(&e) => Recv::Negotiated(Some(e)),
        _ => Recv::Refused,
    }
}

/// A `grpc-accept-encoding` produced by tonic, read as a set (identity ignored).
fn advertised_set(h: &http::HeaderMap) -> Option<Result<BTreeSet<Enc>, String>> {
    let mut it = h.get_all("grpc-accept-encoding").iter().peekable();
    it.peek()?;
    let toks = list_tokens(it.map(|v| v.as_bytes()));
    let mut s = BTreeSet::new();
    for t in toks {
        if t == b"identity" {
            continue;
        }
        match enc_of_token(&t) {
            Some(e) => {
                s.insert(e);
            }
            None => return Some(Err(format!("token {:?}", String::from_utf8_lossy(&t)))),
        }
    }
    Some(Ok(s))
}

/// Checks the frames of a body tonic produced against the messages they must carry.
/// `announced`: the `grpc-encoding` the same party put in its headers.
fn check_produced_frames(body: &[u8], msgs: &[Vec<u8>], announced: Option<Enc>, side: &str) -> Result<Vec<u8>, Failure> {
    let (frames, end) = wire::parse_frames(body);
    ensure!(end == wire::ParseEnd::Clean, format!("C05/{side}-body-not-framed"), "{side} body is not a whole number of frames: {end:?}");
    ensure!(frames.len() == msgs.len(), format!("C05/{side}-frame-count"), "{side} sent {} frames for {} messages", frames.len(), msgs.len());
    let mut flags = vec![];
    for (i, (f, m)) in frames.iter().zip(msgs).enumerate() {
        flags.push(f.flag);
        match f.flag {
            0 => ensure!(f.payload == *m, format!("C05/{side}-flag0-frame-not-plain"), "{side} frame {i} has flag 0 but its payload is not the message ({} vs {} bytes)", f.payload.len(), m.len()),
            1 => {
                let Some(e) = announced else {
                    bail!(format!("C05/{side}-compressed-frame-without-grpc-encoding"), "{side} frame {i} has the compressed flag but no grpc-encoding was announced");
                };
                ensure!(wire::magic_ok(e, &f.payload), format!("C05/{side}-frame-not-in-announced-encoding"), "{side} frame {i}: payload does not start like a {} stream: {:02x?}", e.name(), &f.payload[..f.payload.len().min(6)]);
                match wire::decompress(e, &f.payload) {
                    Ok(d) => ensure!(d == *m, format!("C05/{side}-compressed-frame-wrong-content"), "{side} frame {i} decompresses ({}) to {} bytes, message has {}", e.name(), d.len(), m.len()),
                    Err(er) => bail!(format!("C05/{side}-frame-not-in-announced-encoding"), "{side} frame {i}: independent {} decompression failed: {er}", e.name()),
                }
            }
            x => bail!(format!("C05/{side}-bad-flag"), "{side} frame {i} has flag {x}"),
        }
    }
    Ok(flags)
}

// ------------------------------------------------------------------ server half

fn build_request(c: &ServerCase, lines: &[Vec<u8>]) -> http::Request<ScriptBody> {
    let mut hs: Vec<(&str, &[u8])> = vec![];
    for l in lines {
        hs.push(("grpc-accept-encoding", l));
    }
    if let Some(v) = c.req_enc.value() {
        hs.push(("grpc-encoding", v));
    }
    let n = if c.shape.streaming_request() { c.req.len() } else { 1 };
    let steps: Vec<BodyStep> = c.req.iter().take(n).map(|f| BodyStep::Data(Bytes::from(wire::frame(f.flag(), &f.payload(c.req_enc))))).collect();
    mock::grpc_request(c.shape.path(), &hs, ScriptBody::new(steps))
}

fn resp_msgs(c: &ServerCase) -> Vec<Vec<u8>> {
    if c.shape.streaming_response() {
        c.resp.iter().map(|b| b.bytes()).collect()
    } else {
        vec![c.resp.first().map(|b| b.bytes()).unwrap_or_default()]
    }
}

fn call_server(c: &ServerCase, lines: &[Vec<u8>]) -> Result<(ServerAnswer, Shared), Failure> {
    let script = HandlerScript {
        msgs: resp_msgs(c).into_iter().map(|m| RespMsg { data: Blob::of(&m), pend: 0, delay_ms: 0 }).collect(),
        disable_compression: c.disable_compression,
        drain_first: true,
        ..Default::default()
    };
    let sh = Shared::new(vec![script]);
    let req = build_request(c, lines);
    let budget = 512;
    let ans = match c.path {
        Path::Generated => {
            let mut svc = vt::raw_server::RawServer::new(sh.clone());
            // the generated builder lists accept_compressed before send_compressed
            for e in &c.accept {
                svc = svc.accept_compressed(e.tonic());
            }
            for e in &c.send {
                svc = svc.send_compressed(e.tonic());
            }
            mock::call_service(&mut svc, req, budget)
        }
        Path::GrpcDirect | Path::GrpcApply => {
            use tonic::codec::EnabledCompressionEncodings;
            use vt::raw_server::Raw;
            let (accept, send, apply, shape, shc) = (c.accept.clone(), c.send.clone(), c.path == Path::GrpcApply, c.shape, sh.clone());
            let mut svc = tower::service_fn(move |req: http::Request<ScriptBody>| {
                let (accept, send, sh) = (accept.clone(), send.clone(), shc.clone());
                async move {
                    let mut grpc = tonic::server::Grpc::new(RawCodec::default());
                    if apply {
                        let (mut a, mut s) = (EnabledCompressionEncodings::default(), EnabledCompressionEncodings::default());
                        accept.iter().for_each(|e| a.enable(e.tonic()));
                        send.iter().for_each(|e| s.enable(e.tonic()));
                        // widen both sets to everything and narrow them again with pop(): "remove the last
                        // encoding" must undo exactly the enables that came after the configured ones
                        for set in [(&mut a, &accept), (&mut s, &send)] {
                            let extra: Vec<Enc> = ALL_ENC.iter().copied().filter(|e| !set.1.contains(e)).collect();
                            extra.iter().for_each(|e| set.0.enable(e.tonic()));
                            for _ in 0..extra.len() {
                                let _ = set.0.pop();
                            }
                        }
                        grpc = grpc.apply_compression_config(a, s);
                    } else {
                        for e in &accept {
                            grpc = grpc.accept_compressed(e.tonic());
                        }
                        for e in &send {
                            grpc = grpc.send_compressed(e.tonic());
                        }
                    }
                    let resp = match shape {
                        Shape::Unary => {
                            let s2 = sh.clone();
                            grpc.unary(tower::service_fn(move |r: tonic::Request<Vec<u8>>| { let s = s2.clone(); async move { s.unary(r).await } }), req).await
                        }
                        Shape::ServerStream => {
                            let s2 = sh.clone();
                            grpc.server_streaming(tower::service_fn(move |r: tonic::Request<Vec<u8>>| { let s = s2.clone(); async move { s.server_stream(r).await } }), req).await
                        }
                        Shape::ClientStream => {
                            let s2 = sh.clone();
                            grpc.client_streaming(tower::service_fn(move |r: tonic::Request<tonic::Streaming<Vec<u8>>>| { let s = s2.clone(); async move { s.client_stream(r).await } }), req).await
                        }
                        Shape::Bidi => {
                            let s2 = sh.clone();
                            grpc.streaming(tower::service_fn(move |r: tonic::Request<tonic::Streaming<Vec<u8>>>| { let s = s2.clone(); async move { s.bidi(r).await } }), req).await
                        }
                    };
                    Ok::<_, std::convert::Infallible>(resp)
                }
            });
            mock::call_service(&mut svc, req, budget)
        }
    };
    let ans = ans.map_err(|e| Failure { sig: "C05/server-call".into(), detail: e })?;
    Ok((ans, sh))
}

/// the response's `grpc-encoding`: Ok(None) absent/identity, Ok(Some(e)) known, Err(raw) anything else
fn announced(h: &http::HeaderMap) -> Result<Option<Enc>, String> {
    let vals: Vec<&[u8]> = h.get_all("grpc-encoding").iter().map(|v| v.as_bytes()).collect();
    match vals.as_slice() {
        [] => Ok(None),
        [b"identity"] => Ok(None),
        [one] => enc_of_token(one).map(Some).ok_or_else(|| format!("{:?}", String::from_utf8_lossy(one))),
        many => Err(format!("{} grpc-encoding header lines", many.len())),
    }
}

fn run_server(c: &ServerCase, o: &mut Outcome) -> Result<(), Failure> {
    let send = set_of(&c.send);
    let accept = set_of(&c.accept);
    let lines = c.accept_hdr.lines();
    let toks = list_tokens(lines.iter().map(|l| l.as_slice()));
    let offered: BTreeSet<Enc> = toks.iter().filter_map(|t| enc_of_token(t)).collect();
    let has_ows = lines.iter().any(|l| l.contains(&b' ') || l.contains(&b'\t'));
    let non_ascii = lines.iter().any(|l| l.iter().any(|b| *b >= 0x80));
    let unknown_tokens = toks.iter().any(|t| enc_of_token(t).is_none() && t != b"identity");
    let recv = receive(c.req_enc, &accept);
    let negotiated = match recv {
        Recv::Negotiated(n) => n,
        Recv::Refused => None,
    };
    let refused = matches!(recv, Recv::Refused);
    let n_req = if c.shape.streaming_request() { c.req.len() } else { 1.min(c.req.len()) };
    let expects: Vec<Expect> = c.req.iter().take(n_req).map(|f| expect_frame(f, c.req_enc, negotiated)).collect();
    let flag_contradicts = !refused && c.req.iter().take(n_req).any(|f| (f.flag() == 1) != negotiated.is_some());

    o.label("server");
    o.label(match c.shape {
        Shape::Unary => "srv_unary",
        Shape::ServerStream => "srv_server_stream",
        Shape::ClientStream => "srv_client_stream",
        Shape::Bidi => "srv_bidi",
    });
    o.label(match c.path {
        Path::Generated => "srv_generated_builder",
        Path::GrpcDirect => "srv_grpc_direct",
        Path::GrpcApply => "srv_grpc_apply_config",
    });
    o.label_if(lines.is_empty(), "accept_hdr_absent");
    o.label_if(lines.len() > 1, "accept_hdr_two_lines");
    o.label_if(has_ows, "accept_hdr_ows");
    o.label_if(non_ascii, "accept_hdr_non_ascii");
    o.label_if(unknown_tokens, "accept_hdr_unknown_tokens");
    o.label_if(send != accept && send != offered && accept != offered, "sets_pairwise_different");
    o.label_if(!offered.is_empty() && !send.is_empty() && offered.is_disjoint(&send), "offered_disjoint_from_send");
    o.label_if(!offered.is_subset(&send) && !offered.is_disjoint(&send), "offered_partly_enabled");
    o.label_if(refused, "req_encoding_not_accepted");
    o.label_if(negotiated.is_some(), "req_encoding_accepted");
    o.label_if(matches!(c.req_enc, EncHdr::NonUtf8), "req_encoding_non_utf8");
    o.label_if(expects.contains(&Expect::FlagWithoutEncoding), "req_flag1_without_encoding");
    o.label_if(expects.contains(&Expect::Undecodable), "req_flag1_undecodable");
    o.label_if(negotiated.is_some() && c.req.iter().take(n_req).any(|f| f.flag() == 0), "req_flag0_under_encoding");
    o.label_if(negotiated.is_some() && c.req.iter().take(n_req).zip(&expects).any(|(f, e)| f.flag() == 1 && matches!(e, Expect::Msg(_))), "req_really_compressed");
    o.label_if(c.disable_compression, "disable_compression");
    o.nontrivial = (send != accept && send != offered && accept != offered) || has_ows || non_ascii || unknown_tokens || flag_contradicts;

    let (ans, sh) = call_server(c, &lines)?;
    let status = ans.status_obj();
    let code = status.as_ref().map(|s| s.code());
    let log = sh.log.lock().unwrap().clone();

    // ---- response grpc-encoding: only an encoding enabled for sending AND offered by the request.
    // The failure is remembered and reported last so that the rest of the case is still judged.
    let ann = announced(&ans.headers);
    let mut deferred: Option<Failure> = None;
    let ann = match ann {
        Err(raw) => bail!("C05/response-encoding-unknown", "response grpc-encoding is {raw}"),
        Ok(a) => a,
    };
    if let Some(e) = ann {
        o.label("resp_encoding_announced");
        let hdr_txt = lines.iter().map(|l| String::from_utf8_lossy(l).into_owned()).collect::<Vec<_>>();
        if !offered.contains(&e) {
            bail!("C05/response-encoding-not-offered", "response grpc-encoding {} but the request's grpc-accept-encoding {:?} does not offer it (send-set {})", e.name(), hdr_txt, names(&send));
        }
        if send.is_empty() {
            bail!("C05/response-encoding-although-nothing-enabled-for-send", "server enabled nothing for sending, request grpc-accept-encoding {:?}: response announces grpc-encoding {}", hdr_txt, e.name());
        }
        if !send.contains(&e) {
            // discriminating predicate: send-set non-empty, the announced encoding IS offered by the
            // client, but it is not in the server's send-set
            deferred = Some(Failure {
                sig: "C05/response-encoding-not-enabled-for-send".into(),
                detail: format!("server enabled {} for sending, request grpc-accept-encoding {:?}: response announces grpc-encoding {} which was never enabled for sending", names(&send), hdr_txt, e.name()),
            });
        }
    } else {
        o.label("resp_identity");
    }

    if refused {
        // ---- request encoding not enabled for receiving
        ensure!(log.is_empty(), "C05/handler-ran-for-unaccepted-request-encoding", "handler was called although grpc-encoding {:?} is not in the accept-set {}", c.req_enc, names(&accept));
        ensure!(code == Some(Code::Unimplemented), "C05/unaccepted-request-encoding-not-unimplemented", "grpc-encoding {:?}, accept-set {}: status {:?}", c.req_enc, names(&accept), code);
        ensure!(ans.frames.is_empty() && ans.trailers.is_empty() && ans.headers.contains_key("grpc-status"), "C05/unimplemented-not-trailers-only", "refusal is not a trailers-only response: {} data frames, {} trailer blocks", ans.frames.len(), ans.trailers.len());
        match advertised_set(&ans.headers) {
            None => ensure!(accept.is_empty(), "C05/refusal-without-accept-encoding", "UNIMPLEMENTED refusal carries no grpc-accept-encoding although the server accepts {}", names(&accept)),
            Some(Err(t)) => bail!("C05/refusal-accept-encoding-unknown-token", "refusal's grpc-accept-encoding has {t}"),
            Some(Ok(s)) => ensure!(s == accept, "C05/refusal-accept-encoding-not-the-accept-set", "refusal's grpc-accept-encoding lists {} but the server accepts {} (send-set {})", names(&s), names(&accept), names(&send)),
        }
        return deferred.map_or(Ok(()), Err);
    }

    // ---- request messages as the handler must see them
    let first_bad = expects.iter().position(|e| !matches!(e, Expect::Msg(_)));
    let want_msgs: Vec<Vec<u8>> = expects.iter().take(first_bad.unwrap_or(expects.len())).map(|e| match e {
        Expect::Msg(m) => m.clone(),
        _ => unreachable!(),
    }).collect();
    let handler_responds;
    if c.shape.streaming_request() {
        ensure!(log.len() == 1, "C05/handler-not-called", "streaming-request handler calls: {}", log.len());
        let l = &log[0];
        ensure!(l.msgs == want_msgs, "C05/request-message-altered", "handler received {} messages {:?}, expected {} {:?} (grpc-encoding {:?})", l.msgs.len(), l.msgs.iter().map(|m| m.len()).collect::<Vec<_>>(), want_msgs.len(), want_msgs.iter().map(|m| m.len()).collect::<Vec<_>>(), c.req_enc);
        match first_bad.map(|i| &expects[i]) {
            None => ensure!(l.req_error.is_none() && l.req_ended, "C05/valid-request-stream-failed", "request stream error {:?}", l.req_error),
            Some(Expect::FlagWithoutEncoding) => ensure!(l.req_error.as_ref().map(|e| e.0) == Some(Code::Internal), "C05/flag1-without-encoding-not-internal", "request message with compressed flag, grpc-encoding {:?}: request stream gave {:?}", c.req_enc, l.req_error),
            Some(_) => ensure!(l.req_error.is_some(), "C05/undecodable-compressed-message-accepted", "request message that is no valid {:?} stream: request stream ended without error", negotiated),
        }
        handler_responds = true;
    } else {
        match expects.first() {
            Some(Expect::Msg(m)) => {
                ensure!(log.len() == 1, "C05/handler-not-called", "valid request (grpc-encoding {:?}, flag {}) but handler calls = {}, status {:?} {:?}", c.req_enc, c.req[0].flag(), log.len(), code, status.as_ref().map(|s| s.message().to_string()));
                ensure!(log[0].msgs.len() == 1 && log[0].msgs[0] == *m, "C05/request-message-altered", "handler received {:?} bytes, expected {} (grpc-encoding {:?}, flag {})", log[0].msgs.first().map(|m| m.len()), m.len(), c.req_enc, c.req[0].flag());
                handler_responds = true;
            }
            Some(Expect::FlagWithoutEncoding) => {
                ensure!(log.is_empty() && code != Some(Code::Ok), "C05/flag1-without-encoding-accepted", "request message with compressed flag but grpc-encoding {:?}: handler calls {}, status {:?}", c.req_enc, log.len(), code);
                ensure!(code == Some(Code::Internal), "C05/flag1-without-encoding-not-internal", "request message with compressed flag but grpc-encoding {:?}: status {:?}", c.req_enc, code);
                handler_responds = false;
            }
            Some(Expect::Undecodable) => {
                ensure!(log.is_empty() && code.is_some() && code != Some(Code::Ok), "C05/undecodable-compressed-message-accepted", "request message that is no valid {:?} stream: handler calls {}, status {:?}", negotiated, log.len(), code);
                handler_responds = false;
            }
            None => return deferred.map_or(Ok(()), Err),
        }
    }

    if handler_responds {
        ensure!(code == Some(Code::Ok), "C05/unexpected-status", "handler answered OK but the response status is {:?} {:?}", code, status.as_ref().map(|s| s.message().to_string()));
        let msgs = resp_msgs(c);
        let flags = check_produced_frames(&ans.body(), &msgs, ann, "response")?;
        o.label_if(flags.contains(&1), "resp_frames_compressed");
        o.label_if(ann.is_some() && !flags.is_empty() && !flags.contains(&1), "resp_announced_but_flag0");
        if c.disable_compression && !c.shape.streaming_response() {
            // documented for unary and client-streaming responses only
            ensure!(!flags.contains(&1), "C05/disable-compression-ignored", "handler called disable_compression but the response frame has the compressed flag");
        }
        // metamorphic: optional whitespace in the list is insignificant, so the choice must not change
        // when it is removed
        if has_ows && !non_ascii {
            // only the *optional* whitespace around the list items is removed; whitespace inside an
            // (unknown) token is part of that token
            let stripped: Vec<Vec<u8>> = lines
                .iter()
                .map(|l| {
                    l.split(|b| *b == b',')
                        .map(|t| {
                            let mut t = t;
                            while let [b' ' | b'\t', r @ ..] = t {
                                t = r;
                            }
                            while let [r @ .., b' ' | b'\t'] = t {
                                t = r;
                            }
                            t.to_vec()
                        })
                        .collect::<Vec<_>>()
                        .join(&b","[..])
                })
                .collect();
            let (ans2, _) = call_server(c, &stripped)?;
            let ann2 = announced(&ans2.headers).unwrap_or(None);
            ensure!(ann2 == ann, "C05/choice-depends-on-optional-whitespace", "grpc-accept-encoding {:?} -> {:?}, without the optional whitespace -> {:?} (send-set {})", lines.iter().map(|l| String::from_utf8_lossy(l).into_owned()).collect::<Vec<_>>(), ann, ann2, names(&send));
        }
    }
    deferred.map_or(Ok(()), Err)
}

// ------------------------------------------------------------------ client half

#[derive(Debug)]
enum CliOut {
    /// the call itself failed
    Err(Code, String),
    Unary(Vec<u8>),
    Stream(Vec<Vec<u8>>, Option<(Code, String)>),
}

fn run_client(c: &ClientCase, o: &mut Outcome) -> Result<(), Failure> {
    let accept = set_of(&c.accept);
    let req_msgs: Vec<Vec<u8>> = if c.shape.streaming_request() { c.req.iter().map(|b| b.bytes()).collect() } else { vec![c.req.first().map(|b| b.bytes()).unwrap_or_default()] };
    let default_frame = Frame { flag: 0, pay: Pay::Plain, msg: Blob::of(b"") };
    let resp_frames: Vec<Frame> = if c.shape.streaming_response() { c.resp.clone() } else { vec![c.resp.first().cloned().unwrap_or(default_frame)] };
    let recv = receive(c.resp_enc, &accept);
    let refused = matches!(recv, Recv::Refused);
    let negotiated = match recv {
        Recv::Negotiated(n) => n,
        Recv::Refused => None,
    };
    let expects: Vec<Expect> = resp_frames.iter().map(|f| expect_frame(f, c.resp_enc, negotiated)).collect();
    let flag_contradicts = !refused && resp_frames.iter().any(|f| (f.flag() == 1) != negotiated.is_some());

    o.label("client");
    o.label(match c.shape {
        Shape::Unary => "cli_unary",
        Shape::ServerStream => "cli_server_stream",
        Shape::ClientStream => "cli_client_stream",
        Shape::Bidi => "cli_bidi",
    });
    o.label_if(c.send.is_some(), "cli_send_configured");
    o.label_if(accept.is_empty(), "cli_accept_empty");
    o.label_if(c.send.map(|e| !accept.contains(&e)).unwrap_or(false), "cli_send_not_in_accept");
    o.label_if(refused, "resp_encoding_not_accepted");
    o.label_if(negotiated.is_some(), "resp_encoding_accepted");
    o.label_if(expects.contains(&Expect::FlagWithoutEncoding), "resp_flag1_without_encoding");
    o.label_if(expects.contains(&Expect::Undecodable), "resp_flag1_undecodable");
    o.label_if(negotiated.is_some() && resp_frames.iter().zip(&expects).any(|(f, e)| f.flag() == 1 && matches!(e, Expect::Msg(_))), "resp_really_compressed");
    o.nontrivial = c.send.map(|e| set_of(&[e])).unwrap_or_default() != accept || refused || flag_contradicts;

    let (resp_enc, frames2) = (c.resp_enc, resp_frames.clone());
    let trailers_only = c.trailers_only && resp_frames.is_empty();
    o.label_if(trailers_only, "resp_trailers_only");
    let ch = MockChannel::new(move |_rec| {
        let mut headers = http::HeaderMap::new();
        headers.insert("content-type", http::HeaderValue::from_static("application/grpc"));
        if let Some(v) = resp_enc.value() {
            headers.insert("grpc-encoding", http::HeaderValue::from_bytes(v).expect("legal header value"));
        }
        let mut steps: Vec<BodyStep> = frames2.iter().map(|f| BodyStep::Data(Bytes::from(wire::frame(f.flag(), &f.payload(resp_enc))))).collect();
        if trailers_only {
            headers.insert("grpc-status", http::HeaderValue::from_static("0"));
        } else {
            steps.push(BodyStep::Trailers(ok_trailers()));
        }
        Reply { status: 200, headers, steps }
    });
    let log = ch.log.clone();
    let mut client = vt::raw_client::RawClient::new(ch);
    o.label_if(c.warm_up != 0, "cli_configured_after_first_call");
    if c.warm_up != 0 {
        // a first call on the not-yet-configured client (its outcome does not matter)
        // (on this very client, not on a clone: per-client state must not leak into later configuration)
        let _ = block_on_budget(4096, async { client.unary(tonic::Request::new(b"warm-up".to_vec())).await });
        log.lock().unwrap().clear();
        if c.warm_up & 2 != 0 {
            client = client.clone();
        }
    }
    if let Some(e) = c.send {
        client = client.send_compressed(e.tonic());
    }
    for e in &c.accept {
        client = client.accept_compressed(e.tonic());
    }
    let (shape, msgs2) = (c.shape, req_msgs.clone());
    let out = block_on_budget(4096, async move {
        async fn drain(r: Result<tonic::Response<tonic::Streaming<Vec<u8>>>, tonic::Status>) -> CliOut {
            match r {
                Err(s) => CliOut::Err(s.code(), s.message().to_string()),
                Ok(resp) => {
                    let mut st = resp.into_inner();
                    let mut got = vec![];
                    loop {
                        match st.message().await {
                            Ok(Some(m)) => got.push(m),
                            Ok(None) => return CliOut::Stream(got, None),
                            Err(s) => return CliOut::Stream(got, Some((s.code(), s.message().to_string()))),
                        }
                    }
                }
            }
        }
        fn single(r: Result<tonic::Response<Vec<u8>>, tonic::Status>) -> CliOut {
            match r {
                Err(s) => CliOut::Err(s.code(), s.message().to_string()),
                Ok(resp) => CliOut::Unary(resp.into_inner()),
            }
        }
        match shape {
            Shape::Unary => single(client.unary(tonic::Request::new(msgs2[0].clone())).await),
            Shape::ClientStream => single(client.client_stream(tonic::Request::new(tokio_stream::iter(msgs2))).await),
            Shape::ServerStream => drain(client.server_stream(tonic::Request::new(msgs2[0].clone())).await).await,
            Shape::Bidi => drain(client.bidi(tonic::Request::new(tokio_stream::iter(msgs2))).await).await,
        }
    });
    let Ok(out) = out else { bail!("C05/client-stuck", "client call did not complete within the poll budget") };

    // ---- what the client put on the wire
    let l = log.lock().unwrap();
    ensure!(l.len() == 1, "C05/client-request-count", "mock transport saw {} requests", l.len());
    let rec = &l[0];
    ensure!(rec.body_error.is_none(), "C05/client-request-body-error", "request body failed: {:?}", rec.body_error);
    let req_ann = match announced(&rec.headers) {
        Ok(a) => a,
        Err(raw) => bail!("C05/client-request-encoding-unknown", "request grpc-encoding is {raw}"),
    };
    ensure!(req_ann == c.send, if c.send.is_some() { "C05/client-request-encoding-not-the-configured-one" } else { "C05/client-request-encoding-without-configuration" }, "client configured to send {:?} (accept-set {}), request grpc-encoding {:?}", c.send, names(&accept), rec.headers.get("grpc-encoding"));
    let flags = check_produced_frames(&rec.body(), &req_msgs, req_ann, "request")?;
    if c.send.is_some() {
        ensure!(flags.iter().all(|f| *f == 1), "C05/client-request-not-compressed", "client told to send {:?} but request frames have flags {:?}", c.send, flags);
    }
    match advertised_set(&rec.headers) {
        None => ensure!(accept.is_empty(), "C05/client-accept-encoding-missing", "client accepts {} but the request has no grpc-accept-encoding", names(&accept)),
        Some(Err(t)) => bail!("C05/client-accept-encoding-unknown-token", "request grpc-accept-encoding has {t}"),
        Some(Ok(s)) => ensure!(s == accept, "C05/client-accept-encoding-not-the-accept-set", "request grpc-accept-encoding {:?} lists {}, client accepts {} (send {:?})", rec.headers.get("grpc-accept-encoding"), names(&s), names(&accept), c.send),
    }
    drop(l);

    // ---- what the client made of the response
    if refused {
        let ok = match &out {
            CliOut::Err(code, _) => *code == Code::Unimplemented,
            CliOut::Stream(got, Some((code, _))) => got.is_empty() && *code == Code::Unimplemented,
            _ => false,
        };
        ensure!(ok, "C05/unaccepted-response-encoding-not-unimplemented", "response grpc-encoding {:?}, client accepts {}: {:?}", c.resp_enc, names(&accept), short(&out));
        return Ok(());
    }
    let first_bad = expects.iter().position(|e| !matches!(e, Expect::Msg(_)));
    let want: Vec<Vec<u8>> = expects.iter().take(first_bad.unwrap_or(expects.len())).map(|e| match e {
        Expect::Msg(m) => m.clone(),
        _ => unreachable!(),
    }).collect();
    let (got, err): (Vec<Vec<u8>>, Option<Code>) = match &out {
        CliOut::Err(code, _) => (vec![], Some(*code)),
        CliOut::Unary(m) => (vec![m.clone()], None),
        CliOut::Stream(g, e) => (g.clone(), e.as_ref().map(|e| e.0)),
    };
    match first_bad.map(|i| &expects[i]) {
        None => {
            ensure!(err.is_none(), "C05/valid-response-failed", "response grpc-encoding {:?} (accept-set {}), frames valid: {:?}", c.resp_enc, names(&accept), short(&out));
            ensure!(got == want, "C05/response-message-altered", "client delivered {:?} byte messages, expected {:?}", got.iter().map(|m| m.len()).collect::<Vec<_>>(), want.iter().map(|m| m.len()).collect::<Vec<_>>());
        }
        Some(Expect::FlagWithoutEncoding) => {
            ensure!(err.is_some(), "C05/flag1-without-encoding-accepted", "response frame with compressed flag but grpc-encoding {:?}: {:?}", c.resp_enc, short(&out));
            ensure!(err == Some(Code::Internal), "C05/flag1-without-encoding-not-internal", "response frame with compressed flag but grpc-encoding {:?}: {:?}", c.resp_enc, short(&out));
            ensure!(got == want, "C05/response-message-altered", "messages before the failing frame: got {:?}, expected {:?}", got.iter().map(|m| m.len()).collect::<Vec<_>>(), want.iter().map(|m| m.len()).collect::<Vec<_>>());
        }
        Some(_) => {
            ensure!(err.is_some() && got == want, "C05/undecodable-compressed-message-accepted", "response frame that is no valid {:?} stream: {:?}", negotiated, short(&out));
        }
    }
    Ok(())
}

fn short(o: &CliOut) -> String {
    match o {
        CliOut::Err(c, m) => format!("call failed {c:?} {m:?}"),
        CliOut::Unary(m) => format!("Ok({} bytes)", m.len()),
        CliOut::Stream(g, e) => format!("stream of {} messages, end {:?}", g.len(), e),
    }
}

pub fn run(c: &Case, o: &mut Outcome) -> Result<(), Failure> {
    match c {
        Case::Server(s) => run_server(s, o),
        Case::Client(s) => run_client(s, o),
        Case::Feature(f) => run_feature(f, o),
    }
}

// ------------------------------------------------------------------ enumerated part / fuzz decoding

fn plain_line(toks: &[(Tok, u8, u8)]) -> AcceptHdr {
    AcceptHdr::Lines(vec![toks.iter().map(|(t, l, r)| TokSp { t: *t, l: *l, r: *r }).collect()])
}

pub fn fixed_cases() -> Vec<Case> {
    let subs = ordered_subsets();
    let hdrs = vec![
        AcceptHdr::Absent,
        plain_line(&[(Tok::Gzip, 0, 0)]),
        plain_line(&[(Tok::Zstd, 0, 0), (Tok::Gzip, 0, 0)]),
        plain_line(&[(Tok::Deflate, 0, 1), (Tok::Br, 1, 0), (Tok::Zstd, 2, 0)]),
        plain_line(&[(Tok::GzipUpper, 0, 0), (Tok::GzipQ, 0, 0), (Tok::Empty, 0, 0), (Tok::Deflate, 0, 0)]),
        plain_line(&[(Tok::Identity, 0, 0), (Tok::Zstd, 1, 1), (Tok::Deflate, 0, 0), (Tok::Gzip, 3, 0)]),
        plain_line(&[(Tok::Hi(0), 0, 0), (Tok::Gzip, 0, 0)]),
    ];
    let hello = Blob::Rep(40, 7);
    let mut v = vec![];
    // full 16 x 16 ordered-subset matrix x accept headers
    for send in &subs {
        for accept in &subs {
            for (i, h) in hdrs.iter().enumerate() {
                v.push(Case::Server(ServerCase {
                    send: send.clone(),
                    accept: accept.clone(),
                    path: Path::Generated,
                    shape: if i % 2 == 0 { Shape::Unary } else { Shape::ServerStream },
                    accept_hdr: h.clone(),
                    req_enc: EncHdr::Absent,
                    req: vec![Frame { flag: 0, pay: Pay::Plain, msg: hello.clone() }],
                    disable_compression: false,
                    resp: vec![hello.clone(), Blob::of(b"x")],
                }));
            }
        }
    }
    let enc_hdrs = [EncHdr::Absent, EncHdr::Identity, EncHdr::Known(Enc::Gzip), EncHdr::Known(Enc::Deflate), EncHdr::Known(Enc::Zstd), EncHdr::Br, EncHdr::GzipUpper, EncHdr::NonUtf8, EncHdr::Empty];
    // accept-set x request grpc-encoding x flag x (unary, bidi)
    for accept in &subs {
        for h in enc_hdrs {
            for flag in [0u8, 1] {
                for shape in [Shape::Unary, Shape::Bidi] {
                    v.push(Case::Server(ServerCase {
                        send: vec![Enc::Gzip],
                        accept: accept.clone(),
                        path: if shape == Shape::Unary { Path::Generated } else { Path::GrpcDirect },
                        shape,
                        accept_hdr: plain_line(&[(Tok::Gzip, 0, 0)]),
                        req_enc: h,
                        req: vec![Frame { flag, pay: Pay::AsHeader, msg: hello.clone() }],
                        disable_compression: flag == 1 && shape == Shape::Unary,
                        resp: vec![hello.clone()],
                    }));
                }
            }
        }
    }
    // client: send x accept x response grpc-encoding x flag
    for send in [None, Some(Enc::Gzip), Some(Enc::Deflate), Some(Enc::Zstd)] {
        for accept in &subs {
            for h in enc_hdrs {
                for flag in [0u8, 1] {
                    v.push(Case::Client(ClientCase {
                        send,
                        accept: accept.clone(),
                        shape: if flag == 0 { Shape::Unary } else { Shape::ServerStream },
                        req: vec![hello.clone()],
                        resp_enc: h,
                        resp: vec![Frame { flag, pay: Pay::AsHeader, msg: hello.clone() }],
                        trailers_only: false,
                        warm_up: if flag == 1 { 1 } else { 0 },
                    }));
                    if flag == 1 {
                        v.push(Case::Client(ClientCase { send, accept: accept.clone(), shape: Shape::ServerStream, req: vec![hello.clone()], resp_enc: h, resp: vec![], trailers_only: true, warm_up: 0 }));
                    }
                }
            }
        }
    }
    v
}

pub fn from_bytes(data: &[u8]) -> Option<Case> {
    use arbitrary::Unstructured;
    let mut u = Unstructured::new(data);
    let subs = ordered_subsets();
    fn a_enc(u: &mut Unstructured<'_>) -> Option<Enc> {
        Some(ALL_ENC[u.int_in_range(0usize..=2).ok()?])
    }
    fn a_shape(u: &mut Unstructured<'_>) -> Option<Shape> {
        Some([Shape::Unary, Shape::ServerStream, Shape::ClientStream, Shape::Bidi][u.int_in_range(0usize..=3).ok()?])
    }
    fn a_enc_hdr(u: &mut Unstructured<'_>) -> Option<EncHdr> {
        Some(match u.int_in_range(0u8..=8).ok()? {
            0 => EncHdr::Absent,
            1 => EncHdr::Identity,
            2 => EncHdr::Br,
            3 => EncHdr::GzipUpper,
            4 => EncHdr::NonUtf8,
            5 => EncHdr::Empty,
            _ => EncHdr::Known(a_enc(u)?),
        })
    }
    fn a_msg(u: &mut Unstructured<'_>) -> Option<Blob> {
        let n = u.int_in_range(0usize..=16).ok()?;
        Some(Blob::of(u.bytes(n.min(u.len())).ok()?))
    }
    fn a_frame(u: &mut Unstructured<'_>) -> Option<Frame> {
        let flag = u.int_in_range(0u8..=1).ok()?;
        let pay = match u.int_in_range(0u8..=4).ok()? {
            0 => Pay::Plain,
            1 | 2 => Pay::AsHeader,
            3 => Pay::Comp(a_enc(u)?),
            _ => Pay::Garbage,
        };
        Some(Frame { flag, pay, msg: a_msg(u)? })
    }
    fn a_tok(u: &mut Unstructured<'_>) -> Option<TokSp> {
        let t = match u.int_in_range(0u8..=9).ok()? {
            0 => Tok::Gzip,
            1 => Tok::Deflate,
            2 => Tok::Zstd,
            3 => Tok::Identity,
            4 => Tok::Br,
            5 => Tok::Snappy,
            6 => Tok::GzipUpper,
            7 => Tok::GzipQ,
            8 => Tok::Empty,
            _ => Tok::Hi(u.int_in_range(0u8..=4).ok()?),
        };
        Some(TokSp { t, l: u.int_in_range(0u8..=4).ok()?, r: u.int_in_range(0u8..=4).ok()? })
    }
    let server = u.arbitrary::<bool>().ok()?;
    let accept = subs[u.int_in_range(0usize..=15).ok()?].clone();
    let shape = a_shape(&mut u)?;
    if server {
        let send = subs[u.int_in_range(0usize..=15).ok()?].clone();
        let path = [Path::Generated, Path::GrpcDirect, Path::GrpcApply][u.int_in_range(0usize..=2).ok()?];
        let accept_hdr = match u.int_in_range(0u8..=7).ok()? {
            0 => AcceptHdr::Absent,
            1 => AcceptHdr::Opaque(a_msg(&mut u)?),
            _ => {
                let n = u.int_in_range(1usize..=5).ok()?;
                let mut l = vec![];
                for _ in 0..n {
                    l.push(a_tok(&mut u)?);
                }
                AcceptHdr::Lines(vec![l])
            }
        };
        let req_enc = a_enc_hdr(&mut u)?;
        let n = u.int_in_range(1usize..=3).ok()?;
        let mut req = vec![];
        for _ in 0..n {
            req.push(a_frame(&mut u)?);
        }
        let disable_compression = u.ratio(1u8, 5u8).ok()?;
        let n = u.int_in_range(0usize..=3).ok()?;
        let mut resp = vec![];
        for _ in 0..n {
            resp.push(a_msg(&mut u)?);
        }
        Some(Case::Server(ServerCase { send, accept, path, shape, accept_hdr, req_enc, req, disable_compression, resp }))
    } else {
        let send = if u.arbitrary::<bool>().ok()? { Some(a_enc(&mut u)?) } else { None };
        let n = u.int_in_range(0usize..=3).ok()?;
        let mut req = vec![];
        for _ in 0..n {
            req.push(a_msg(&mut u)?);
        }
        let resp_enc = a_enc_hdr(&mut u)?;
        let n = u.int_in_range(0usize..=3).ok()?;
        let mut resp = vec![];
        for _ in 0..n {
            resp.push(a_frame(&mut u)?);
        }
        Some(Case::Client(ClientCase { send, accept, shape, req, resp_enc, resp, trailers_only: false, warm_up: 0 }))
    }
}

pub struct C05;
impl Prop for C05 {
    const ID: &'static str = "C05";
    type Case = Case;
    fn strategy() -> BoxedStrategy<Case> {
        strategy()
    }
    fn run(c: &Case, o: &mut Outcome) -> Result<(), Failure> {
        run(c, o)
    }
    fn rule() -> &'static str {
        "proptest + enumerated matrix. Server half (3/5 of cases): generated vt.Raw server (also tonic::server::Grpc directly, builder methods or apply_compression_config) with send-set and accept-set = any ordered subset of {gzip,deflate,zstd} (16 x 16), all four call shapes, called in-process; request grpc-accept-encoding absent / one or two header lines of 0-5 tokens from {gzip,deflate,zstd,identity,br,snappy,GZIP,gzip;q=1,empty,non-ASCII token} each with optional SP/HTAB around it / opaque bytes; request grpc-encoding in {absent,identity,gzip,deflate,zstd,br,GZIP,non-UTF-8,empty}; 1-3 request frames with flag 0/1 and payload plain / really compressed with the header's encoding / really compressed with another encoding / garbage; handler optionally calls disable_compression. Oracle (independent model): response grpc-encoding absent/identity or a known encoding that is in the send-set AND among the request's offered tokens (comma-split, OWS-trimmed, exact lower-case match, all header lines); every flag-1 response frame passes the magic check and independent decompression of the announced encoding to the handler's message, flag-0 frames carry the plain message; a flag-1 frame requires an announced encoding (an announced encoding with flag-0 frames is allowed: per-message compression is optional); disable_compression on unary/client-streaming responses => flag 0; the announced encoding must not change when the optional whitespace is removed from the accept list; request grpc-encoding not identity and not in the accept-set => handler not called, trailers-only UNIMPLEMENTED whose grpc-accept-encoding lists exactly the accept-set (as a set, identity ignored; may be absent when the set is empty); flag 1 with no/identity grpc-encoding => INTERNAL (unary: handler not called; streaming: the request stream yields it after the earlier messages); request compressed with an accepted encoding reaches the handler as the original message; flag-0 payloads reach it verbatim; a flag-1 payload the independent decompressor rejects is not delivered. Client half (2/5): generated vt.Raw client over the mock transport, send_compressed in {none,gzip,deflate,zstd}, accept_compressed any ordered subset, four shapes; scripted response grpc-encoding (same 9 values) and 0-3 response frames (same flag/payload classes). Oracle: request grpc-encoding present iff configured and equal to it, every request frame flag 1 + magic + independent decompression to the message (flag 0 plain when nothing configured); grpc-accept-encoding lists exactly the accept-set (set compare, identity ignored) or is absent when empty; response grpc-encoding not identity and outside the accept-set => UNIMPLEMENTED; flag 1 without negotiated encoding => INTERNAL; accepted encoding => messages recovered. Non-trivial: server: send/accept/offered sets pairwise different, or accept header with unknown tokens / OWS / non-ASCII, or a frame flag contradicting the header; client: accept-set != {send}, or refused response encoding, or flag contradicting the header. Also: enabling an encoding that is already enabled (send/accept) keeps the set and order of the others. The apply_compression_config path widens both sets to all encodings and narrows them again with pop()."
    }
    fn assumptions() -> Vec<String> {
        vec![
            "the server is never required to compress (identity is always permitted); only the announced encoding is constrained".into(),
            "an announced grpc-encoding with flag-0 frames is permitted (gRPC per-message compression is optional; this is what disable_compression produces)".into(),
            "offered encodings = union over all grpc-accept-encoding header lines of comma-separated tokens trimmed of SP/HTAB, exact lower-case match; `GZIP`, `gzip;q=1` and non-ASCII tokens offer nothing".into(),
            "disable_compression is judged for unary and client-streaming responses only (documented scope)".into(),
            "unary request shapes carry exactly one request frame; a flag-1 payload rejected by the independent decompressor must merely not be delivered (any non-OK status)".into(),
        ]
    }
    fn cases(t: Tier) -> u64 {
        match t {
            Tier::Quick => 250_000,
            Tier::Thorough => 7_500_000,
        }
    }
    fn fixed_cases(t: Tier) -> Vec<Case> {
        let mut v = fixed_cases();
        if t == Tier::Thorough && std::env::var("VERIF_NO_FEATURE_BUILDS").is_err() {
            let seed = std::env::var("VERIF_SEED").ok().and_then(|s| s.parse::<u64>().ok()).unwrap_or(0);
            for f in ["gzip", "deflate", "zstd"] {
                v.push(Case::Feature(FeatureBuild { feature: f.to_string(), cases: 20_000, seed, case: None }));
            }
        }
        v
    }
    fn extra_evidence() -> Option<serde_json::Value> {
        let runs = FEATURE_RUNS.lock().unwrap().clone();
        if runs.is_empty() {
            None
        } else {
            Some(serde_json::json!({ "single_feature_builds": runs }))
        }
    }
    fn fixed_is_exhaustive() -> Option<&'static str> {
        Some("server: all 16x16 ordered (send, accept) subsets x 7 grpc-accept-encoding headers; all 16 accept-sets x 9 request grpc-encoding values x flag 0/1 x {unary, bidi}; client: 4 send settings x 16 accept-sets x 9 response grpc-encoding values x flag 0/1")
    }
    fn from_bytes(data: &[u8]) -> Option<Case> {
        from_bytes(data)
    }
    fn fuzz(t: Tier) -> Option<FuzzSpec> {
        match t {
            Tier::Quick => None,
            Tier::Thorough => Some(FuzzSpec { target: "c05_negotiation", runs: 1000000, max_len: 512 }),
        }
    }
    fn max_shrink_iters() -> u32 {
        3000
    }
}
