//! C19 – reflection resolves every registered symbol and file, and nothing else.
//!
//! A compact tree description (`Case.files`) is turned into `prost_types` descriptors by this
//! module's own walker, which at the same time records every fully-qualified name and the file
//! that declares it (the reference model). The descriptors are registered with
//! `tonic_reflection::server::Builder` (as structs or encoded, split over several sets, with
//! duplicates, possibly leaving a file unregistered) and the built v1 and v1alpha services are driven
//! in-process through the generated clients on a current-thread runtime.
use crate::infra::gen::pick;
use crate::infra::runner::*;
use crate::{bail, ensure};
use proptest::prelude::*;
use prost::Message as _;
use prost_types::{
    field_descriptor_proto::{Label, Type},
    DescriptorProto, EnumDescriptorProto, EnumValueDescriptorProto, FieldDescriptorProto, FileDescriptorProto,
    FileDescriptorSet, MethodDescriptorProto, OneofDescriptorProto, ServiceDescriptorProto,
};
use serde::{Deserialize, Serialize};
use std::collections::{BTreeMap, BTreeSet};
use std::future::Future;
use std::pin::Pin;
use std::task::{Context, Poll};

// ------------------------------------------------------------------------------------ case

/// message: `f` fields, `o` oneofs, nested messages `n`, nested enums `e` (value counts)
#[derive(Clone, Debug, Serialize, Deserialize)]
pub struct MsgSpec {
    pub f: u8,
    pub o: u8,
    pub n: Vec<MsgSpec>,
    pub e: Vec<u8>,
}

/// file: name style (bit 2: imports the previous file), package selector (0 none, 1 `p`, 2 `p.q`), messages, enums (value counts),
/// services (method counts)
#[derive(Clone, Debug, Serialize, Deserialize)]
pub struct FileSpec {
    pub name: u8,
    pub pkg: u8,
    pub m: Vec<MsgSpec>,
    pub e: Vec<u8>,
    pub s: Vec<u8>,
}

/// one `register_*file_descriptor_set` call: encoded or struct, indices into `Case.files`
#[derive(Clone, Debug, Serialize, Deserialize)]
pub struct SetSpec {
    pub enc: bool,
    pub files: Vec<u8>,
}

/// a derived query: `target` selects a declared name, `kind`/`pos` the mutation, `at` where in the
/// request sequence it is placed
#[derive(Clone, Debug, Serialize, Deserialize)]
pub struct Mutant {
    pub target: u16,
    pub kind: u8,
    pub pos: u16,
    pub at: u16,
}

#[derive(Clone, Debug, Serialize, Deserialize)]
pub struct Case {
    pub files: Vec<FileSpec>,
    /// nested declarations reuse simple names across scopes (`p.M0.M0`, `f0` everywhere)
    pub reuse: bool,
    pub sets: Vec<SetSpec>,
    pub include_reflection: bool,
    /// `with_service_name` calls (selectors into declared services + one undeclared name); empty = none
    pub chosen: Vec<u16>,
    pub mutants: Vec<Mutant>,
    /// requests per RPC (0 = all remaining requests in one stream)
    pub batch: u8,
}

pub const MUT_KINDS: u8 = 9;

// ------------------------------------------------------------------------------------ generator

fn enum_s() -> impl Strategy<Value = u8> {
    prop_oneof![1 => Just(0u8), 6 => 1u8..=3]
}

fn msg_s(depth: u32) -> BoxedStrategy<MsgSpec> {
    let nested: BoxedStrategy<Vec<MsgSpec>> = if depth >= 3 {
        Just(vec![]).boxed()
    } else {
        prop_oneof![
            3 => Just(vec![]),
            3 => proptest::collection::vec(msg_s(depth + 1), 1),
            1 => proptest::collection::vec(msg_s(depth + 1), 2),
        ]
        .boxed()
    };
    (0u8..=3, 0u8..=2, nested, proptest::collection::vec(enum_s(), 0..=2))
        .prop_map(|(f, o, n, e)| MsgSpec { f, o, n, e })
        .boxed()
}

fn file_s() -> impl Strategy<Value = FileSpec> {
    (
        // bits 0-2: name style and import of the predecessor; 13 (of 0..16) additionally makes the file a big one
        0u8..16,
        // 0 none, 1 `p`, 2 `p.q`, 3 = present but empty (`package: Some("")`, what hand-built descriptors carry)
        prop_oneof![6 => 0u8..3, 1 => Just(3u8)],
        proptest::collection::vec(msg_s(1), 0..=3),
        proptest::collection::vec(enum_s(), 0..=2),
        proptest::collection::vec(0u8..=3, 0..=2),
    )
        .prop_map(|(name, pkg, m, e, s)| FileSpec { name, pkg, m, e, s })
}

pub fn strategy() -> BoxedStrategy<Case> {
    let nfiles = prop_oneof![2 => Just(1usize), 3 => Just(2usize), 2 => Just(3usize), 1 => Just(4usize)];
    nfiles
        .prop_flat_map(|n| {
            (
                proptest::collection::vec(file_s(), n),
                any::<bool>(),
                // registration plan
                (
                    1usize..=3,
                    proptest::collection::vec(any::<u8>(), n),
                    proptest::collection::vec(any::<bool>(), 3),
                    proptest::option::weighted(0.4, (any::<u8>(), any::<u8>())),
                    proptest::option::weighted(0.12, any::<u8>()),
                ),
                proptest::bool::weighted(0.7),
                prop_oneof![3 => Just(vec![]), 1 => proptest::collection::vec(any::<u16>(), 1..=3)],
                proptest::collection::vec(
                    (any::<u16>(), 0u8..MUT_KINDS, any::<u16>(), any::<u16>())
                        .prop_map(|(target, kind, pos, at)| Mutant { target, kind, pos, at }),
                    0..=10,
                ),
                prop_oneof![2 => Just(0u8), 2 => Just(1u8), 1 => 2u8..=7],
            )
                .prop_map(move |(files, reuse, (nsets, assign, encs, dup, unreg), include_reflection, chosen, mutants, batch)| {
                    let mut sets: Vec<SetSpec> = (0..nsets).map(|i| SetSpec { enc: encs[i], files: vec![] }).collect();
                    let unreg = match unreg {
                        Some(u) if n >= 2 => Some(u as usize % n),
                        _ => None,
                    };
                    for (i, a) in assign.iter().enumerate() {
                        if Some(i) != unreg {
                            sets[*a as usize % nsets].files.push(i as u8);
                        }
                    }
                    if let Some((f, s)) = dup {
                        let f = f as usize % n;
                        if Some(f) != unreg {
                            sets[s as usize % nsets].files.push(f as u8);
                        }
                    }
                    Case { files, reuse, sets, include_reflection, chosen, mutants, batch }
                })
        })
        .boxed()
}

// ------------------------------------------------------------------------------------ reference model

#[derive(Clone, Copy, Debug, PartialEq, Eq)]
enum Kind {
    Message,
    NestedMessage,
    Field,
    Oneof,
    Enum,
    NestedEnum,
    Service,
    Method,
}
impl Kind {
    fn tag(self) -> &'static str {
        match self {
            Kind::Message => "message",
            Kind::NestedMessage => "nested-message",
            Kind::Field => "field",
            Kind::Oneof => "oneof",
            Kind::Enum => "enum",
            Kind::NestedEnum => "nested-enum",
            Kind::Service => "service",
            Kind::Method => "method",
        }
    }
}

fn join(scope: &str, name: &str) -> String {
    if scope.is_empty() {
        name.to_string()
    } else {
        format!("{scope}.{name}")
    }
}

struct Walker {
    reuse: bool,
    counter: u32,
    /// (fully-qualified name, kind) in declaration order, for the file being walked
    decls: Vec<(String, Kind)>,
    /// enum values: (Enum-scoped name, sibling-scoped name)
    values: Vec<(String, String)>,
    services: Vec<String>,
    max_depth: u32,
    nested_enum: bool,
    oneofs: bool,
    /// declarations shaped like the ones protoc synthesises (map entries, proto3-optional oneofs) were generated
    synthetic: bool,
    prev_file: String,
}

impl Walker {
    fn fresh(&mut self) -> u32 {
        let c = self.counter;
        self.counter += 1;
        c
    }
    /// simple name: globally unique counter, or (nested scopes, `reuse`) the local index
    fn name(&mut self, letter: &str, local: usize, top: bool) -> String {
        if top || !self.reuse {
            format!("{letter}{}", self.fresh())
        } else {
            format!("{letter}{local}")
        }
    }

    fn enumeration(&mut self, scope: &str, values: u8, local: usize, top: bool) -> EnumDescriptorProto {
        let name = self.name("E", local, top);
        let fq = join(scope, &name);
        self.decls.push((fq.clone(), if top { Kind::Enum } else { Kind::NestedEnum }));
        if !top {
            self.nested_enum = true;
        }
        let mut value = vec![];
        for j in 0..values {
            let vname = format!("{}_V{}", name.to_uppercase(), j);
            self.values.push((join(&fq, &vname), join(scope, &vname)));
            value.push(EnumValueDescriptorProto { name: Some(vname), number: Some(j as i32), options: None });
        }
        EnumDescriptorProto { name: Some(name), value, ..Default::default() }
    }

    fn message(&mut self, scope: &str, spec: &MsgSpec, local: usize, depth: u32) -> DescriptorProto {
        let top = depth == 1;
        self.max_depth = self.max_depth.max(depth);
        let name = self.name("M", local, top);
        let fq = join(scope, &name);
        self.decls.push((fq.clone(), if top { Kind::Message } else { Kind::NestedMessage }));
        let mut d = DescriptorProto { name: Some(name), ..Default::default() };
        for (i, n) in spec.n.iter().enumerate() {
            let mut m = self.message(&fq, n, i, depth + 1);
            // some nested messages carry the map_entry option, as the entries protoc synthesises for map fields do:
            // they are declarations of the file like any other
            if (i + depth as usize) % 3 == 2 {
                m.options = Some(prost_types::MessageOptions { map_entry: Some(true), ..Default::default() });
                self.synthetic = true;
            }
            d.nested_type.push(m);
        }
        for (i, v) in spec.e.iter().enumerate() {
            let e = self.enumeration(&fq, *v, i, false);
            d.enum_type.push(e);
        }
        for j in 0..spec.f as usize {
            let fname = self.name("f", j, false);
            self.decls.push((join(&fq, &fname), Kind::Field));
            let (ty, type_name) = match j % 4 {
                0 => (Type::Int32, None),
                1 => (Type::String, None),
                2 => (Type::Message, Some(format!(".{fq}"))),
                _ => match d.enum_type.first() {
                    Some(e) => (Type::Enum, Some(format!(".{fq}.{}", e.name.clone().unwrap_or_default()))),
                    None => (Type::Bytes, None),
                },
            };
            let oneof_index = if spec.o > 0 && j % (spec.o as usize + 1) != 0 {
                Some((j % (spec.o as usize + 1)) as i32 - 1)
            } else {
                None
            };
            d.field.push(FieldDescriptorProto {
                name: Some(fname.clone()),
                number: Some(j as i32 + 1),
                label: Some(Label::Optional as i32),
                r#type: Some(ty as i32),
                type_name,
                json_name: Some(fname),
                oneof_index,
                ..Default::default()
            });
        }
        for j in 0..spec.o as usize {
            let oname = self.name("o", j, false);
            self.decls.push((join(&fq, &oname), Kind::Oneof));
            self.oneofs = true;
            d.oneof_decl.push(OneofDescriptorProto { name: Some(oname), options: None });
        }
        // a proto3 `optional` field as protoc describes it: its own synthetic oneof `_<field>`, proto3_optional set
        if (spec.f as usize + spec.o as usize) % 2 == 1 {
            if let Some(last) = d.field.last_mut() {
                if last.oneof_index.is_none() {
                    let oname = format!("_{}", last.name.clone().unwrap_or_default());
                    last.oneof_index = Some(d.oneof_decl.len() as i32);
                    last.proto3_optional = Some(true);
                    self.decls.push((join(&fq, &oname), Kind::Oneof));
                    self.oneofs = true;
                    self.synthetic = true;
                    d.oneof_decl.push(OneofDescriptorProto { name: Some(oname), options: None });
                }
            }
        }
        d
    }

    fn file(&mut self, idx: usize, spec: &FileSpec) -> FileDescriptorProto {
        let name = match spec.name % 4 {
            0 => format!("f{idx}.proto"),
            1 => format!("dir{idx}/sub/f.proto"),
            2 => format!("F{idx}"),
            _ => format!("p.q.f{idx}.proto"),
        };
        let package = match spec.pkg % 3 {
            0 if spec.pkg >= 3 => Some(String::new()),
            0 => None,
            1 => Some("p".to_string()),
            _ => Some("p.q".to_string()),
        };
        let scope = package.clone().unwrap_or_default();
        let mut fd = FileDescriptorProto {
            name: Some(name),
            package,
            syntax: Some("proto3".to_string()),
            ..Default::default()
        };
        // name styles 4..8: the file also imports its predecessor (publicly for the odd ones)
        if spec.name % 8 >= 4 && idx > 0 {
            fd.dependency.push(self.prev_file.clone());
            if spec.name % 2 == 1 {
                fd.public_dependency.push(0);
            }
        }
        // now and then a big schema file: an option string that makes the encoded descriptor larger than 64 KiB
        // (and any default-sized frame or buffer)
        if spec.name % 16 == 13 {
            fd.options = Some(prost_types::FileOptions { java_package: Some("com.example.".to_string() + &"x".repeat(70_000)), ..Default::default() });
            self.synthetic = true;
        }
        // descriptor sets written with source info (protoc --include_source_info) carry comments and spans: they
        // are part of "what was registered"
        if spec.name % 4 == 2 {
            fd.source_code_info = Some(prost_types::SourceCodeInfo {
                location: vec![prost_types::source_code_info::Location { path: vec![4, 0], span: vec![3, 0, 5, 1], leading_comments: Some(" a message\n".into()), trailing_comments: None, leading_detached_comments: vec![" detached\n".into()] }],
            });
        }
        self.prev_file = fd.name.clone().unwrap_or_default();
        for (i, m) in spec.m.iter().enumerate() {
            let m = self.message(&scope, m, i, 1);
            fd.message_type.push(m);
        }
        for (i, v) in spec.e.iter().enumerate() {
            let e = self.enumeration(&scope, *v, i, true);
            fd.enum_type.push(e);
        }
        let io_type = match fd.message_type.first() {
            Some(m) => format!(".{}", join(&scope, m.name.as_deref().unwrap_or(""))),
            None => ".google.protobuf.Empty".to_string(),
        };
        for (i, methods) in spec.s.iter().enumerate() {
            let sname = self.name("S", i, true);
            let fq = join(&scope, &sname);
            self.decls.push((fq.clone(), Kind::Service));
            self.services.push(fq.clone());
            let mut method = vec![];
            for j in 0..*methods as usize {
                let mname = self.name("Do", j, false);
                self.decls.push((join(&fq, &mname), Kind::Method));
                method.push(MethodDescriptorProto {
                    name: Some(mname),
                    input_type: Some(io_type.clone()),
                    output_type: Some(io_type.clone()),
                    options: None,
                    client_streaming: Some(j % 2 == 1),
                    server_streaming: Some(j % 3 == 2),
                });
            }
            fd.service.push(ServiceDescriptorProto { name: Some(sname), method, options: None });
        }
        fd
    }
}

struct Model {
    protos: Vec<FileDescriptorProto>,
    registered: Vec<bool>,
    /// strict names declared by registered files -> (file, kind)
    syms: BTreeMap<String, (usize, Kind)>,
    /// both spellings of an enum value of a registered file -> (file, pair id)
    values: BTreeMap<String, (usize, usize)>,
    value_pairs: usize,
    /// registered file name -> file
    fnames: BTreeMap<String, usize>,
    /// packages (and their dotted prefixes) of registered files
    packages: BTreeSet<String>,
    /// services of registered files, each once
    services: Vec<String>,
    /// pool for derived queries: (name, is a file name)
    pool: Vec<(String, bool)>,
    /// registration payloads in call order
    struct_sets: Vec<FileDescriptorSet>,
    encoded_sets: Vec<Vec<u8>>,
    /// declaration order: which kind of call each set used
    set_is_encoded: Vec<bool>,
    max_depth: u32,
    nested_enum: bool,
    oneofs: bool,
    dup: bool,
}

fn model(c: &Case) -> Model {
    let mut w = Walker {
        reuse: c.reuse,
        counter: 0,
        decls: vec![],
        values: vec![],
        services: vec![],
        max_depth: 0,
        nested_enum: false,
        oneofs: false,
        synthetic: false,
        prev_file: String::new(),
    };
    let mut registered = vec![false; c.files.len()];
    let mut times = vec![0u32; c.files.len()];
    for s in &c.sets {
        for f in &s.files {
            if let Some(r) = registered.get_mut(*f as usize) {
                *r = true;
                times[*f as usize] += 1;
            }
        }
    }
    let mut m = Model {
        protos: vec![],
        registered,
        syms: BTreeMap::new(),
        values: BTreeMap::new(),
        value_pairs: 0,
        fnames: BTreeMap::new(),
        packages: BTreeSet::new(),
        services: vec![],
        pool: vec![],
        struct_sets: vec![],
        encoded_sets: vec![],
        set_is_encoded: vec![],
        max_depth: 0,
        nested_enum: false,
        oneofs: false,
        dup: times.iter().any(|t| *t > 1),
    };
    for (i, f) in c.files.iter().enumerate() {
        w.decls.clear();
        w.values.clear();
        w.services.clear();
        let fd = w.file(i, f);
        let reg = m.registered[i];
        m.pool.push((fd.name.clone().unwrap_or_default(), true));
        for (n, k) in &w.decls {
            m.pool.push((n.clone(), false));
            if reg {
                m.syms.insert(n.clone(), (i, *k));
            }
        }
        for (a, b) in &w.values {
            m.pool.push((a.clone(), false));
            if reg {
                m.values.insert(a.clone(), (i, m.value_pairs));
                m.values.insert(b.clone(), (i, m.value_pairs));
                m.value_pairs += 1;
            }
        }
        if reg {
            m.fnames.insert(fd.name.clone().unwrap_or_default(), i);
            m.services.extend(w.services.iter().cloned());
            if let Some(p) = &fd.package {
                let mut acc = String::new();
                for comp in p.split('.') {
                    acc = join(&acc, comp);
                    m.packages.insert(acc.clone());
                }
            }
        }
        m.protos.push(fd);
    }
    m.max_depth = w.max_depth;
    m.nested_enum = w.nested_enum;
    m.oneofs = w.oneofs;
    for s in &c.sets {
        let fds = FileDescriptorSet {
            file: s.files.iter().filter_map(|f| m.protos.get(*f as usize).cloned()).collect(),
        };
        m.set_is_encoded.push(s.enc);
        if s.enc {
            m.encoded_sets.push(fds.encode_to_vec());
        } else {
            m.struct_sets.push(fds);
        }
    }
    m
}

/// names offered to `with_service_name`
fn chosen_names(c: &Case, m: &Model) -> Vec<String> {
    c.chosen
        .iter()
        .map(|sel| {
            let i = pick(*sel, m.services.len() + 1);
            m.services.get(i).cloned().unwrap_or_else(|| "ext.Other".to_string())
        })
        .collect()
}

// ------------------------------------------------------------------------------------ queries

#[derive(Clone, Debug, PartialEq)]
enum Q {
    Sym(String),
    File(String),
    List,
}

#[derive(Clone, Debug)]
enum Expect {
    /// resolves to this file
    File(usize),
    /// enum value spelling: this file or NOT_FOUND; at least one spelling of the pair resolves
    Value(usize, usize),
    NotFound,
    /// only required to be answered without a panic (leading dot, package names, empty string)
    Free,
    Services,
    /// the reflection service's own descriptor: found iff it is included
    Own,
}

#[derive(Clone, Debug)]
struct Query {
    /// request for v1 and for v1alpha (they differ only for the service's own names)
    q: [Q; 2],
    exp: Expect,
    tag: &'static str,
}

fn classify_sym(m: &Model, s: &str) -> Expect {
    if s.is_empty() || s.starts_with('.') || m.packages.contains(s) {
        Expect::Free
    } else if let Some((f, _)) = m.syms.get(s) {
        Expect::File(*f)
    } else if let Some((f, p)) = m.values.get(s) {
        Expect::Value(*f, *p)
    } else {
        Expect::NotFound
    }
}
fn classify_file(m: &Model, s: &str) -> Expect {
    match m.fnames.get(s) {
        Some(f) => Expect::File(*f),
        None => Expect::NotFound,
    }
}

fn flip(b: u8) -> u8 {
    if b.is_ascii_lowercase() {
        b.to_ascii_uppercase()
    } else {
        b.to_ascii_lowercase()
    }
}

/// derived (mostly undeclared) name; all generated names are ASCII
fn mutate(s: &str, kind: u8, pos: u16) -> (String, &'static str) {
    let b = s.as_bytes();
    match kind % MUT_KINDS {
        0 => (s[..pick(pos, b.len())].to_string(), "mutant-prefix"),
        1 => {
            let suf = ["x", ".x", "0", ".", " ", "_", ".f0", ".M0"];
            (format!("{s}{}", suf[pick(pos, suf.len())]), "mutant-suffix")
        }
        2 => {
            let alpha: Vec<usize> = (0..b.len()).filter(|i| b[*i].is_ascii_alphabetic()).collect();
            if alpha.is_empty() {
                return (format!("{s}X"), "mutant-suffix");
            }
            let at = alpha[pick(pos, alpha.len())];
            let mut v = b.to_vec();
            v[at] = flip(v[at]);
            (String::from_utf8(v).unwrap_or_default(), "mutant-case")
        }
        3 => {
            // extra dot strictly inside or at the end (a leading dot is kind 4)
            let at = 1 + pick(pos, b.len());
            let at = at.min(b.len());
            (format!("{}.{}", &s[..at], &s[at..]), "mutant-extra-dot")
        }
        4 => (format!(".{s}"), "mutant-leading-dot"),
        5 => {
            let comps: Vec<&str> = s.split('.').collect();
            if comps.len() < 2 {
                return (format!("{s}.{s}"), "mutant-dup-component");
            }
            let drop = pick(pos, comps.len());
            let v: Vec<&str> = comps.iter().enumerate().filter(|(i, _)| *i != drop).map(|(_, c)| *c).collect();
            (v.join("."), "mutant-drop-component")
        }
        6 => {
            let comps: Vec<&str> = s.split('.').collect();
            let at = pick(pos, comps.len());
            let mut v = comps.clone();
            v.insert(at, comps[at]);
            (v.join("."), "mutant-dup-component")
        }
        7 => {
            let mut comps: Vec<&str> = s.split('.').collect();
            if comps.len() < 2 {
                return (format!("q.{s}"), "mutant-other-package");
            }
            let at = pick(pos, comps.len() - 1);
            comps.swap(at, at + 1);
            (comps.join("."), "mutant-swap-components")
        }
        _ => (s.to_string(), "cross-kind"),
    }
}

const OWN_PKG: [&str; 2] = ["grpc.reflection.v1", "grpc.reflection.v1alpha"];

fn queries(c: &Case, m: &Model, own_files: &[String; 2]) -> Vec<Query> {
    let same = |q: Q| [q.clone(), q];
    let mut v = vec![Query { q: same(Q::List), exp: Expect::Services, tag: "list" }];
    // every declared name of every file (unregistered files: must be unknown)
    let mut w = Walker {
        reuse: c.reuse,
        counter: 0,
        decls: vec![],
        values: vec![],
        services: vec![],
        max_depth: 0,
        nested_enum: false,
        oneofs: false,
        synthetic: false,
        prev_file: String::new(),
    };
    for (i, f) in c.files.iter().enumerate() {
        w.decls.clear();
        w.values.clear();
        let fd = w.file(i, f);
        let reg = m.registered[i];
        let fname = fd.name.clone().unwrap_or_default();
        v.push(Query {
            q: same(Q::File(fname.clone())),
            exp: classify_file(m, &fname),
            tag: if reg { "file" } else { "unregistered-file" },
        });
        for (n, k) in &w.decls {
            v.push(Query {
                q: same(Q::Sym(n.clone())),
                exp: classify_sym(m, n),
                tag: if reg { k.tag() } else { "unregistered-symbol" },
            });
        }
        for (a, b) in &w.values {
            for n in [a, b] {
                v.push(Query {
                    q: same(Q::Sym(n.clone())),
                    exp: classify_sym(m, n),
                    tag: if reg { "enum-value" } else { "unregistered-symbol" },
                });
            }
        }
    }
    // the service's own descriptor
    let own = |suffix: &str| [Q::Sym(format!("{}.{suffix}", OWN_PKG[0])), Q::Sym(format!("{}.{suffix}", OWN_PKG[1]))];
    let own_exp = if c.include_reflection { Expect::Own } else { Expect::NotFound };
    for suffix in [
        "ServerReflection",
        "ServerReflection.ServerReflectionInfo",
        "ServerReflectionRequest",
        "ServerReflectionRequest.host",
        "ServerReflectionRequest.message_request",
        "ErrorResponse.error_code",
    ] {
        v.push(Query { q: own(suffix), exp: own_exp.clone(), tag: "own-symbol" });
    }
    v.push(Query {
        q: [Q::File(own_files[0].clone()), Q::File(own_files[1].clone())],
        exp: own_exp,
        tag: "own-file",
    });
    // the other version's service is never registered
    v.push(Query {
        q: [
            Q::Sym(format!("{}.ServerReflection", OWN_PKG[1])),
            Q::Sym(format!("{}.ServerReflection", OWN_PKG[0])),
        ],
        exp: Expect::NotFound,
        tag: "other-version-symbol",
    });
    v.push(Query { q: same(Q::List), exp: Expect::Services, tag: "list" });
    // derived names, placed anywhere in the sequence
    if !m.pool.is_empty() {
        for mu in &c.mutants {
            let (base, is_file) = &m.pool[pick(mu.target, m.pool.len())];
            let (name, tag) = mutate(base, mu.kind, mu.pos);
            let as_file = if tag == "cross-kind" { !*is_file } else { *is_file };
            let (q, exp) = if as_file {
                (Q::File(name.clone()), classify_file(m, &name))
            } else {
                (Q::Sym(name.clone()), classify_sym(m, &name))
            };
            let at = pick(mu.at, v.len() + 1);
            v.insert(at, Query { q: same(q), exp, tag });
        }
    }
    v
}

// ------------------------------------------------------------------------------------ driving tonic

#[derive(Clone, Debug, PartialEq)]
enum Answer {
    /// decoded descriptors of a file_descriptor_response (None = bytes that do not decode)
    Files(Vec<Option<FileDescriptorProto>>),
    Services(Vec<String>),
    /// status that ended the stream (code, message)
    Status(i32, String),
    /// error_response inside the stream
    ErrorResp(i32, String),
    Other(String),
    /// the response stream ended cleanly before this request was answered
    Missing,
    Stuck,
}

const NOT_FOUND: i32 = 5;

impl Answer {
    fn is_not_found(&self) -> bool {
        matches!(self, Answer::Status(NOT_FOUND, _) | Answer::ErrorResp(NOT_FOUND, _))
    }
    fn brief(&self) -> String {
        match self {
            Answer::Files(f) => format!(
                "file_descriptor_response[{}]",
                f.iter()
                    .map(|d| d.as_ref().map(|d| d.name.clone().unwrap_or_default()).unwrap_or_else(|| "<undecodable>".into()))
                    .collect::<Vec<_>>()
                    .join(",")
            ),
            other => format!("{other:?}"),
        }
    }
}

/// Polls the inner future at most `left` more times; wakes itself so that the current-thread
/// runtime keeps running the spawned server task in between (no timers, no parking).
struct Budget<F> {
    f: Pin<Box<F>>,
    left: usize,
}
impl<F: Future> Future for Budget<F> {
    type Output = Result<F::Output, ()>;
    fn poll(mut self: Pin<&mut Self>, cx: &mut Context<'_>) -> Poll<Self::Output> {
        match self.f.as_mut().poll(cx) {
            Poll::Ready(v) => Poll::Ready(Ok(v)),
            Poll::Pending => {
                if self.left == 0 {
                    return Poll::Ready(Err(()));
                }
                self.left -= 1;
                cx.waker().wake_by_ref();
                Poll::Pending
            }
        }
    }
}
fn budget<F: Future>(f: F) -> Budget<F> {
    Budget { f: Box::pin(f), left: 20_000 }
}

fn builder<'a>(c: &Case, m: &'a Model) -> tonic_reflection::server::Builder<'a> {
    let mut b = tonic_reflection::server::Builder::configure();
    let (mut si, mut ei) = (0, 0);
    for enc in &m.set_is_encoded {
        if *enc {
            b = b.register_encoded_file_descriptor_set(&m.encoded_sets[ei]);
            ei += 1;
        } else {
            b = b.register_file_descriptor_set(m.struct_sets[si].clone());
            si += 1;
        }
    }
    for n in chosen_names(c, m) {
        b = b.with_service_name(n);
    }
    // the default is `true`; only call the setter when turning it off or (sometimes) redundantly on
    if !c.include_reflection {
        b = b.include_reflection_service(false);
    } else if c.batch % 2 == 1 {
        b = b.include_reflection_service(true);
    }
    b
}

macro_rules! version_driver {
    ($fname:ident, $build:ident, $ver:ident, $idx:expr) => {
        fn $fname(c: &Case, m: &Model, qs: &[Query]) -> Result<Vec<Answer>, Failure> {
            use tonic_reflection::pb::$ver as pb;
            use pb::server_reflection_request::MessageRequest as Rq;
            use pb::server_reflection_response::MessageResponse as Rs;
            let svc = match builder(c, m).$build() {
                Ok(s) => s,
                Err(e) => bail!(
                    concat!("C19/build-error/", stringify!($ver)),
                    "Builder::{} failed for well-formed descriptor sets: {e}",
                    stringify!($build)
                ),
            };
            let mut client = pb::server_reflection_client::ServerReflectionClient::new(svc);
            let rt = tokio::runtime::Builder::new_current_thread().build().expect("runtime");
            let to_req = |q: &Query| pb::ServerReflectionRequest {
                host: "h".to_string(),
                message_request: Some(match &q.q[$idx] {
                    Q::Sym(s) => Rq::FileContainingSymbol(s.clone()),
                    Q::File(s) => Rq::FileByFilename(s.clone()),
                    Q::List => Rq::ListServices(String::new()),
                }),
            };
            let convert = |r: pb::ServerReflectionResponse| match r.message_response {
                Some(Rs::FileDescriptorResponse(f)) => Answer::Files(
                    f.file_descriptor_proto.iter().map(|b| FileDescriptorProto::decode(&b[..]).ok()).collect(),
                ),
                Some(Rs::ListServicesResponse(l)) => Answer::Services(l.service.into_iter().map(|s| s.name).collect()),
                Some(Rs::ErrorResponse(e)) => Answer::ErrorResp(e.error_code, e.error_message),
                Some(Rs::AllExtensionNumbersResponse(_)) => Answer::Other("all_extension_numbers_response".into()),
                None => Answer::Other("response without message_response".into()),
            };
            let status = |s: tonic::Status| Answer::Status(s.code() as i32, s.message().to_string());
            let out = rt.block_on(async {
                let mut out: Vec<Answer> = Vec::with_capacity(qs.len());
                while out.len() < qs.len() {
                    let start = out.len();
                    let end = if c.batch == 0 { qs.len() } else { (start + c.batch as usize).min(qs.len()) };
                    let reqs: Vec<pb::ServerReflectionRequest> = qs[start..end].iter().map(to_req).collect();
                    let n = reqs.len();
                    let call = budget(client.server_reflection_info(tokio_stream::iter(reqs))).await;
                    let mut st = match call {
                        Err(()) => {
                            out.push(Answer::Stuck);
                            return out;
                        }
                        Ok(Err(s)) => {
                            // trailers-only: the status answers the first request of the batch
                            out.push(status(s));
                            continue;
                        }
                        Ok(Ok(resp)) => resp.into_inner(),
                    };
                    let mut got = 0;
                    while got < n {
                        got += 1;
                        match budget(st.message()).await {
                            Err(()) => {
                                out.push(Answer::Stuck);
                                return out;
                            }
                            Ok(Ok(Some(r))) => out.push(convert(r)),
                            Ok(Ok(None)) => {
                                out.push(Answer::Missing);
                                break;
                            }
                            Ok(Err(s)) => {
                                // a status ends the stream; the remaining requests go into a new call
                                out.push(status(s));
                                break;
                            }
                        }
                    }
                }
                out
            });
            Ok(out)
        }
    };
}
version_driver!(drive_v1, build_v1, v1, 0);
version_driver!(drive_v1alpha, build_v1alpha, v1alpha, 1);

fn own_file(set: &[u8]) -> Option<FileDescriptorProto> {
    FileDescriptorSet::decode(set).ok()?.file.into_iter().next()
}

// ------------------------------------------------------------------------------------ oracle

fn sorted(mut v: Vec<String>) -> Vec<String> {
    v.sort();
    v
}

fn judge(
    ver: usize,
    c: &Case,
    m: &Model,
    own: &FileDescriptorProto,
    qs: &[Query],
    ans: &[Answer],
    o: &mut Outcome,
) -> Result<(), Failure> {
    let vname = ["v1", "v1alpha"][ver];
    let mut pair_found = vec![false; m.value_pairs];
    let mut pair_asked = vec![false; m.value_pairs];
    for (i, q) in qs.iter().enumerate() {
        let what = format!("{vname} request #{i} {:?} ({})", q.q[ver], q.tag);
        let a = match ans.get(i) {
            None | Some(Answer::Stuck) => bail!(
                format!("C19/stuck/{}", q.tag),
                "{what}: no answer within the poll budget (answers so far: {})",
                ans.len()
            ),
            Some(a) => a,
        };
        ensure!(
            !matches!(a, Answer::Missing),
            format!("C19/no-answer/{}", q.tag),
            "{what}: the response stream ended without answering"
        );
        if let Answer::Files(fs) = a {
            ensure!(
                !fs.is_empty() && fs.iter().all(|f| f.is_some()),
                format!("C19/descriptor-undecodable/{}", q.tag),
                "{what}: file_descriptor_response with {} entries, {} of which do not decode as FileDescriptorProto",
                fs.len(),
                fs.iter().filter(|f| f.is_none()).count()
            );
        }
        if a.is_not_found() {
            o.label(if matches!(a, Answer::Status(..)) { "not_found_as_status" } else { "not_found_as_error_response" });
        }
        match &q.exp {
            Expect::File(f) => {
                let want = &m.protos[*f];
                let is_file = matches!(q.q[ver], Q::File(_));
                match a {
                    Answer::Files(fs) => ensure!(
                        fs.iter().any(|d| d.as_ref() == Some(want)),
                        format!("C19/{}/{}", if is_file { "file-mismatch" } else { "symbol-wrong-file" }, q.tag),
                        "{what}: expected the registered descriptor of {:?}, got {}",
                        want.name,
                        a.brief()
                    ),
                    _ => bail!(
                        format!("C19/{}/{}", if is_file { "file-not-retrievable" } else { "symbol-not-resolved" }, q.tag),
                        "{what}: declared in registered file {:?} but the answer is {}",
                        want.name,
                        a.brief()
                    ),
                }
            }
            Expect::Value(f, p) => {
                pair_asked[*p] = true;
                let want = &m.protos[*f];
                match a {
                    Answer::Files(fs) => {
                        ensure!(
                            fs.iter().any(|d| d.as_ref() == Some(want)),
                            "C19/symbol-wrong-file/enum-value",
                            "{what}: expected the registered descriptor of {:?}, got {}",
                            want.name,
                            a.brief()
                        );
                        pair_found[*p] = true;
                        let Q::Sym(s) = &q.q[ver] else { unreachable!() };
                        let scoped_by_enum = m.values.iter().any(|(k, v)| v.1 == *p && k.len() > s.len());
                        o.label(if scoped_by_enum { "enum_value_as_sibling_of_enum" } else { "enum_value_under_enum_name" });
                    }
                    a if a.is_not_found() => {}
                    _ => bail!(
                        "C19/symbol-not-resolved/enum-value",
                        "{what}: neither the declaring file nor NOT_FOUND: {}",
                        a.brief()
                    ),
                }
            }
            Expect::NotFound => match a {
                Answer::Files(_) | Answer::Services(_) | Answer::Other(_) => bail!(
                    format!("C19/unknown-resolved/{}", q.tag),
                    "{what}: not declared by any registered file, but the answer is {}",
                    a.brief()
                ),
                _ => ensure!(
                    a.is_not_found(),
                    format!("C19/unknown-not-NOT_FOUND/{}", q.tag),
                    "{what}: not declared by any registered file; expected NOT_FOUND, got {}",
                    a.brief()
                ),
            },
            Expect::Free => {}
            Expect::Services => {
                let chosen = chosen_names(c, m);
                let mut want = if chosen.is_empty() { m.services.clone() } else { chosen.clone() };
                if chosen.is_empty() && c.include_reflection {
                    want.push(format!("{}.ServerReflection", OWN_PKG[ver]));
                }
                match a {
                    Answer::Services(got) => ensure!(
                        sorted(got.clone()) == sorted(want.clone()),
                        format!("C19/service-list/{}", if chosen.is_empty() { "declared" } else { "chosen" }),
                        "{what}: service list {:?}, expected (as a multiset) {:?}",
                        got,
                        want
                    ),
                    _ => bail!("C19/service-list/no-list", "{what}: answer is {}", a.brief()),
                }
            }
            Expect::Own => match a {
                Answer::Files(fs) => ensure!(
                    fs.iter().any(|d| d.as_ref() == Some(own)),
                    format!("C19/symbol-wrong-file/{}", q.tag),
                    "{what}: expected the reflection service's own descriptor {:?}, got {}",
                    own.name,
                    a.brief()
                ),
                _ => bail!(
                    format!("C19/symbol-not-resolved/{}", q.tag),
                    "{what}: the reflection service is included but the answer is {}",
                    a.brief()
                ),
            },
        }
    }
    for p in 0..m.value_pairs {
        ensure!(
            !pair_asked[p] || pair_found[p],
            "C19/symbol-not-resolved/enum-value-any-spelling",
            "{vname}: enum value {:?} resolves under neither `scope.Enum.VALUE` nor `scope.VALUE`",
            m.values.iter().filter(|(_, v)| v.1 == p).map(|(k, _)| k.clone()).collect::<Vec<_>>()
        );
    }
    Ok(())
}

/// v1 and v1alpha give the same answers (status text and the service's own names aside)
fn normalise(a: &Answer, own: &FileDescriptorProto, ver: usize) -> Answer {
    match a {
        Answer::Status(code, _) => Answer::Status(*code, String::new()),
        Answer::ErrorResp(code, _) => Answer::ErrorResp(*code, String::new()),
        Answer::Files(fs) => Answer::Files(
            fs.iter()
                .map(|f| match f {
                    Some(f) if f == own => Some(FileDescriptorProto { name: Some("<own>".into()), ..Default::default() }),
                    other => other.clone(),
                })
                .collect(),
        ),
        Answer::Services(s) => Answer::Services(
            s.iter()
                .map(|n| if *n == format!("{}.ServerReflection", OWN_PKG[ver]) { "<own>".to_string() } else { n.clone() })
                .collect(),
        ),
        other => other.clone(),
    }
}

pub fn run(c: &Case, o: &mut Outcome) -> Result<(), Failure> {
    let m = model(c);
    let own = [
        own_file(tonic_reflection::pb::v1::FILE_DESCRIPTOR_SET),
        own_file(tonic_reflection::pb::v1alpha::FILE_DESCRIPTOR_SET),
    ];
    let [Some(own1), Some(own1a)] = own else {
        bail!("C19/own-descriptor", "tonic_reflection::pb::*::FILE_DESCRIPTOR_SET does not decode to a non-empty set");
    };
    let own_files = [own1.name.clone().unwrap_or_default(), own1a.name.clone().unwrap_or_default()];
    let qs = queries(c, &m, &own_files);

    // ---- classes
    let nreg = m.registered.iter().filter(|r| **r).count();
    o.label(match nreg {
        0 => "files=0",
        1 => "files=1",
        2 => "files=2",
        3 => "files=3",
        _ => "files=4",
    });
    for (i, f) in c.files.iter().enumerate() {
        if m.registered[i] {
            o.label(["pkg_none", "pkg_p", "pkg_p.q"][f.pkg as usize % 3]);
            o.label_if(f.pkg == 3, "pkg_present_but_empty");
        }
    }
    let pkgs: BTreeSet<u8> = c.files.iter().enumerate().filter(|(i, _)| m.registered[*i]).map(|(_, f)| f.pkg % 3).collect();
    o.label_if(nreg >= 2 && pkgs.len() < nreg, "shared_package");
    o.label_if(m.max_depth == 2, "depth=2");
    o.label_if(m.max_depth >= 3, "depth=3");
    o.label_if(m.nested_enum, "nested_enum");
    o.label_if(m.oneofs, "oneof");
    o.label_if(!m.services.is_empty(), "services");
    o.label_if(m.dup, "duplicate_file");
    o.label_if(m.protos.iter().enumerate().any(|(i, p)| m.registered[i] && !p.dependency.is_empty()), "imports");
    o.label_if(m.registered.iter().any(|r| !*r), "unregistered_file");
    o.label_if(c.sets.iter().filter(|s| !s.files.is_empty()).count() >= 2, "split_over_sets");
    o.label_if(c.sets.iter().any(|s| s.files.is_empty()), "empty_set");
    let (any_enc, any_struct) = (c.sets.iter().any(|s| s.enc), c.sets.iter().any(|s| !s.enc));
    o.label(match (any_enc, any_struct) {
        (true, true) => "encoded+struct",
        (true, false) => "encoded_only",
        _ => "struct_only",
    });
    o.label_if(!c.chosen.is_empty(), "with_service_name");
    o.label_if(!c.include_reflection, "reflection_excluded");
    o.label_if(c.reuse, "names_reused_across_scopes");
    o.label(match c.batch {
        0 => "one_stream",
        1 => "one_request_per_call",
        _ => "batched",
    });
    for q in &qs {
        if q.tag.starts_with("mutant") || q.tag == "cross-kind" {
            o.label(q.tag);
            match q.exp {
                Expect::NotFound => o.label("derived_name_unknown"),
                Expect::Free => o.label("derived_name_unconstrained"),
                _ => o.label("derived_name_declared"),
            }
        }
    }
    o.nontrivial = nreg >= 2 || m.max_depth >= 2 || m.nested_enum;

    // ---- run both versions
    let a1 = drive_v1(c, &m, &qs)?;
    judge(0, c, &m, &own1, &qs, &a1, o)?;
    let a1a = drive_v1alpha(c, &m, &qs)?;
    judge(1, c, &m, &own1a, &qs, &a1a, o)?;
    for (i, q) in qs.iter().enumerate() {
        let (x, y) = (normalise(&a1[i], &own1, 0), normalise(&a1a[i], &own1a, 1));
        let same = match (&x, &y) {
            (Answer::Services(a), Answer::Services(b)) => sorted(a.clone()) == sorted(b.clone()),
            _ => x == y || (x.is_not_found() && y.is_not_found()),
        };
        ensure!(
            same,
            format!("C19/versions-differ/{}", q.tag),
            "request #{i} {:?}: v1 answers {}, v1alpha answers {}",
            q.q,
            a1[i].brief(),
            a1a[i].brief()
        );
    }
    Ok(())
}

// ------------------------------------------------------------------------------------ prop

pub struct C19;
impl Prop for C19 {
    const ID: &'static str = "C19";
    type Case = Case;
    fn strategy() -> BoxedStrategy<Case> {
        strategy()
    }
    fn run(c: &Case, o: &mut Outcome) -> Result<(), Failure> {
        run(c, o)
    }
    fn rule() -> &'static str {
        "proptest over descriptor sets described as trees: 1-4 files (4 name styles, optionally importing the previous file; package none / p / p.q, shared or not) x 0-3 messages nested to depth 3 (0-3 fields, 0-2 oneofs, 0-2 nested enums) x 0-2 top-level enums (0-3 values) x 0-2 services (0-3 methods); simple names from a global counter or reused across scopes; registration plan = 1-3 sets, each encoded or struct, files split over them, a file registered twice (40%), a file left unregistered (12%); include_reflection_service on/off; with_service_name 0-3 names (declared or foreign, repeated). Requests through the generated v1 and v1alpha clients in-process (one stream / one per call / batches of 2-7): list_services twice, every file name, every declared fully-qualified name of every kind, both spellings of every enum value, the service's own symbols and file, the other version's service, and 0-10 derived names (prefix, suffix, case flip, extra dot, leading dot, dropped / duplicated / swapped component, symbol asked as file and vice versa) inserted anywhere in the sequence. Oracle: own walker over the tree gives name -> declaring file; answers must carry a descriptor that decodes equal to the registered one, unknown names NOT_FOUND (status or error_response), service list equal as a multiset, v1 == v1alpha after normalisation. Non-trivial: >=2 registered files, or nesting depth >=2, or a nested enum; distinct = distinct serialised case. Some nested messages carry the map_entry option and some fields are proto3_optional with their synthetic _field oneof (all of them declarations that must resolve). Every sixteenth file carries a 70 KB option string (descriptor > 64 KiB). A quarter of the files carry source_code_info (comments, spans)."
    }
    fn assumptions() -> Vec<String> {
        vec![
            "an enum value must resolve under at least one of `scope.Enum.VALUE` (tonic) / `scope.VALUE` (protobuf scoping); either spelling may also be NOT_FOUND".into(),
            "names with a leading dot, the empty symbol and bare package names (`p`, `p.q`) are only required to be answered without a panic, identically by both versions".into(),
            "NOT_FOUND may arrive as a stream-terminating Status or as an error_response message; after a terminating status the remaining requests are sent on a new call".into(),
            "a file_descriptor_response may contain further descriptors besides the declaring file (the protocol allows dependencies); every entry must decode".into(),
            "a file registered twice has identical content both times (differing content under one name is outside the domain)".into(),
        ]
    }
    fn cases(t: Tier) -> u64 {
        match t {
            Tier::Quick => 16_000,
            Tier::Thorough => 120_000,
        }
    }
    fn fixed_cases(_t: Tier) -> Vec<Case> {
        let leaf = MsgSpec { f: 2, o: 1, n: vec![], e: vec![2] };
        let deep = MsgSpec { f: 3, o: 2, n: vec![MsgSpec { f: 1, o: 0, n: vec![leaf.clone()], e: vec![1] }], e: vec![] };
        let mut v = vec![];
        for pkg in 0..3u8 {
            for reuse in [false, true] {
                for enc in [false, true] {
                    v.push(Case {
                        files: vec![
                            FileSpec { name: 0, pkg, m: vec![deep.clone(), leaf.clone()], e: vec![2], s: vec![2] },
                            FileSpec { name: 5, pkg: (pkg + 1) % 3, m: vec![leaf.clone()], e: vec![], s: vec![1, 0] },
                        ],
                        reuse,
                        sets: vec![SetSpec { enc, files: vec![0, 1] }, SetSpec { enc: !enc, files: vec![0] }],
                        include_reflection: pkg != 1,
                        chosen: vec![],
                        mutants: (0..MUT_KINDS)
                            .map(|k| Mutant { target: 7000 * k as u16, kind: k, pos: 30000, at: 65535 })
                            .collect(),
                        batch: if enc { 0 } else { 1 },
                    });
                }
            }
        }
        // nothing registered at all
        v.push(Case {
            files: vec![FileSpec { name: 0, pkg: 1, m: vec![leaf], e: vec![1], s: vec![1] }],
            reuse: false,
            sets: vec![],
            include_reflection: true,
            chosen: vec![],
            mutants: vec![],
            batch: 0,
        });
        v
    }
    fn from_bytes(data: &[u8]) -> Option<Case> {
        from_bytes(data)
    }
    fn fuzz(t: Tier) -> Option<FuzzSpec> {
        match t {
            Tier::Quick => None,
            Tier::Thorough => Some(FuzzSpec { target: "c19_reflection", runs: 24_000, max_len: 2048 }),
        }
    }
}

pub fn from_bytes(data: &[u8]) -> Option<Case> {
    use arbitrary::Unstructured;
    fn msg(u: &mut Unstructured<'_>, depth: u32) -> Option<MsgSpec> {
        let f = u.int_in_range(0u8..=3).ok()?;
        let o = u.int_in_range(0u8..=2).ok()?;
        let nn = if depth >= 3 { 0 } else { u.int_in_range(0usize..=2).ok()? };
        let mut n = vec![];
        for _ in 0..nn {
            n.push(msg(u, depth + 1)?);
        }
        let ne = u.int_in_range(0usize..=2).ok()?;
        let e = (0..ne).map(|_| u.int_in_range(0u8..=3).unwrap_or(1)).collect();
        Some(MsgSpec { f, o, n, e })
    }
    let mut u = Unstructured::new(data);
    let nfiles = u.int_in_range(1usize..=4).ok()?;
    let mut files = vec![];
    for _ in 0..nfiles {
        let name = u.int_in_range(0u8..=7).ok()?;
        let pkg = u.int_in_range(0u8..=2).ok()?;
        let nm = u.int_in_range(0usize..=3).ok()?;
        let mut m = vec![];
        for _ in 0..nm {
            m.push(msg(&mut u, 1)?);
        }
        let ne = u.int_in_range(0usize..=2).ok()?;
        let e = (0..ne).map(|_| u.int_in_range(0u8..=3).unwrap_or(1)).collect();
        let ns = u.int_in_range(0usize..=2).ok()?;
        let s = (0..ns).map(|_| u.int_in_range(0u8..=3).unwrap_or(1)).collect();
        files.push(FileSpec { name, pkg, m, e, s });
    }
    let reuse = u.arbitrary::<bool>().ok()?;
    let nsets = u.int_in_range(0usize..=3).ok()?;
    let mut sets = vec![];
    for _ in 0..nsets {
        let enc = u.arbitrary::<bool>().ok()?;
        let k = u.int_in_range(0usize..=4).ok()?;
        let fs = (0..k).map(|_| u.int_in_range(0u8..=(nfiles as u8 - 1)).unwrap_or(0)).collect();
        sets.push(SetSpec { enc, files: fs });
    }
    let include_reflection = u.arbitrary::<bool>().ok()?;
    let nc = u.int_in_range(0usize..=3).ok()?;
    let chosen = (0..nc).map(|_| u.arbitrary::<u16>().unwrap_or(0)).collect();
    let batch = u.int_in_range(0u8..=7).ok()?;
    let nm = u.int_in_range(0usize..=10).ok()?;
    let mutants = (0..nm)
        .map(|_| Mutant {
            target: u.arbitrary().unwrap_or(0),
            kind: u.int_in_range(0u8..=MUT_KINDS - 1).unwrap_or(0),
            pos: u.arbitrary().unwrap_or(0),
            at: u.arbitrary().unwrap_or(0),
        })
        .collect();
    Some(Case { files, reuse, sets, include_reflection, chosen, mutants, batch })
}
