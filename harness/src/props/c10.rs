//! C10 – requests reach exactly the method named by the path, else UNIMPLEMENTED.
//!
//! Configuration = ordered subset of the 10-service pool (adversarial names: prefixes of one
//! another, case variants, package that looks like another service), each member optionally wrapped
//! (InterceptedService / Layered, nested) and registered through `Routes::new/add_service`,
//! `Routes::default().add_service` or `RoutesBuilder`, optionally `.prepare()`d. Every request is sent
//! to the router built in the given order *and* to a second one built in a permuted order.
//! Oracle: a string-equality table built from the pool constants (no tonic/axum code).
use crate::infra::blob::{hex, Blob};
use crate::infra::driver::{block_on_budget, poll_budget};
use crate::infra::gen;
use crate::infra::runner::*;
use crate::infra::wire;
use crate::svc::pool::{self, POOL, POOL_METHODS};
use crate::svc::RawMsg;
use crate::{bail, ensure};
use bytes::Bytes;
use http_body_util::{BodyExt, Full};
use proptest::prelude::*;
use serde::{Deserialize, Serialize};
use std::sync::{Arc, Mutex};
use tonic::service::interceptor::{InterceptedService, InterceptorLayer};
use tonic::service::{LayerExt, Routes, RoutesBuilder};
use tonic::{Request, Response, Status};

pub const N_WRAP: u8 = 5;
const BUDGET: usize = 20_000;

#[derive(Clone, Debug, Serialize, Deserialize, PartialEq, Eq)]
pub enum Req {
    /// literal path-and-query
    P(String),
    /// every one-edit mutant (delete / insert / replace over `EDIT_ALPHABET`, adjacent swap) of the
    /// exact path of (pool index, method index)
    Edits(u8, u8),
    /// every entry of the shape table applied to the exact path of (pool index, method index)
    Shapes(u8, u8),
    /// the 40 exact paths of all pool members
    AllExact,
}

#[derive(Clone, Debug, Serialize, Deserialize)]
pub struct Case {
    /// (pool index, wrapper kind 0..5) in registration order; pool indices are distinct
    pub reg: Vec<(u8, u8)>,
    /// low 2 bits: 0 `Routes::new` + `add_service`, 1 `Routes::default()` + `add_service`,
    /// 2 `RoutesBuilder` (3 = 0); bit 2: call `.prepare()`
    pub how: u8,
    /// second registration order: 0 = reversed, k = rotated left by k (mod len), odd k also swaps
    /// the first two
    pub perm: u8,
    /// request-target form: 0 origin-form, 1 `http://h` + path, 2 `https://a.S:50051` + path
    pub form: u8,
    pub reqs: Vec<Req>,
    pub payload: Blob,
    /// Some(mask): register through `tonic::transport::Server::builder()` (`add_service`, or
    /// `add_optional_service(Some)` for odd wrapper kinds; pool members NOT in `reg` whose bit is set in the mask
    /// are passed as `add_optional_service(None)` in between) and send the requests over a real HTTP/2
    /// connection on the in-memory pipe
    #[serde(default)]
    pub transport: Option<u16>,
}

// ------------------------------------------------------------------ reference model

pub fn full_name(i: u8) -> String {
    let (pkg, name) = POOL[i as usize];
    if pkg.is_empty() {
        name.to_string()
    } else {
        format!("{pkg}.{name}")
    }
}
pub fn exact_path(i: u8, m: u8) -> String {
    format!("/{}/{}", full_name(i), POOL_METHODS[m as usize])
}
/// path component of a path-and-query string: everything before the first `?`
fn path_of(pq: &str) -> &str {
    match pq.find('?') {
        Some(i) => &pq[..i],
        None => pq,
    }
}
/// The whole oracle: string equality against the table of registered exact paths.
fn model(reg: &[(u8, u8)], path: &str) -> Option<(u8, u8)> {
    for (i, _) in reg {
        for m in 0..POOL_METHODS.len() as u8 {
            if exact_path(*i, m) == path {
                return Some((*i, m));
            }
        }
    }
    None
}

fn one_edit(a: &[char], b: &[char]) -> bool {
    if a == b {
        return false;
    }
    let (a, b) = if a.len() <= b.len() { (a, b) } else { (b, a) };
    match b.len() - a.len() {
        0 => {
            let diff: Vec<usize> = (0..a.len()).filter(|&i| a[i] != b[i]).collect();
            diff.len() == 1 || (diff.len() == 2 && diff[1] == diff[0] + 1 && a[diff[0]] == b[diff[1]] && a[diff[1]] == b[diff[0]])
        }
        1 => {
            let mut i = 0;
            while i < a.len() && a[i] == b[i] {
                i += 1;
            }
            a[i..] == b[i + 1..]
        }
        _ => false,
    }
}

#[derive(Default, Clone, Copy)]
struct Near {
    one_edit: bool,
    case_only: bool,
    path_is_prefix: bool,
    path_extends: bool,
}
impl Near {
    fn any(&self) -> bool {
        self.one_edit || self.case_only || self.path_is_prefix || self.path_extends
    }
    fn tag(&self) -> &'static str {
        if self.case_only {
            "case-mutant"
        } else if self.path_extends {
            "extends-registered"
        } else if self.path_is_prefix {
            "prefix-of-registered"
        } else if self.one_edit {
            "one-edit"
        } else {
            "far"
        }
    }
}
fn nearness(reg: &[(u8, u8)], path: &str) -> Near {
    let mut n = Near::default();
    let pc: Vec<char> = path.chars().collect();
    for (i, _) in reg {
        for m in 0..POOL_METHODS.len() as u8 {
            let e = exact_path(*i, m);
            if e == path {
                continue;
            }
            let ec: Vec<char> = e.chars().collect();
            n.one_edit |= one_edit(&pc, &ec);
            n.case_only |= e.eq_ignore_ascii_case(path) || e.to_lowercase() == path.to_lowercase() || e.to_uppercase() == path.to_uppercase();
            n.path_is_prefix |= !path.is_empty() && e.starts_with(path);
            n.path_extends |= path.starts_with(&e);
        }
    }
    n
}
fn prefix_related(reg: &[(u8, u8)]) -> bool {
    for (a, _) in reg {
        for (b, _) in reg {
            if a != b && full_name(*b).starts_with(&full_name(*a)) {
                return true;
            }
        }
    }
    false
}

// ------------------------------------------------------------------ path families

pub const EDIT_ALPHABET: &[char] = &[
    'S', 's', 'v', 'a', 'A', 'b', 'T', 't', 'M', 'm', '2', '.', '/', '%', '?', 'x', '-', '_', '~', '*', ':', ';', '=', '@', '+', '&', '{', '}', '0', '\u{17f}', '\u{e9}', '\u{212a}',
];
const QUERIES: &[&str] = &["?", "?x=1", "?a=b&c=d", "?/S/M", "??", "?%2F", "?x/y", "?/"];
const VOCAB: &[&str] = &[
    "S", "s", "Sv", "a", "A", "a.S", "a.Sv", "a.s", "A.S", "a.S.Tt", "a.b.S", "ab.S", "a.b", "ab", "Tt", "b", "M", "m", "Mm", "M2", "", ".", "..", "x", "S.M", "a.S.M", "*", "S/M", "%53", "{*rest}", "{S}",
];
pub const N_SHAPES: u8 = 44;

/// shape table: segment-level mutants of the exact path `/F/M`
pub fn shape(i: u8, m: u8, k: u8) -> String {
    let f = full_name(i);
    let me = POOL_METHODS[m as usize];
    let e = exact_path(i, m);
    match k {
        0 => format!("{e}/x"),
        1 => format!("/{e}"),
        2 => format!("/{f}//{me}"),
        3 => format!("{e}/"),
        4 => format!("/{f}/"),
        5 => format!("/{f}"),
        6 => "/".to_string(),
        7 => format!("{e}/{me}"),
        8 => format!("/.{e}"),
        9 => format!("/{f}/./{me}"),
        10 => format!("/{f}/..{e}"),
        11 => format!("/x/..{e}"),
        12 => format!("{e}/.."),
        13 => format!("{e}/."),
        14 => format!("{e}%2F"),
        15 => format!("/{f}%2F{me}"),
        16 => format!("/{f}%2f{me}"),
        17 => format!("{e};v=1"),
        18 => format!("{e}%00"),
        19 => format!("{e}%20"),
        20 => format!("{e}."),
        21 => format!("/{f}.{me}"),
        22 => format!("{e}{e}"),
        23 => format!("/{me}/{f}"),
        24 => format!("/{f}{e}"),
        25 => "*".to_string(),
        26 => format!("/{f}/*"),
        27 => format!("/{f}/{{*rest}}"),
        28 => format!("/{{{f}}}/{me}"),
        29 => format!("{e}//"),
        30 => "///".to_string(),
        31 => format!("/{f}/m/../{me}"),
        32 => format!("/{}/{me}", f.replace('.', "/")),
        33 => format!("/{}/{me}", f.replace('.', "%2E")),
        34 => format!("{e}%3Fx"),
        35 => format!("{e}&x"),
        36 => e.to_uppercase(),
        37 => e.to_lowercase(),
        38 => format!("/%2F{f}/{me}"),
        39 => format!("{e}?{e}x"),
        40 => format!("/{f}/{me}x"),
        41 => format!("/x{f}/{me}"),
        42 => format!("/{f}x/{me}"),
        _ => format!("/{f}/x{me}"),
    }
}

/// one edit at a position >= 1: the leading '/' is kept because `http::Uri` cannot represent a
/// request path that does not start with '/' (other than "*"), so such strings can never reach a server
fn apply_edit(base: &str, pos: u16, op: u8, ch: char) -> String {
    let mut c: Vec<char> = base.chars().collect();
    let n = c.len() - 1; // editable characters (base always starts with '/')
    match op % 5 {
        0 if n >= 1 => {
            c.remove(1 + gen::pick(pos, n));
        }
        1 => c.insert(1 + gen::pick(pos, n + 1), ch),
        2 if n >= 1 => {
            let p = 1 + gen::pick(pos, n);
            c[p] = ch;
        }
        3 if n >= 2 => {
            let p = 1 + gen::pick(pos, n - 1);
            c.swap(p, p + 1);
        }
        4 if n >= 1 => {
            let p = 1 + gen::pick(pos, n);
            c.insert(p, c[p]);
        }
        _ => c.push(ch),
    }
    c.into_iter().collect()
}

fn flip_case(c: char) -> char {
    if c.is_ascii_uppercase() {
        c.to_ascii_lowercase()
    } else {
        c.to_ascii_uppercase()
    }
}

pub fn all_edits(i: u8, m: u8) -> Vec<String> {
    let base: Vec<char> = exact_path(i, m).chars().collect();
    let mut out: Vec<String> = vec![];
    for p in 1..base.len() {
        let mut d = base.clone();
        d.remove(p);
        out.push(d.into_iter().collect());
        for ch in EDIT_ALPHABET {
            let mut r = base.clone();
            r[p] = *ch;
            out.push(r.into_iter().collect());
        }
        if p + 1 < base.len() {
            let mut s = base.clone();
            s.swap(p, p + 1);
            out.push(s.into_iter().collect());
        }
    }
    for p in 1..=base.len() {
        for ch in EDIT_ALPHABET {
            let mut r = base.clone();
            r.insert(p, *ch);
            out.push(r.into_iter().collect());
        }
    }
    out.sort();
    out.dedup();
    out
}

fn expand(r: &Req) -> Vec<String> {
    match r {
        Req::P(s) => vec![s.clone()],
        Req::Edits(i, m) => all_edits(i % POOL.len() as u8, m % POOL_METHODS.len() as u8),
        Req::AllExact => (0..POOL.len() as u8).flat_map(|i| (0..POOL_METHODS.len() as u8).map(move |m| exact_path(i, m))).collect(),
        Req::Shapes(i, m) => (0..N_SHAPES).map(|k| shape(i % POOL.len() as u8, m % POOL_METHODS.len() as u8, k)).collect(),
    }
}

fn base_strategy() -> impl Strategy<Value = (u8, u8)> {
    (0..POOL.len() as u8, 0..POOL_METHODS.len() as u8)
}
fn edit_char() -> impl Strategy<Value = char> {
    proptest::sample::select(EDIT_ALPHABET)
}

fn path_strategy() -> BoxedStrategy<String> {
    let exact = base_strategy().prop_map(|(i, m)| exact_path(i, m));
    let edit1 = (base_strategy(), any::<u16>(), 0u8..5, edit_char()).prop_map(|((i, m), pos, op, ch)| apply_edit(&exact_path(i, m), pos, op, ch));
    let edit2 = (base_strategy(), any::<u16>(), 0u8..5, edit_char(), any::<u16>(), 0u8..5, edit_char())
        .prop_map(|((i, m), p1, o1, c1, p2, o2, c2)| apply_edit(&apply_edit(&exact_path(i, m), p1, o1, c1), p2, o2, c2));
    let case = (base_strategy(), any::<u16>(), 0u8..4).prop_map(|((i, m), pos, mode)| {
        let e = exact_path(i, m);
        match mode {
            0 => e.to_uppercase(),
            1 => e.to_lowercase(),
            _ => {
                // flip one letter
                let mut c: Vec<char> = e.chars().collect();
                let letters: Vec<usize> = (0..c.len()).filter(|&k| c[k].is_ascii_alphabetic()).collect();
                let p = letters[gen::pick(pos, letters.len())];
                c[p] = flip_case(c[p]);
                c.into_iter().collect()
            }
        }
    });
    let shaped = (base_strategy(), 0..N_SHAPES).prop_map(|((i, m), k)| shape(i, m, k));
    let pct = (base_strategy(), any::<u16>(), any::<bool>()).prop_map(|((i, m), pos, upper)| {
        let e = exact_path(i, m);
        let b = e.as_bytes();
        let p = 1 + gen::pick(pos, b.len() - 1);
        let enc = if upper { format!("%{:02X}", b[p]) } else { format!("%{:02x}", b[p]) };
        format!("{}{}{}", &e[..p], enc, &e[p + 1..])
    });
    let vocab = proptest::collection::vec(proptest::sample::select(VOCAB), 0..=4).prop_map(|v| format!("/{}", v.join("/")));
    let rawc = proptest::collection::vec("[A-Za-z0-9._~%*:;=@+&-]{0,4}", 0..=4).prop_map(|v| format!("/{}", v.join("/")));
    let path = prop_oneof![
        5 => exact,
        6 => edit1,
        1 => edit2,
        2 => case,
        4 => shaped,
        2 => pct,
        3 => vocab,
        1 => rawc,
    ];
    (path, prop_oneof![4 => Just(""), 1 => proptest::sample::select(QUERIES)])
        .prop_map(|(p, q)| format!("{p}{q}"))
        .boxed()
}

pub fn strategy() -> BoxedStrategy<Case> {
    // membership per pool service with a per-case inclusion probability (0: nothing registered,
    // 1: the full pool); every member shrinks to "absent" individually
    let subset = prop_oneof![1 => Just(0.0f64), 2 => Just(0.15), 2 => Just(0.3), 3 => Just(0.6), 2 => Just(1.0)]
        .prop_flat_map(|p| proptest::collection::vec(proptest::bool::weighted(p), POOL.len()))
        .prop_map(|keep| (0..POOL.len() as u8).filter(|i| keep[*i as usize]).collect::<Vec<u8>>())
        .prop_shuffle();
    let wraps = proptest::collection::vec(prop_oneof![3 => Just(0u8), 4 => 1u8..N_WRAP], POOL.len());
    (
        subset,
        wraps,
        (0u8..3, any::<bool>()),
        prop_oneof![2 => Just(0u8), 3 => 1u8..=10],
        prop_oneof![4 => Just(0u8), 1 => Just(1u8), 1 => Just(2u8)],
        proptest::collection::vec(path_strategy(), 1..=8),
        prop_oneof![1 => Just(Blob::Hex(String::new())), 3 => crate::infra::blob::small_bytes(12)],
        proptest::option::weighted(0.02, any::<u16>()),
    )
        .prop_map(|(subset, wraps, (h, prep), perm, form, paths, payload, transport)| Case {
            transport,
            reg: subset.iter().map(|i| (*i, wraps[*i as usize])).collect(),
            how: h | if prep { 4 } else { 0 },
            perm,
            form,
            reqs: paths.into_iter().map(Req::P).collect(),
            payload,
        })
        .boxed()
}

// ------------------------------------------------------------------ recording handlers + registration

type Log = Arc<Mutex<Vec<(u8, u8, Vec<u8>)>>>;

fn hit(log: &Log, svc: u8, m: u8, r: Request<RawMsg>) -> Result<Response<RawMsg>, Status> {
    let msg = r.into_inner();
    log.lock().unwrap().push((svc, m, msg.clone()));
    Ok(Response::new(msg))
}

/// method index used in the log for "the interceptor wrapped around service `svc` ran"
const ICPT: u8 = 255;

/// Identity interceptor that records that it was reached: a request that is routed into a service's wrapper
/// has reached that service, whatever the wrapper then answers.
#[derive(Clone)]
struct LogIcpt(Log, u8);
impl tonic::service::Interceptor for LogIcpt {
    fn call(&mut self, r: Request<()>) -> Result<Request<()>, Status> {
        self.0.lock().unwrap().push((self.1, ICPT, vec![]));
        Ok(r)
    }
}

enum Sink {
    /// `Routes::new(first).add_service(..)`
    New(Option<Routes>),
    /// `Routes::default().add_service(..)`
    Dflt(Routes),
    Builder(RoutesBuilder),
}
impl Sink {
    fn finish(self, prepare: bool) -> Routes {
        let r = match self {
            Sink::New(r) => r.unwrap_or_default(),
            Sink::Dflt(r) => r,
            Sink::Builder(b) => b.routes(),
        };
        if prepare {
            r.prepare()
        } else {
            r
        }
    }
}

macro_rules! put {
    ($sink:expr, $svc:expr) => {
        match $sink {
            Sink::New(slot) => {
                *slot = Some(match slot.take() {
                    None => Routes::new($svc),
                    Some(r) => r.add_service($svc),
                });
            }
            Sink::Dflt(r) => {
                let t = std::mem::take(r);
                *r = t.add_service($svc);
            }
            Sink::Builder(b) => {
                b.add_service($svc);
            }
        }
    };
}

macro_rules! pool_handlers {
    ($( $idx:literal => $modn:ident :: $srvmod:ident :: { $tr:ident, $server:ident } as $h:ident ),* $(,)?) => {
        $(
            #[derive(Clone)]
            struct $h(Log);
            #[tonic::async_trait]
            impl pool::$modn::$srvmod::$tr for $h {
                async fn m_upper(&self, r: Request<RawMsg>) -> Result<Response<RawMsg>, Status> { hit(&self.0, $idx, 0, r) }
                async fn m_lower(&self, r: Request<RawMsg>) -> Result<Response<RawMsg>, Status> { hit(&self.0, $idx, 1, r) }
                async fn mm(&self, r: Request<RawMsg>) -> Result<Response<RawMsg>, Status> { hit(&self.0, $idx, 2, r) }
                async fn m2(&self, r: Request<RawMsg>) -> Result<Response<RawMsg>, Status> { hit(&self.0, $idx, 3, r) }
            }
        )*
        /// wrapper kinds: 0 bare generated server; 1 InterceptedService; 2 Layered(InterceptorLayer);
        /// 3 Layered(Identity) around InterceptedService; 4 InterceptedService around Layered(Identity)
        fn register(sink: &mut Sink, idx: u8, wrap: u8, log: &Log) {
            match (idx, wrap % N_WRAP) {
                $(
                    ($idx, 0) => put!(sink, pool::$modn::$srvmod::$server::new($h(log.clone()))),
                    ($idx, 1) => put!(sink, InterceptedService::new(pool::$modn::$srvmod::$server::new($h(log.clone())), LogIcpt(log.clone(), $idx))),
                    ($idx, 2) => put!(sink, InterceptorLayer::new(LogIcpt(log.clone(), $idx)).named_layer(pool::$modn::$srvmod::$server::new($h(log.clone())))),
                    ($idx, 3) => put!(sink, tower_layer::Identity::new().named_layer(pool::$modn::$srvmod::$server::with_interceptor($h(log.clone()), LogIcpt(log.clone(), $idx)))),
                    ($idx, _) => put!(sink, InterceptedService::new(tower_layer::Identity::new().named_layer(pool::$modn::$srvmod::$server::new($h(log.clone()))), LogIcpt(log.clone(), $idx))),
                )*
                _ => unreachable!("pool index out of range"),
            }
        }
        /// kind: 1 add_service, 2 add_optional_service(Some(..)), 3 add_optional_service(None)
        fn register_router(r: TRouter, idx: u8, kind: u8, log: &Log) -> TRouter {
            match (idx, kind) {
                $(
                    ($idx, 1) => r.add_service(pool::$modn::$srvmod::$server::new($h(log.clone()))),
                    ($idx, 2) => r.add_optional_service(Some(pool::$modn::$srvmod::$server::new($h(log.clone())))),
                    ($idx, _) => r.add_optional_service(None::<pool::$modn::$srvmod::$server<$h>>),
                )*
                _ => unreachable!("pool index out of range"),
            }
        }
    };
}
type TRouter = tonic::transport::server::Router;

pool_handlers! {
    0 => pool0::s_server::{S, SServer} as H0,
    1 => pool1::s_server::{s, sServer} as H1,
    2 => pool2::sv_server::{Sv, SvServer} as H2,
    3 => pool3::s_server::{S, SServer} as H3,
    4 => pool4::sv_server::{Sv, SvServer} as H4,
    5 => pool5::s_server::{s, sServer} as H5,
    6 => pool6::s_server::{S, SServer} as H6,
    7 => pool7::tt_server::{Tt, TtServer} as H7,
    8 => pool8::s_server::{S, SServer} as H8,
    9 => pool9::s_server::{S, SServer} as H9,
}

fn build(reg: &[(u8, u8)], how: u8, log: &Log) -> Routes {
    let mut sink = match how & 3 {
        1 => Sink::Dflt(Routes::default()),
        2 => Sink::Builder(Routes::builder()),
        _ => Sink::New(None),
    };
    for (i, w) in reg {
        register(&mut sink, *i, *w, log);
    }
    sink.finish(how & 4 != 0)
}

fn second_order(reg: &[(u8, u8)], perm: u8) -> Vec<(u8, u8)> {
    let mut v = reg.to_vec();
    if v.len() < 2 {
        return v;
    }
    if perm == 0 {
        v.reverse();
    } else {
        let k = perm as usize % v.len();
        v.rotate_left(k);
        if perm % 2 == 1 {
            v.swap(0, 1);
        }
    }
    v
}

// ------------------------------------------------------------------ driving one request

fn make_uri(pq: &str, form: u8) -> Option<http::Uri> {
    if pq.starts_with('/') {
        let s = match form % 3 {
            0 => pq.to_string(),
            1 => format!("http://h{pq}"),
            _ => format!("https://a.S:50051{pq}"),
        };
        http::Uri::try_from(s).ok()
    } else if pq == "*" {
        http::Uri::try_from("*").ok()
    } else {
        // not expressible as a request-target; only reachable by a URI-rewriting layer
        let p = http::uri::PathAndQuery::try_from(pq).ok()?;
        let mut parts = http::uri::Parts::default();
        parts.path_and_query = Some(p);
        http::Uri::from_parts(parts).ok()
    }
}

#[derive(Debug, Clone, PartialEq, Eq)]
struct Seen {
    http_status: u16,
    content_type: Option<Vec<u8>>,
    /// all grpc-status values, headers first then trailers
    grpc_status: Vec<Vec<u8>>,
    body: Vec<u8>,
    log: Vec<(u8, u8, Vec<u8>)>,
}

fn drive(routes: &mut Routes, uri: http::Uri, payload: &[u8], log: &Log) -> Result<Seen, Failure> {
    log.lock().unwrap().clear();
    let body = tonic::body::Body::new(Full::new(Bytes::from(wire::frame(0, payload))));
    let mut req = http::Request::new(body);
    *req.method_mut() = http::Method::POST;
    *req.version_mut() = http::Version::HTTP_2;
    *req.uri_mut() = uri;
    // the request's content-type may name the message format (gRPC allows application/grpc[+format]); which
    // spelling is used follows from the payload so that both registration orders see the same request
    let ct = ["application/grpc", "application/grpc+proto", "application/grpc", "application/grpc+json"][payload.len() % 4];
    req.headers_mut().insert("content-type", http::HeaderValue::from_static(ct));
    req.headers_mut().insert("te", http::HeaderValue::from_static("trailers"));
    let ready = poll_budget(BUDGET, |cx| tower_service::Service::<http::Request<tonic::body::Body>>::poll_ready(routes, cx));
    ensure!(matches!(ready, Ok(Ok(()))), "C10/routes-not-ready", "Routes::poll_ready did not become ready");
    let fut = tower_service::Service::<http::Request<tonic::body::Body>>::call(routes, req);
    let resp = match block_on_budget(BUDGET, fut) {
        Ok(Ok(r)) => r,
        Ok(Err(e)) => match e {},
        Err(_) => bail!("C10/response-never-ready", "response future still pending after {BUDGET} polls"),
    };
    let (parts, body) = resp.into_parts();
    let collected = match block_on_budget(BUDGET, body.collect()) {
        Ok(Ok(c)) => c,
        Ok(Err(e)) => bail!("C10/response-body-error", "response body failed: {e}"),
        Err(_) => bail!("C10/response-body-never-ends", "response body still pending after {BUDGET} polls"),
    };
    let mut grpc_status: Vec<Vec<u8>> = parts.headers.get_all("grpc-status").iter().map(|v| v.as_bytes().to_vec()).collect();
    if let Some(t) = collected.trailers() {
        grpc_status.extend(t.get_all("grpc-status").iter().map(|v| v.as_bytes().to_vec()));
    }
    Ok(Seen {
        http_status: parts.status.as_u16(),
        content_type: parts.headers.get("content-type").map(|v| v.as_bytes().to_vec()),
        grpc_status,
        body: collected.to_bytes().to_vec(),
        log: log.lock().unwrap().clone(),
    })
}

fn show(s: &Seen) -> String {
    format!(
        "http {} content-type {:?} grpc-status {:?} body {} handlers {:?}",
        s.http_status,
        s.content_type.as_ref().map(|v| String::from_utf8_lossy(v).into_owned()),
        s.grpc_status.iter().map(|v| String::from_utf8_lossy(v).into_owned()).collect::<Vec<_>>(),
        hex(&s.body),
        s.log.iter().map(|(i, m, _)| if *m == ICPT { format!("{}::<interceptor>", full_name(*i)) } else { format!("{}::{}", full_name(*i), POOL_METHODS[*m as usize]) }).collect::<Vec<_>>()
    )
}

fn judge(reg: &[(u8, u8)], pq: &str, payload: &[u8], seen: &Seen, near: Near, order: &str) -> Result<(), Failure> {
    let path = path_of(pq);
    let want = model(reg, path);
    let names: Vec<String> = reg.iter().map(|(i, w)| format!("{}#{}", full_name(*i), w)).collect();
    let ctx = format!("path-and-query {pq:?} registered({order}) {names:?}: {}", show(seen));
    match want {
        Some((i, m)) => {
            let w = reg.iter().find(|(j, _)| *j == i).map(|(_, w)| *w).unwrap_or(0);
            // wrappers (interceptors) of the addressed service may run; those of other services may not
            ensure!(seen.log.iter().filter(|e| e.1 == ICPT).all(|e| e.0 == i), "C10/dispatched-through-another-services-wrapper", "{ctx}");
            let handlers: Vec<&(u8, u8, Vec<u8>)> = seen.log.iter().filter(|e| e.1 != ICPT).collect();
            ensure!(!handlers.is_empty(), format!("C10/exact-path-not-dispatched/wrap{w}"), "no handler ran for an exact registered path; {ctx}");
            ensure!(handlers.len() == 1, "C10/dispatched-more-than-once", "{ctx}");
            let (gi, gm, gp) = handlers[0];
            ensure!(*gi == i, "C10/dispatched-to-wrong-service", "expected {}; {ctx}", full_name(i));
            ensure!(*gm == m, "C10/dispatched-to-wrong-method", "expected method {}; {ctx}", POOL_METHODS[m as usize]);
            ensure!(gp == payload, "C10/handler-saw-different-message", "handler got {} expected {}; {ctx}", hex(gp), hex(payload));
            ensure!(seen.http_status == 200, "C10/dispatched-http-status", "{ctx}");
            ensure!(seen.grpc_status.len() == 1 && seen.grpc_status[0] == b"0", "C10/dispatched-grpc-status", "handler returned Ok but {ctx}");
            ensure!(seen.body == wire::frame(0, payload), "C10/dispatched-response-body", "echo handler; {ctx}");
        }
        None => {
            // no handler; a service's wrapper (interceptor) may only have seen the request if the path
            // really is below that service's name (unknown method of a registered service)
            let handlers = seen.log.iter().filter(|e| e.1 != ICPT).count();
            ensure!(handlers == 0, format!("C10/handler-reached-on-nonmatching-path/{}", near.tag()), "{ctx}");
            for e in seen.log.iter().filter(|e| e.1 == ICPT) {
                let below = path.strip_prefix('/').and_then(|p| p.strip_prefix(full_name(e.0).as_str())).map(|r| r.starts_with('/')).unwrap_or(false);
                ensure!(below, "C10/foreign-path-reached-a-services-wrapper", "the interceptor wrapped around {} ran for a path outside that service; {ctx}", full_name(e.0));
            }
            ensure!(seen.http_status == 200, "C10/unmatched-http-status", "{ctx}");
            ensure!(seen.content_type.as_deref() == Some(b"application/grpc"), "C10/unmatched-content-type", "{ctx}");
            ensure!(!seen.grpc_status.is_empty(), "C10/unmatched-no-grpc-status", "{ctx}");
            ensure!(seen.grpc_status.iter().all(|v| v == b"12"), "C10/unmatched-grpc-status-not-12", "{ctx}");
        }
    }
    Ok(())
}

/// The same requests over a real HTTP/2 connection to `Server::builder()...serve_with_incoming`.
fn run_transport(c: &Case, reg: &[(u8, u8)], mask: u16, o: &mut Outcome) -> Result<(), Failure> {
    use crate::infra::net::Net;
    use crate::infra::rt;
    o.label("via_transport_router");
    let log: Log = Default::default();
    // registration sequence: pool order rotated by `perm`; members of `reg` are added (optional-Some for odd
    // wrapper kinds), flagged non-members are offered as `None`
    let n = POOL.len() as u8;
    let mut seq: Vec<(u8, u8)> = vec![];
    for k in 0..n {
        let i = (k + c.perm) % n;
        if let Some((_, w)) = reg.iter().find(|(j, _)| *j == i) {
            seq.push((i, if w % 2 == 1 { 2 } else { 1 }));
        } else if mask & (1 << i) != 0 {
            seq.push((i, 3));
        }
    }
    o.label_if(seq.iter().any(|(_, k)| *k == 3), "optional_service_none");
    o.label_if(seq.iter().any(|(_, k)| *k == 2), "optional_service_some");
    let mut todo: Vec<(String, http::Uri)> = vec![];
    for r in &c.reqs {
        for pq in expand(r) {
            if !pq.starts_with('/') {
                continue;
            }
            let Ok(uri) = http::Uri::try_from(format!("http://pipe.test{pq}")) else { continue };
            if uri.path() != path_of(&pq) {
                continue;
            }
            todo.push((pq, uri));
            if todo.len() >= 12 {
                break;
            }
        }
    }
    let payload = c.payload.bytes();
    let (net, incoming) = Net::new(vec![]);
    let log2 = log.clone();
    let payload2 = payload.clone();
    let todo2 = todo.clone();
    let res = rt::run_virtual(c.perm as u64 + 1, std::time::Duration::from_secs(3600), async move {
        let mut router: TRouter = tonic::transport::Server::builder().add_routes(Routes::default());
        for (i, k) in &seq {
            router = register_router(router, *i, *k, &log2);
        }
        let srv = tokio::spawn(async move { router.serve_with_incoming(incoming).await });
        let (io, _h) = net.open().map_err(|e| format!("open: {e}"))?;
        let (mut send_req, conn) = h2::client::handshake(io).await.map_err(|e| format!("h2 handshake: {e}"))?;
        let ct = tokio::spawn(async move {
            let _ = conn.await;
        });
        let mut seen = vec![];
        for (_, uri) in &todo2 {
            log2.lock().unwrap().clear();
            let req = http::Request::builder().method("POST").uri(uri.clone()).header("content-type", "application/grpc").header("te", "trailers").body(()).unwrap();
            send_req = send_req.ready().await.map_err(|e| format!("ready: {e}"))?;
            let (resp, mut stream) = send_req.send_request(req, false).map_err(|e| format!("send_request: {e}"))?;
            stream.send_data(Bytes::from(wire::frame(0, &payload2)), true).map_err(|e| format!("send_data: {e}"))?;
            let resp = resp.await.map_err(|e| format!("response: {e}"))?;
            let (parts, mut body) = resp.into_parts();
            let mut data = vec![];
            while let Some(ch) = body.data().await {
                let b = ch.map_err(|e| format!("body: {e}"))?;
                let _ = body.flow_control().release_capacity(b.len());
                data.extend_from_slice(&b);
            }
            let tr = body.trailers().await.map_err(|e| format!("trailers: {e}"))?;
            let mut grpc_status: Vec<Vec<u8>> = parts.headers.get_all("grpc-status").iter().map(|v| v.as_bytes().to_vec()).collect();
            if let Some(t) = tr {
                grpc_status.extend(t.get_all("grpc-status").iter().map(|v| v.as_bytes().to_vec()));
            }
            rt::quiesce().await;
            seen.push(Seen {
                http_status: parts.status.as_u16(),
                content_type: parts.headers.get("content-type").map(|v| v.as_bytes().to_vec()),
                grpc_status,
                body: data,
                log: log2.lock().unwrap().clone(),
            });
        }
        ct.abort();
        srv.abort();
        Ok::<_, String>(seen)
    });
    let seen = match res {
        Err(_) => bail!("C10/transport-never-completes", "requests over the served router did not complete"),
        Ok(Err(e)) => bail!("C10/transport-error", "{e}"),
        Ok(Ok(s)) => s,
    };
    for ((pq, _), s) in todo.iter().zip(seen.iter()) {
        let near = nearness(reg, path_of(pq));
        if near.any() {
            o.nontrivial = true;
        }
        judge(reg, pq, &payload, s, near, "transport router")?;
    }
    Ok(())
}

pub fn run(c: &Case, o: &mut Outcome) -> Result<(), Failure> {
    // normalise the configuration (replay files / fuzz inputs may contain duplicates)
    let mut reg: Vec<(u8, u8)> = vec![];
    for (i, w) in &c.reg {
        let i = i % POOL.len() as u8;
        if !reg.iter().any(|(j, _)| *j == i) {
            reg.push((i, w % N_WRAP));
        }
    }
    if let Some(mask) = c.transport {
        return run_transport(c, &reg, mask, o);
    }
    let reg2 = second_order(&reg, c.perm);
    let payload = c.payload.bytes();
    let log1: Log = Default::default();
    let log2: Log = Default::default();
    let mut r1 = build(&reg, c.how, &log1);
    let mut r2 = build(&reg2, c.how, &log2);

    let related = prefix_related(&reg);
    o.label_if(reg.is_empty(), "reg_empty");
    o.label_if(reg.len() == 1, "reg_single");
    o.label_if(reg.len() == POOL.len(), "reg_full_pool");
    o.label_if(related, "reg_prefix_related_names");
    o.label_if(reg2 != reg, "second_order_differs");
    o.label_if(reg.iter().any(|(_, w)| *w == 1), "wrap_intercepted");
    o.label_if(reg.iter().any(|(_, w)| *w == 2), "wrap_layered_interceptor");
    o.label_if(reg.iter().any(|(_, w)| *w >= 3), "wrap_nested");
    o.label(match c.how & 3 {
        1 => "via_default_add_service",
        2 => "via_routes_builder",
        _ => "via_routes_new",
    });
    o.label_if(c.how & 4 != 0, "prepared");
    o.label_if(c.form % 3 != 0, "absolute_form_uri");
    if related {
        o.nontrivial = true;
    }

    for r in &c.reqs {
        for pq in expand(r) {
            let Some(uri) = make_uri(&pq, c.form) else {
                o.label("skipped_unbuildable_uri");
                continue;
            };
            let path = path_of(&pq);
            if uri.path() != path {
                // the http crate reads a different path out of this string than the plain split does
                // (should not happen by construction); not judged
                o.label("skipped_uri_path_differs");
                continue;
            }
            let near = nearness(&reg, path);
            let want = model(&reg, path);
            o.label_if(want.is_some(), "expect_dispatch");
            o.label_if(want.is_none(), "expect_unimplemented");
            o.label_if(want.is_some() && pq.contains('?'), "exact_with_query");
            o.label_if(want.is_none() && pq.contains('?'), "nonmatching_with_query");
            o.label_if(want.is_none() && model(&(0..POOL.len() as u8).map(|i| (i, 0)).collect::<Vec<_>>(), path).is_some(), "exact_path_of_unregistered_pool_member");
            o.label_if(near.one_edit, "one_edit_of_registered");
            o.label_if(near.case_only, "case_mutant_of_registered");
            o.label_if(near.path_is_prefix, "prefix_of_registered");
            o.label_if(near.path_extends, "extends_registered");
            o.label_if(want.is_none() && path.contains("//"), "empty_segment");
            o.label_if(path.contains('%'), "percent_encoded");
            o.label_if(!path.is_ascii(), "non_ascii_path");
            o.label_if(!path.starts_with('/'), "no_leading_slash");
            if near.any() {
                o.nontrivial = true;
            }

            let s1 = drive(&mut r1, uri.clone(), &payload, &log1)?;
            let s2 = drive(&mut r2, uri, &payload, &log2)?;
            if s1 != s2 {
                let n1: Vec<String> = reg.iter().map(|(i, _)| full_name(*i)).collect();
                let n2: Vec<String> = reg2.iter().map(|(i, _)| full_name(*i)).collect();
                bail!(
                    "C10/registration-order-changes-outcome",
                    "path-and-query {pq:?}: order {n1:?} -> {}; order {n2:?} -> {}",
                    show(&s1),
                    show(&s2)
                );
            }
            judge(&reg, &pq, &payload, &s1, near, "first order")?;
        }
    }
    Ok(())
}

fn all_exact() -> Vec<Req> {
    vec![Req::AllExact]
}

pub struct C10;
impl Prop for C10 {
    const ID: &'static str = "C10";
    type Case = Case;
    fn strategy() -> BoxedStrategy<Case> {
        strategy()
    }
    fn run(c: &Case, o: &mut Outcome) -> Result<(), Failure> {
        run(c, o)
    }
    fn rule() -> &'static str {
        "configuration = ordered subset of a 10-service pool (S, s, Sv, a.S, a.Sv, a.s, A.S, a.S.Tt, a.b.S, ab.S; methods M, m, Mm, M2 with recording echo handlers) x wrapper per service (bare, InterceptedService, Layered, two nestings) x build path (Routes::new/add_service, Routes::default, RoutesBuilder, optional prepare) x request-target form (origin / absolute); each case sends 1-8 paths (exact, one/two-edit mutants over a 32-char alphabet incl. '?', '%', '{', non-ASCII case-folding chars, case flips, 44 segment shapes, percent-encoded spellings, vocabulary joins, random URI paths, optional ?query) in-process through Routes as a tower Service, to the router built in the given order and to one built in a permuted order. Oracle: dispatch to (S,M) iff the text before the first '?' equals \"/\"+full name+\"/\"+method of a registered service (own table), then exactly that handler ran once with the sent message and the reply is grpc-status 0 + echo; otherwise no handler ran, HTTP 200, content-type application/grpc, grpc-status 12; both orders must agree. Non-trivial: some path is a one-edit / case / prefix / extension mutant of a registered exact path, or the registered set contains names that are prefixes of one another. Distinct = distinct serialised case. Also: services wrapped in interceptors that record every path they see: a path that names no registered service reaches no wrapper, a dispatched path only the wrapper of its own service. Request content-type is application/grpc, +proto or +json."
    }
    fn assumptions() -> Vec<String> {
        vec![
            "requests are driven in-process through Routes as a tower::Service (no hyper/h2 in front); Server::builder().add_service delegates to the same Routes::new/add_service".into(),
            "service names within one configuration are distinct (registering the same name twice is outside the statement)".into(),
            "paths are limited to what http::Uri can represent; strings it rejects are counted (skipped_unbuildable_uri) and not judged".into(),
            "for a non-matching path only HTTP 200, content-type application/grpc, grpc-status 12 and 'no handler ran' are required; body content and grpc-message are not judged".into(),
        ]
    }
    fn cases(t: Tier) -> u64 {
        match t {
            Tier::Quick => 60_000,
            Tier::Thorough => 1_800_000,
        }
    }
    fn fixed_cases(_t: Tier) -> Vec<Case> {
        let n = POOL.len() as u8;
        let mk = |reg: Vec<(u8, u8)>, how: u8, perm: u8, form: u8, reqs: Vec<Req>| Case { reg, how, perm, form, reqs, payload: Blob::Hex("c10a".into()), transport: None };
        let mut v = vec![];
        // nothing registered
        v.push(mk(vec![], 0, 0, 0, all_exact()));
        v.push(mk(vec![], 2, 0, 0, all_exact()));
        // every singleton x every wrapper kind: all 40 exact pool paths
        for i in 0..n {
            for w in 0..N_WRAP {
                v.push(mk(vec![(i, w)], w % 3, 0, 0, all_exact()));
            }
        }
        // every pair (both orders via perm 0 = reversed)
        for i in 0..n {
            for j in i + 1..n {
                v.push(mk(vec![(i, 0), (j, (i + j) % N_WRAP)], (i + j) % 3 | ((i & 1) << 2), 0, 0, all_exact()));
            }
        }
        // full pool: every one-edit and shape mutant of every exact path, two wrapper assignments
        for i in 0..n {
            for m in 0..POOL_METHODS.len() as u8 {
                let bare: Vec<(u8, u8)> = (0..n).map(|k| (k, 0)).collect();
                let mixed: Vec<(u8, u8)> = (0..n).rev().map(|k| (k, (k + m) % N_WRAP)).collect();
                v.push(mk(bare, 0, 0, 0, vec![Req::P(exact_path(i, m)), Req::Edits(i, m), Req::Shapes(i, m)]));
                v.push(mk(mixed, 2 | 4, 3, (i % 3) as u8, vec![Req::P(exact_path(i, m)), Req::Edits(i, m), Req::Shapes(i, m)]));
            }
        }
        v
    }
    fn fixed_is_exhaustive() -> Option<&'static str> {
        Some("all 40 exact pool paths against {nothing registered, every singleton x 5 wrapper kinds, every unordered pair in both orders}; every one-edit mutant (delete, swap, insert/replace over the 32-char alphabet) and all 44 segment shapes of every exact path against the full pool (bare and mixed wrappers, two build paths, two orders)")
    }
    fn from_bytes(data: &[u8]) -> Option<Case> {
        from_bytes(data)
    }
    fn fuzz(t: Tier) -> Option<FuzzSpec> {
        match t {
            Tier::Quick => None,
            Tier::Thorough => Some(FuzzSpec { target: "c10_routing", runs: 100_000, max_len: 256 }),
        }
    }
}

/// fuzz decoding: [mask u16][how][perm][form] then per request [kind][...]
pub fn from_bytes(data: &[u8]) -> Option<Case> {
    use arbitrary::Unstructured;
    let mut u = Unstructured::new(data);
    let mask: u16 = u.arbitrary().ok()?;
    let mut reg = vec![];
    for i in 0..POOL.len() as u8 {
        if mask & (1 << i) != 0 {
            reg.push((i, u.int_in_range(0..=N_WRAP - 1).ok()?));
        }
    }
    let rot = u.int_in_range(0usize..=9).ok()?;
    if !reg.is_empty() {
        let k = rot % reg.len();
        reg.rotate_left(k);
    }
    let how = u.int_in_range(0u8..=7).ok()?;
    let perm = u.int_in_range(0u8..=10).ok()?;
    let form = u.int_in_range(0u8..=2).ok()?;
    let n = u.int_in_range(1usize..=8).ok()?;
    let mut reqs = vec![];
    for _ in 0..n {
        let i = u.int_in_range(0..=POOL.len() as u8 - 1).ok()?;
        let m = u.int_in_range(0..=POOL_METHODS.len() as u8 - 1).ok()?;
        let mut p = match u.int_in_range(0u8..=4).ok()? {
            0 => exact_path(i, m),
            1 => {
                let ch = *u.choose(EDIT_ALPHABET).ok()?;
                apply_edit(&exact_path(i, m), u.arbitrary().ok()?, u.int_in_range(0u8..=4).ok()?, ch)
            }
            2 => shape(i, m, u.int_in_range(0..=N_SHAPES - 1).ok()?),
            3 => {
                let k = u.int_in_range(0usize..=4).ok()?;
                let mut segs = vec![];
                for _ in 0..k {
                    segs.push(*u.choose(VOCAB).ok()?);
                }
                format!("/{}", segs.join("/"))
            }
            _ => {
                const CS: &[u8] = b"/SsvaAbTtMm2.%?x-_~*:;=@+&{}0123456789abcdefABCDEF";
                let k = u.int_in_range(0usize..=12).ok()?;
                let mut s = String::from("/");
                for _ in 0..k {
                    s.push(*u.choose(CS).ok()? as char);
                }
                s
            }
        };
        if u.ratio(1u8, 5u8).ok()? {
            p.push_str(u.choose(QUERIES).ok()?);
        }
        reqs.push(Req::P(p));
    }
    Some(Case { reg, how, perm, form, reqs, payload: Blob::Hex("00ff".into()), transport: None })
}
