//! C11 – generated clients and servers agree with each other and with the descriptor; the committed
//! generated sources are exactly what the bootstrap generator produces.
//!
//! (a) random service definitions -> the working tree's tonic-build, three entry points:
//!     * `Proto`:  `.proto` text -> protox (in memory) -> prost_build::Config + tonic_build's
//!                 service generator (the path every `build.rs` takes),
//!     * `Manual`: `tonic_build::manual` services (Rust name != route name) through
//!                 `CodeGenBuilder` directly, optionally through `manual::Builder::compile`,
//!                 optionally through an own `tonic_build::Service` impl whose route identifier
//!                 differs from its Rust name.
//!     The emitted text is parsed with `syn`; a visitor pulls the literals / calls / types out of the
//!     client methods and the server's `match req.uri().path()` arms.  They are compared with each
//!     other and with a table computed from the case alone ("/" [pkg "."] Service "/" Method).
//! (b) `Regenerate`: copy the repository, run the real `codegen` binary in the copy, byte-compare
//!     every `src/generated/*.rs` of tonic-health / tonic-reflection / tonic-types.
use crate::infra::runner::*;
use crate::{bail, ensure};
use proptest::prelude::*;
use quote::ToTokens;
use serde::{Deserialize, Serialize};
use std::collections::{BTreeMap, BTreeSet};
use syn::visit::{self, Visit};

// ------------------------------------------------------------------------------------------ case

#[derive(Clone, Debug, Serialize, Deserialize, PartialEq)]
pub struct Opts {
    pub emit_package: bool,
    pub default_stubs: bool,
    pub arc_self: bool,
    pub client: bool,
    pub server: bool,
    /// `build_transport(..)`: None = not called (the builder's own default), Some(b) = called with b. Has no
    /// bearing on paths, names, shapes or types.
    #[serde(default)]
    pub transport: Option<bool>,
    /// false: options that equal the documented defaults (emit_package = true, arc self / default stubs off)
    /// are left to the builder's `Default`, not set explicitly
    #[serde(default)]
    pub explicit: bool,
}

/// where a message lives: 0 top level of the main file, 1 nested in a wrapper message,
/// 2 in the imported file (package `dep_pkg`), 3 = google.protobuf.Empty (name unused)
#[derive(Clone, Debug, Serialize, Deserialize, PartialEq)]
pub struct Msg {
    pub name: String,
    pub place: u8,
}

#[derive(Clone, Debug, Serialize, Deserialize, PartialEq)]
pub struct Meth {
    pub name: String,
    pub cs: bool,
    pub ss: bool,
    /// indices into `msgs` (mod len)
    pub req: u8,
    pub resp: u8,
}

#[derive(Clone, Debug, Serialize, Deserialize, PartialEq)]
pub struct Svc {
    pub name: String,
    pub methods: Vec<Meth>,
}

#[derive(Clone, Debug, Serialize, Deserialize, PartialEq)]
pub struct Program {
    pub pkg: String,
    pub dep_pkg: String,
    pub msgs: Vec<Msg>,
    pub services: Vec<Svc>,
    pub opts: Opts,
}

#[derive(Clone, Debug, Serialize, Deserialize, PartialEq)]
pub struct MMeth {
    /// Rust identifier (may be raw: `r#type`)
    pub rust: String,
    /// name on the wire
    pub route: String,
    pub cs: bool,
    pub ss: bool,
    pub req: String,
    pub resp: String,
    /// index into CODECS: every manual method carries its own codec path
    #[serde(default)]
    pub codec: u8,
}

const CODECS: &[&str] = &["tonic::codec::ProstCodec", "crate::codec::JsonCodec", "super::Raw", "crate::r#type::Codec"];
impl MMeth {
    fn codec_path(&self) -> &'static str {
        CODECS[self.codec as usize % CODECS.len()]
    }
}

#[derive(Clone, Debug, Serialize, Deserialize, PartialEq)]
pub struct Manual {
    pub pkg: String,
    /// Rust name of the service (trait / struct stem)
    pub name: String,
    /// Some(route identifier) -> own `tonic_build::Service` impl with identifier != name;
    /// None -> `tonic_build::manual::Service` (identifier == name)
    pub route: Option<String>,
    pub methods: Vec<MMeth>,
    pub opts: Opts,
    /// go through `manual::Builder::compile` (files) instead of `CodeGenBuilder` (only when
    /// `route` is None; the builder always emits the package and has no stub/arc options)
    pub via_builder: bool,
}

#[derive(Clone, Debug, Serialize, Deserialize, PartialEq)]
pub enum Case {
    Proto(Program),
    Manual(Manual),
    /// part (b): regenerate the committed sources and byte-compare
    Regenerate,
}

// ------------------------------------------------------------------------------------- generator

const WORDS: &[&str] = &[
    "Get", "Put", "List", "Watch", "Hello", "Route", "Chat", "Sum", "Item", "Note", "Say", "Stream", "Check", "Echo", "Connect", "New", "Call",
    "Ready", "Inner", "Clone", "Request", "Response", "Status", "Service", "Server", "Client", "Streaming", "Unary", "Path", "Grpc",
];
const KEYWORDS: &[&str] = &[
    "Type", "Match", "Move", "Self", "Async", "Box", "Fn", "Impl", "Loop", "Ref", "Use", "Yield", "Try", "Dyn", "Await", "Super", "Crate", "Mod",
    "Struct", "Trait", "Const", "Static", "Where", "While", "For", "In", "Let", "Pub", "Return", "Unsafe", "As", "Break", "Continue", "Else",
    "Enum", "Extern", "If", "Mut", "True", "False", "Abstract", "Become", "Do", "Final", "Macro", "Override", "Priv", "Typeof", "Unsized",
    "Virtual",
];
const ACRONYMS: &[&str] = &["HTTPGet", "GetURL", "IO", "XMLHttpRequest", "getItem", "doIt", "ABCServiceX", "gRPC", "v2Get"];
const PACKAGES: &[&str] = &["", "", "a", "a.b", "foo_bar.v1", "x.y.z", "grpc.health.v1", "type.v1", "A.B", "pkg2", "a_.b_"];
const DEP_PACKAGES: &[&str] = &["dep.v1", "", "a", "other_pkg", "a.b.c"];

fn word() -> BoxedStrategy<String> {
    proptest::sample::select(WORDS).prop_map(|s| s.to_string()).boxed()
}
fn lower_first(s: &str) -> String {
    s.to_lowercase()
}

/// proto identifier for a method, by shape class
fn method_name() -> BoxedStrategy<String> {
    prop_oneof![
        // CamelCase, 1-3 words
        5 => proptest::collection::vec(word(), 1..=3).prop_map(|w| w.concat()),
        // digits
        2 => (word(), 0u32..=12, proptest::option::of(word())).prop_map(|(a, d, b)| format!("{a}{d}{}", b.unwrap_or_default())),
        // snake_case
        3 => (proptest::collection::vec(word(), 1..=3), proptest::option::weighted(0.3, 0u32..=9))
            .prop_map(|(w, d)| {
                let mut v: Vec<String> = w.iter().map(|x| lower_first(x)).collect();
                if let Some(d) = d { v.push(d.to_string()); }
                v.join("_")
            }),
        // Rust keywords, capitalised (idiomatic proto) or lower case
        4 => (proptest::sample::select(KEYWORDS), any::<bool>()).prop_map(|(k, lower)| if lower { k.to_lowercase() } else { k.to_string() }),
        // odd underscore placement
        1 => (word(), word(), 0u8..3).prop_map(|(a, b, k)| match k { 0 => format!("{a}_{b}"), 1 => format!("{a}__{b}"), _ => format!("{a}{b}_") }),
        // acronyms / lowerCamel
        1 => proptest::sample::select(ACRONYMS).prop_map(|s| s.to_string()),
    ]
    .boxed()
}

fn service_name() -> BoxedStrategy<String> {
    prop_oneof![
        5 => proptest::collection::vec(word(), 1..=3).prop_map(|w| w.concat()),
        2 => (word(), 0u32..=12, proptest::option::of(word())).prop_map(|(a, d, b)| format!("{a}{d}{}", b.unwrap_or_default())),
        2 => (word(), word(), 0u8..3).prop_map(|(a, b, k)| match k { 0 => format!("{a}_{b}"), 1 => format!("{}_{}", lower_first(&a), lower_first(&b)), _ => format!("{a}_{b}_1") }),
        1 => word().prop_map(|w| lower_first(&w)),
        2 => proptest::sample::select(KEYWORDS).prop_map(|k| k.to_string()),
        1 => proptest::sample::select(ACRONYMS).prop_map(|s| s.to_string()),
    ]
    .boxed()
}

fn message_name() -> BoxedStrategy<String> {
    prop_oneof![
        5 => (word(), prop_oneof![Just("Request"), Just("Reply"), Just("Req"), Just(""), Just("Msg")]).prop_map(|(a, b)| format!("{a}{b}")),
        1 => (word(), 0u32..=9).prop_map(|(a, d)| format!("{a}{d}")),
        1 => (word(), word()).prop_map(|(a, b)| format!("{}_{}", lower_first(&a), lower_first(&b))),
        1 => proptest::sample::select(&["Self", "Type", "Box", "Option", "Result", "Empty", "Streaming", "String", "HTTPReq", "type"][..]).prop_map(|s| s.to_string()),
    ]
    .boxed()
}

/// lower case, underscores removed: the equivalence under which prost's case conversions may merge names
fn norm(s: &str) -> String {
    s.chars().filter(|c| *c != '_').flat_map(|c| c.to_lowercase()).collect()
}

/// make names pairwise distinct under `norm` (constructive: suffix a counter)
fn uniq(names: &mut [String], taken: &mut BTreeSet<String>) {
    for n in names.iter_mut() {
        let mut k = 2;
        let base = n.clone();
        while !taken.insert(norm(n)) {
            *n = format!("{base}X{k}");
            k += 1;
        }
    }
}

fn opts() -> BoxedStrategy<Opts> {
    (
        proptest::bool::weighted(0.7),
        any::<bool>(),
        any::<bool>(),
        prop_oneof![6 => Just((true, true)), 1 => Just((true, false)), 1 => Just((false, true))],
        prop_oneof![2 => Just(None), 1 => Just(Some(true)), 2 => Just(Some(false))],
        any::<bool>(),
    )
        .prop_map(|(emit_package, default_stubs, arc_self, (client, server), transport, explicit)| Opts { emit_package, default_stubs, arc_self, client, server, transport, explicit })
        .boxed()
}

fn meth() -> BoxedStrategy<Meth> {
    (method_name(), any::<bool>(), any::<bool>(), 0u8..8, 0u8..8).prop_map(|(name, cs, ss, req, resp)| Meth { name, cs, ss, req, resp }).boxed()
}

fn program() -> BoxedStrategy<Program> {
    let msg = (message_name(), prop_oneof![6 => Just(0u8), 2 => Just(1u8), 2 => Just(2u8), 1 => Just(3u8)]).prop_map(|(name, place)| Msg { name, place });
    let svc = (service_name(), proptest::collection::vec(meth(), 1..=6)).prop_map(|(name, methods)| Svc { name, methods });
    (
        proptest::sample::select(PACKAGES),
        proptest::sample::select(DEP_PACKAGES),
        proptest::collection::vec(msg, 1..=5),
        prop_oneof![5 => proptest::collection::vec(svc.clone(), 1..=1), 2 => proptest::collection::vec(svc.clone(), 2..=2), 1 => proptest::collection::vec(svc, 3..=3)],
        opts(),
    )
        .prop_map(|(pkg, dep_pkg, mut msgs, mut services, opts)| {
            // messages and services share the package namespace; methods share the service's
            // (a package component is a name too: `message type` in a package-less file vs `package type.v1`)
            let mut taken: BTreeSet<String> = pkg.split('.').chain(dep_pkg.split('.')).filter(|c| !c.is_empty()).map(norm).collect();
            let mut names: Vec<String> = msgs.iter().map(|m| m.name.clone()).chain(services.iter().map(|s| s.name.clone())).collect();
            uniq(&mut names, &mut taken);
            let nm = msgs.len();
            for (i, m) in msgs.iter_mut().enumerate() {
                m.name = names[i].clone();
            }
            for (i, s) in services.iter_mut().enumerate() {
                s.name = names[nm + i].clone();
                let mut t = BTreeSet::new();
                let mut ms: Vec<String> = s.methods.iter().map(|m| m.name.clone()).collect();
                uniq(&mut ms, &mut t);
                for (j, m) in s.methods.iter_mut().enumerate() {
                    m.name = ms[j].clone();
                }
            }
            Program { pkg: pkg.to_string(), dep_pkg: dep_pkg.to_string(), msgs, services, opts }
        })
        .boxed()
}

const RUST_METHOD_IDENTS: &[&str] = &[
    "get", "say_hello", "list_items", "r#type", "r#match", "r#move", "self_", "r#async", "r#box", "get_2", "watch", "chat", "r#fn", "super_",
    "crate_", "x", "route_chat", "r#try", "check_v2", "new_", "connect_",
];
const RUST_TYPES: &[&str] = &["crate::Req", "crate::Resp", "super::Msg", "crate::pb::v1::Point", "Foo", "crate::Self_", "super::super::Empty", "crate::r#type::Thing"];

fn manual() -> BoxedStrategy<Manual> {
    let codec = prop_oneof![3 => Just(0u8), 2 => 0u8..4];
    let m = (proptest::sample::select(RUST_METHOD_IDENTS), method_name(), any::<bool>(), any::<bool>(), proptest::sample::select(RUST_TYPES), proptest::sample::select(RUST_TYPES), codec)
        .prop_map(|(rust, route, cs, ss, req, resp, codec)| MMeth { rust: rust.to_string(), route, cs, ss, req: req.to_string(), resp: resp.to_string(), codec });
    (
        proptest::sample::select(PACKAGES),
        proptest::collection::vec(word(), 1..=2).prop_map(|w| w.concat()),
        proptest::option::weighted(0.5, service_name()),
        proptest::collection::vec(m, 1..=6),
        opts(),
        proptest::bool::weighted(0.3),
    )
        .prop_map(|(pkg, name, route, mut methods, mut opts, via_builder)| {
            // distinct Rust idents and distinct route names inside the service
            let mut t = BTreeSet::new();
            let mut r: Vec<String> = methods.iter().map(|m| m.rust.clone()).collect();
            for n in r.iter_mut() {
                let base = n.clone();
                let mut k = 2;
                while !t.insert(n.clone()) {
                    *n = format!("{}_{k}", base.trim_end_matches('_'));
                    k += 1;
                }
            }
            let mut t2 = BTreeSet::new();
            let mut routes: Vec<String> = methods.iter().map(|m| m.route.clone()).collect();
            uniq(&mut routes, &mut t2);
            for (i, m) in methods.iter_mut().enumerate() {
                m.rust = r[i].clone();
                m.route = routes[i].clone();
            }
            let route = route.filter(|r| *r != name);
            let via_builder = via_builder && route.is_none();
            if via_builder {
                opts.emit_package = true;
                opts.default_stubs = false;
                opts.arc_self = false;
            }
            Manual { pkg: pkg.to_string(), name, route, methods, opts, via_builder }
        })
        .boxed()
}

pub fn strategy() -> BoxedStrategy<Case> {
    prop_oneof![4 => program().prop_map(Case::Proto), 1 => manual().prop_map(Case::Manual)].boxed()
}

// ------------------------------------------------------------------- expected table (from the case)

#[derive(Clone, Debug, PartialEq)]
struct Expect {
    /// the codec path of the method
    codec: String,
    shape: &'static str,
    /// Proto: fully qualified proto type; Manual: the Rust path given to the builder
    req: String,
    resp: String,
}

fn shape_of(cs: bool, ss: bool) -> &'static str {
    match (cs, ss) {
        (false, false) => "unary",
        (false, true) => "server_streaming",
        (true, false) => "client_streaming",
        (true, true) => "streaming",
    }
}
const SHAPES: [&str; 4] = ["unary", "server_streaming", "client_streaming", "streaming"];
fn service_trait_of(shape: &str) -> &'static str {
    match shape {
        "unary" => "UnaryService",
        "server_streaming" => "ServerStreamingService",
        "client_streaming" => "ClientStreamingService",
        _ => "StreamingService",
    }
}

fn full_service_name(pkg: &str, svc: &str, emit_package: bool) -> String {
    if emit_package && !pkg.is_empty() {
        format!("{pkg}.{svc}")
    } else {
        svc.to_string()
    }
}

impl Program {
    fn msg(&self, i: u8) -> &Msg {
        &self.msgs[i as usize % self.msgs.len()]
    }
    fn used(&self, place: u8) -> bool {
        self.services.iter().flat_map(|s| s.methods.iter()).any(|m| self.msg(m.req).place == place || self.msg(m.resp).place == place)
    }
    /// fully qualified proto name (leading dot) of message i
    fn fq(&self, i: u8) -> String {
        let idx = i as usize % self.msgs.len();
        let m = &self.msgs[idx];
        let dot = |p: &str| if p.is_empty() { String::new() } else { format!(".{p}") };
        match m.place {
            0 => format!("{}.{}", dot(&self.pkg), m.name),
            1 => format!("{}.Outer{}.{}", dot(&self.pkg), idx, m.name),
            2 => format!("{}.{}", dot(&self.dep_pkg), m.name),
            _ => ".google.protobuf.Empty".to_string(),
        }
    }
    fn main_proto(&self) -> String {
        let mut s = String::from("syntax = \"proto3\";\n");
        if !self.pkg.is_empty() {
            s += &format!("package {};\n", self.pkg);
        }
        if self.msgs.iter().any(|m| m.place == 2) {
            s += "import \"dep.proto\";\n";
        }
        if self.msgs.iter().any(|m| m.place == 3) {
            s += "import \"google/protobuf/empty.proto\";\n";
        }
        for (i, m) in self.msgs.iter().enumerate() {
            match m.place {
                0 => s += &format!("message {} {{ int32 f = 1; }}\n", m.name),
                1 => s += &format!("message Outer{i} {{ message {} {{}} }}\n", m.name),
                _ => {}
            }
        }
        for svc in &self.services {
            s += &format!("// service comment\nservice {} {{\n", svc.name);
            for m in &svc.methods {
                s += &format!(
                    "  // method comment\n  rpc {} ({}{}) returns ({}{});\n",
                    m.name,
                    if m.cs { "stream " } else { "" },
                    self.fq(m.req),
                    if m.ss { "stream " } else { "" },
                    self.fq(m.resp)
                );
            }
            s += "}\n";
        }
        s
    }
    fn dep_proto(&self) -> String {
        let mut s = String::from("syntax = \"proto3\";\n");
        if !self.dep_pkg.is_empty() {
            s += &format!("package {};\n", self.dep_pkg);
        }
        for m in self.msgs.iter().filter(|m| m.place == 2) {
            s += &format!("message {} {{}}\n", m.name);
        }
        s
    }
    fn expected(&self) -> (BTreeMap<String, Expect>, BTreeSet<String>) {
        let mut map = BTreeMap::new();
        let mut names = BTreeSet::new();
        for svc in &self.services {
            let full = full_service_name(&self.pkg, &svc.name, self.opts.emit_package);
            for m in &svc.methods {
                map.insert(format!("/{}/{}", full, m.name), Expect { codec: "tonic::codec::ProstCodec".into(), shape: shape_of(m.cs, m.ss), req: self.fq(m.req), resp: self.fq(m.resp) });
            }
            names.insert(full);
        }
        (map, names)
    }
}

impl Manual {
    fn expected(&self) -> (BTreeMap<String, Expect>, BTreeSet<String>) {
        let ident = self.route.as_deref().unwrap_or(&self.name);
        let full = full_service_name(&self.pkg, ident, self.opts.emit_package);
        let mut map = BTreeMap::new();
        for m in &self.methods {
            map.insert(format!("/{}/{}", full, m.route), Expect { codec: squash(m.codec_path()), shape: shape_of(m.cs, m.ss), req: squash(&m.req), resp: squash(&m.resp) });
        }
        (map, [full].into_iter().collect())
    }
}

// ---------------------------------------------------------------------------------- running tonic-build

struct MemResolver {
    files: Vec<(String, String)>,
}
impl protox::file::FileResolver for MemResolver {
    fn resolve_path(&self, path: &std::path::Path) -> Option<String> {
        let p = path.to_str()?;
        self.files.iter().find(|(n, _)| n == p).map(|(n, _)| n.clone())
    }
    fn open_file(&self, name: &str) -> Result<protox::file::File, protox::Error> {
        match self.files.iter().find(|(n, _)| n == name) {
            Some((n, src)) => protox::file::File::from_source(n, src),
            None => Err(protox::Error::file_not_found(name)),
        }
    }
}

fn tonic_builder(o: &Opts) -> tonic_build::Builder {
    let mut b = tonic_build::configure().build_client(o.client).build_server(o.server);
    if o.explicit || o.arc_self {
        b = b.use_arc_self(o.arc_self);
    }
    if o.explicit || o.default_stubs {
        b = b.generate_default_stubs(o.default_stubs);
    }
    if let Some(t) = o.transport {
        b = b.build_transport(t);
    }
    if o.emit_package {
        b
    } else {
        b.disable_package_emission()
    }
}

/// proto text -> descriptors -> generated Rust text, one string per prost module (sorted)
fn generate_proto(p: &Program) -> Result<Result<Vec<String>, String>, Failure> {
    let mut chain = protox::file::ChainFileResolver::new();
    chain.add(MemResolver { files: vec![("main.proto".into(), p.main_proto()), ("dep.proto".into(), p.dep_proto())] });
    chain.add(protox::file::GoogleFileResolver::new());
    let mut compiler = protox::Compiler::with_file_resolver(chain);
    compiler.include_imports(true);
    if let Err(e) = compiler.open_file("main.proto") {
        return Ok(Err(format!("{e}")));
    }
    let fds = compiler.file_descriptor_set();
    // generator sanity: the descriptor says what the case says (independent of tonic)
    let Some(main) = fds.file.iter().find(|f| f.name() == "main.proto") else {
        return Ok(Err("no main.proto in descriptor set".into()));
    };
    ensure!(main.package() == p.pkg && main.service.len() == p.services.len(), "C11/harness-descriptor-mismatch", "descriptor package/services differ from the case");
    for (sd, sc) in main.service.iter().zip(&p.services) {
        ensure!(sd.name() == sc.name && sd.method.len() == sc.methods.len(), "C11/harness-descriptor-mismatch", "service {} differs", sc.name);
        for (md, mc) in sd.method.iter().zip(&sc.methods) {
            ensure!(
                md.name() == mc.name && md.client_streaming() == mc.cs && md.server_streaming() == mc.ss && md.input_type() == p.fq(mc.req) && md.output_type() == p.fq(mc.resp),
                "C11/harness-descriptor-mismatch",
                "method {} differs: {:?}",
                mc.name,
                md
            );
        }
    }
    let mut cfg = prost_build::Config::new();
    cfg.service_generator(tonic_builder(&p.opts).service_generator());
    let requests: Vec<_> = fds
        .file
        .iter()
        .filter(|f| f.name() == "main.proto" || f.name() == "dep.proto")
        .map(|f| (prost_build::Module::from_protobuf_package_name(f.package()), f.clone()))
        .collect();
    let out = match cfg.generate(requests) {
        Ok(o) => o,
        Err(e) => bail!("C11/generate-error", "prost_build::Config::generate failed: {e}"),
    };
    let mut v: Vec<(String, String)> = out.into_iter().map(|(m, s)| (format!("{m:?}"), s)).collect();
    v.sort();
    Ok(Ok(v.into_iter().map(|(_, s)| s).collect()))
}

struct OwnMethod<'a>(&'a MMeth);
struct OwnService<'a> {
    m: &'a Manual,
    methods: Vec<OwnMethod<'a>>,
}
impl tonic_build::Method for OwnMethod<'_> {
    type Comment = String;
    fn name(&self) -> &str {
        &self.0.rust
    }
    fn identifier(&self) -> &str {
        &self.0.route
    }
    fn codec_path(&self) -> &str {
        self.0.codec_path()
    }
    fn client_streaming(&self) -> bool {
        self.0.cs
    }
    fn server_streaming(&self) -> bool {
        self.0.ss
    }
    fn comment(&self) -> &[String] {
        &[]
    }
    fn request_response_name(&self, _p: &str, _w: bool) -> (proc_macro2::TokenStream, proc_macro2::TokenStream) {
        (syn::parse_str::<syn::Path>(&self.0.req).unwrap().to_token_stream(), syn::parse_str::<syn::Path>(&self.0.resp).unwrap().to_token_stream())
    }
}
impl<'a> tonic_build::Service for OwnService<'a> {
    type Comment = String;
    type Method = OwnMethod<'a>;
    fn name(&self) -> &str {
        &self.m.name
    }
    fn package(&self) -> &str {
        &self.m.pkg
    }
    fn identifier(&self) -> &str {
        self.m.route.as_deref().unwrap_or(&self.m.name)
    }
    fn methods(&self) -> &[OwnMethod<'a>] {
        &self.methods
    }
    fn comment(&self) -> &[String] {
        &[]
    }
}

fn manual_service(m: &Manual) -> tonic_build::manual::Service {
    let mut sb = tonic_build::manual::Service::builder().name(&m.name).package(&m.pkg).comment("svc");
    for x in &m.methods {
        let mut mb = tonic_build::manual::Method::builder()
            .name(&x.rust)
            .route_name(&x.route)
            .input_type(&x.req)
            .output_type(&x.resp)
            .codec_path(x.codec_path())
            .comment("method");
        if x.cs {
            mb = mb.client_streaming();
        }
        if x.ss {
            mb = mb.server_streaming();
        }
        sb = sb.method(mb.build());
    }
    sb.build()
}

fn generate_manual(m: &Manual) -> Result<Vec<String>, Failure> {
    if m.via_builder {
        // files: per-thread scratch directory, removed afterwards
        let dir = std::env::temp_dir().join(format!("vh-c11-{}-{:?}", std::process::id(), std::thread::current().id()).replace(['(', ')'], ""));
        let _ = std::fs::remove_dir_all(&dir);
        std::fs::create_dir_all(&dir).map_err(|e| Failure { sig: "C11/harness-io".into(), detail: format!("mkdir {dir:?}: {e}") })?;
        tonic_build::manual::Builder::new().build_client(m.opts.client).build_server(m.opts.server).out_dir(&dir).compile(&[manual_service(m)]);
        let file = dir.join(format!("{}.{}.rs", m.pkg, m.name));
        let text = std::fs::read_to_string(&file);
        let _ = std::fs::remove_dir_all(&dir);
        match text {
            Ok(t) => Ok(vec![t]),
            Err(e) => bail!("C11/manual-builder-output-missing", "expected {file:?}: {e}"),
        }
    } else {
        let mut cg = tonic_build::CodeGenBuilder::new();
        if m.opts.explicit || !m.opts.emit_package {
            cg.emit_package(m.opts.emit_package);
        }
        if m.opts.explicit || m.opts.arc_self {
            cg.use_arc_self(m.opts.arc_self);
        }
        if m.opts.explicit || m.opts.default_stubs {
            cg.generate_default_stubs(m.opts.default_stubs);
        }
        if let Some(t) = m.opts.transport {
            cg.build_transport(t);
        }
        let mut out = vec![];
        let own;
        let man;
        let (client, server) = if m.route.is_some() {
            own = OwnService { m, methods: m.methods.iter().map(OwnMethod).collect() };
            (m.opts.client.then(|| cg.generate_client(&own, "")), m.opts.server.then(|| cg.generate_server(&own, "")))
        } else {
            man = manual_service(m);
            (m.opts.client.then(|| cg.generate_client(&man, "")), m.opts.server.then(|| cg.generate_server(&man, "")))
        };
        out.extend(client.map(|t| t.to_string()));
        out.extend(server.map(|t| t.to_string()));
        Ok(out)
    }
}

// --------------------------------------------------------------------------------------- extraction

fn squash(s: &str) -> String {
    s.split_whitespace().collect()
}
fn ts<T: ToTokens>(t: &T) -> String {
    squash(&t.to_token_stream().to_string())
}
fn path_str(p: &syn::Path) -> String {
    p.segments.iter().map(|s| s.ident.to_string()).collect::<Vec<_>>().join("::")
}
fn lit_str(e: &syn::Expr) -> Option<String> {
    match e {
        syn::Expr::Lit(syn::ExprLit { lit: syn::Lit::Str(s), .. }) => Some(s.value()),
        syn::Expr::Paren(p) => lit_str(&p.expr),
        syn::Expr::Group(g) => lit_str(&g.expr),
        _ => None,
    }
}
fn type_args(seg: &syn::PathSegment) -> Vec<&syn::Type> {
    match &seg.arguments {
        syn::PathArguments::AngleBracketed(a) => a.args.iter().filter_map(|g| if let syn::GenericArgument::Type(t) = g { Some(t) } else { None }).collect(),
        _ => vec![],
    }
}
fn assoc_arg<'a>(seg: &'a syn::PathSegment, name: &str) -> Option<&'a syn::Type> {
    match &seg.arguments {
        syn::PathArguments::AngleBracketed(a) => a.args.iter().find_map(|g| match g {
            syn::GenericArgument::AssocType(t) if t.ident == name => Some(&t.ty),
            _ => None,
        }),
        _ => None,
    }
}
/// `A::B::Name<X>` -> Some(X) when the path (without arguments) is one of `names`
fn unwrap_generic<'a>(t: &'a syn::Type, names: &[&str]) -> Option<&'a syn::Type> {
    if let syn::Type::Path(tp) = t {
        if tp.qself.is_none() && names.contains(&path_str(&tp.path).as_str()) {
            let args = type_args(tp.path.segments.last()?);
            if args.len() == 1 {
                return Some(args[0]);
            }
        }
    }
    None
}
/// `Result<tonic::Response<Y>, tonic::Status>` -> Y
fn result_response(t: &syn::Type) -> Option<&syn::Type> {
    let syn::Type::Path(tp) = t else { return None };
    let p = path_str(&tp.path);
    if p != "std::result::Result" && p != "Result" {
        return None;
    }
    let args = type_args(tp.path.segments.last()?);
    if args.len() != 2 || ts(args[1]) != "tonic::Status" {
        return None;
    }
    unwrap_generic(args[0], &["tonic::Response"])
}

#[derive(Default, Debug)]
struct BodyFacts {
    from_static: Vec<String>,
    grpc_method: Vec<(String, String)>,
    inner_calls: Vec<String>,
    grpc_calls: Vec<String>,
    /// `<T as Trait>::method(..)` calls
    trait_calls: Vec<(String, String)>,
    /// `let codec = <path>::default();`
    codecs: Vec<String>,
    /// `impl tonic::server::XService<Req> for ..` found inside: (kind, Req, Response, call request type)
    service_impls: Vec<(String, String, Option<String>, Option<String>, Option<(bool, String)>)>,
    bad: Vec<String>,
}
impl<'ast> Visit<'ast> for BodyFacts {
    fn visit_expr_call(&mut self, c: &'ast syn::ExprCall) {
        if let syn::Expr::Path(p) = &*c.func {
            if let Some(q) = &p.qself {
                let tr = p.path.segments.iter().take(q.position).map(|s| s.ident.to_string()).collect::<Vec<_>>().join("::");
                let m = p.path.segments.last().map(|s| s.ident.to_string()).unwrap_or_default();
                self.trait_calls.push((tr, m));
            } else {
                let name = path_str(&p.path);
                if name.ends_with("PathAndQuery::from_static") {
                    match c.args.first().and_then(lit_str) {
                        Some(s) if c.args.len() == 1 => self.from_static.push(s),
                        _ => self.bad.push(format!("from_static with non-literal argument: {}", ts(c))),
                    }
                } else if name == "GrpcMethod::new" || name.ends_with("::GrpcMethod::new") {
                    let lits: Vec<_> = c.args.iter().filter_map(lit_str).collect();
                    if lits.len() == 2 && c.args.len() == 2 {
                        self.grpc_method.push((lits[0].clone(), lits[1].clone()));
                    } else {
                        self.bad.push(format!("GrpcMethod::new with non-literal arguments: {}", ts(c)));
                    }
                }
            }
        }
        visit::visit_expr_call(self, c);
    }
    fn visit_local(&mut self, l: &'ast syn::Local) {
        if let syn::Pat::Ident(pi) = &l.pat {
            if pi.ident == "codec" {
                match l.init.as_ref().map(|i| &*i.expr) {
                    Some(syn::Expr::Call(c)) if c.args.is_empty() => match &*c.func {
                        syn::Expr::Path(p) if p.qself.is_none() && p.path.segments.last().map(|s| s.ident == "default").unwrap_or(false) => {
                            let mut path = p.path.clone();
                            path.segments.pop();
                            let path = path.segments.into_pairs().map(|x| x.into_value()).collect::<syn::punctuated::Punctuated<_, syn::Token![::]>>();
                            let lead = if p.path.leading_colon.is_some() { "::" } else { "" };
                            self.codecs.push(format!("{lead}{}", squash(&path.to_token_stream().to_string())));
                        }
                        _ => self.bad.push(format!("codec built by {}", ts(c))),
                    },
                    other => self.bad.push(format!("codec bound to {}", other.map(|e| ts(e)).unwrap_or_default())),
                }
            }
        }
        visit::visit_local(self, l);
    }
    fn visit_expr_method_call(&mut self, c: &'ast syn::ExprMethodCall) {
        let m = c.method.to_string();
        if SHAPES.contains(&m.as_str()) {
            match ts(&c.receiver).as_str() {
                "self.inner" => self.inner_calls.push(m),
                "grpc" => self.grpc_calls.push(m),
                _ => {}
            }
        }
        visit::visit_expr_method_call(self, c);
    }
    fn visit_item_impl(&mut self, i: &'ast syn::ItemImpl) {
        if let Some((_, path, _)) = &i.trait_ {
            let p = path_str(path);
            if let Some(kind) = p.strip_prefix("tonic::server::") {
                if kind.ends_with("Service") {
                    let req = path.segments.last().map(type_args).and_then(|a| a.first().map(|t| ts(*t))).unwrap_or_default();
                    let mut response = None;
                    let mut response_stream = None;
                    let mut call_req = None;
                    for it in &i.items {
                        match it {
                            syn::ImplItem::Type(t) if t.ident == "Response" => response = Some(ts(&t.ty)),
                            syn::ImplItem::Type(t) if t.ident == "ResponseStream" => response_stream = Some(ts(&t.ty)),
                            syn::ImplItem::Fn(f) if f.sig.ident == "call" => {
                                if let Some(syn::FnArg::Typed(pt)) = f.sig.inputs.iter().nth(1) {
                                    call_req = unwrap_generic(&pt.ty, &["tonic::Request"]).map(|x| match unwrap_generic(x, &["tonic::Streaming"]) {
                                        Some(r) => (true, ts(r)),
                                        None => (false, ts(x)),
                                    });
                                }
                            }
                            _ => {}
                        }
                    }
                    self.service_impls.push((kind.to_string(), req, response, response_stream, call_req));
                }
            }
        }
        visit::visit_item_impl(self, i);
    }
}

#[derive(Debug, Clone)]
struct Side {
    codec: String,
    ident: String,
    shape: String,
    req: String,
    resp: String,
}

#[derive(Debug, Default)]
struct ClientMod {
    stem: String,
    /// path literal -> side
    methods: Vec<(String, Side)>,
}
#[derive(Debug)]
struct TraitFn {
    req_streaming: bool,
    req: String,
    /// Plain(ty) | Assoc(name) | Boxed(ty)
    resp: TraitResp,
}
#[derive(Debug, PartialEq)]
enum TraitResp {
    Plain(String),
    Assoc(String),
    Boxed(String),
}
#[derive(Debug, Default)]
struct ServerMod {
    stem: String,
    service_name: Vec<String>,
    named: Vec<String>,
    arms: Vec<(String, Side)>,
    fallback_arms: usize,
    trait_name: String,
    trait_fns: BTreeMap<String, TraitFn>,
    /// assoc stream type -> item type
    trait_streams: BTreeMap<String, String>,
}

#[derive(Default)]
struct Extracted {
    clients: Vec<ClientMod>,
    servers: Vec<ServerMod>,
}

fn fail(sig: &str, detail: String) -> Failure {
    Failure { sig: sig.to_string(), detail }
}

fn extract_client_fn(modname: &str, f: &syn::ImplItemFn) -> Result<Option<(String, Side)>, Failure> {
    let mut facts = BodyFacts::default();
    facts.visit_block(&f.block);
    if facts.from_static.is_empty() && facts.inner_calls.is_empty() && facts.grpc_method.is_empty() {
        return Ok(None);
    }
    let name = f.sig.ident.to_string();
    let here = format!("{modname}::{name}");
    if let Some(b) = facts.bad.first() {
        return Err(fail("C11/client-unreadable", format!("{here}: {b}")));
    }
    ensure!(facts.from_static.len() == 1, "C11/client-path-literal-count", "{here}: {} PathAndQuery::from_static calls", facts.from_static.len());
    ensure!(facts.inner_calls.len() == 1, "C11/client-call-count", "{here}: calls on self.inner: {:?}", facts.inner_calls);
    ensure!(facts.grpc_method.len() == 1, "C11/client-grpc-method-count", "{here}: {} GrpcMethod::new calls", facts.grpc_method.len());
    ensure!(facts.codecs.len() == 1, "C11/client-codec-count", "{here}: codecs constructed: {:?}", facts.codecs);
    let codec = facts.codecs[0].clone();
    let path = facts.from_static[0].clone();
    let shape = facts.inner_calls[0].clone();
    // the GrpcMethod extension travels with the call and must name the same service/method as the path
    let (gs, gm) = &facts.grpc_method[0];
    ensure!(path == format!("/{gs}/{gm}"), "C11/client-grpc-method-vs-path", "{here}: path {path:?} but GrpcMethod::new({gs:?}, {gm:?})");
    // signature
    let Some(syn::FnArg::Typed(arg)) = f.sig.inputs.iter().nth(1) else { bail!("C11/client-unreadable", "{here}: no request argument") };
    let syn::Type::ImplTrait(it) = &*arg.ty else { bail!("C11/client-unreadable", "{here}: request argument is not `impl Trait`: {}", ts(&arg.ty)) };
    let Some(syn::TypeParamBound::Trait(tb)) = it.bounds.first() else { bail!("C11/client-unreadable", "{here}: no trait bound") };
    let bound = path_str(&tb.path);
    let last = tb.path.segments.last().unwrap();
    let (req_streaming, req) = match bound.as_str() {
        "tonic::IntoRequest" => (false, type_args(last).first().map(|t| ts(*t))),
        "tonic::IntoStreamingRequest" => (true, assoc_arg(last, "Message").map(|t| ts(t))),
        _ => bail!("C11/client-unreadable", "{here}: unknown request bound {bound}"),
    };
    let Some(req) = req else { bail!("C11/client-unreadable", "{here}: no request type in {}", ts(&arg.ty)) };
    let syn::ReturnType::Type(_, rt) = &f.sig.output else { bail!("C11/client-unreadable", "{here}: no return type") };
    let Some(y) = result_response(rt) else { bail!("C11/client-unreadable", "{here}: return type {}", ts(rt)) };
    let (resp_streaming, resp) = match unwrap_generic(y, &["tonic::codec::Streaming", "tonic::Streaming"]) {
        Some(z) => (true, ts(z)),
        None => (false, ts(y)),
    };
    ensure!(
        shape == shape_of(req_streaming, resp_streaming),
        "C11/client-signature-vs-call",
        "{here}: signature is {} (request streaming {req_streaming}, response streaming {resp_streaming}) but body calls self.inner.{shape}",
        shape_of(req_streaming, resp_streaming)
    );
    Ok(Some((path, Side { codec, ident: name, shape, req, resp })))
}

fn extract_trait(t: &syn::ItemTrait, sm: &mut ServerMod) -> Result<(), Failure> {
    sm.trait_name = t.ident.to_string();
    for it in &t.items {
        match it {
            syn::TraitItem::Type(ty) => {
                // Stream<Item = Result<X, tonic::Status>>
                let mut item = None;
                for b in &ty.bounds {
                    if let syn::TypeParamBound::Trait(tb) = b {
                        if let Some(i) = tb.path.segments.last().and_then(|s| assoc_arg(s, "Item")) {
                            if let syn::Type::Path(tp) = i {
                                let a = tp.path.segments.last().map(type_args).unwrap_or_default();
                                if a.len() == 2 {
                                    item = Some(ts(a[0]));
                                }
                            }
                        }
                    }
                }
                sm.trait_streams.insert(ty.ident.to_string(), item.unwrap_or_default());
            }
            syn::TraitItem::Fn(f) => {
                let name = f.sig.ident.to_string();
                let here = format!("trait {}::{name}", sm.trait_name);
                let Some(syn::FnArg::Typed(arg)) = f.sig.inputs.iter().nth(1) else { bail!("C11/server-unreadable", "{here}: no request argument") };
                let Some(x) = unwrap_generic(&arg.ty, &["tonic::Request"]) else { bail!("C11/server-unreadable", "{here}: request argument {}", ts(&arg.ty)) };
                let (req_streaming, req) = match unwrap_generic(x, &["tonic::Streaming"]) {
                    Some(r) => (true, ts(r)),
                    None => (false, ts(x)),
                };
                let syn::ReturnType::Type(_, rt) = &f.sig.output else { bail!("C11/server-unreadable", "{here}: no return type") };
                let Some(y) = result_response(rt) else { bail!("C11/server-unreadable", "{here}: return type {}", ts(rt)) };
                let resp = if let Some(z) = unwrap_generic(y, &["BoxStream"]) {
                    TraitResp::Boxed(ts(z))
                } else if let Some(a) = ts(y).strip_prefix("Self::") {
                    TraitResp::Assoc(a.to_string())
                } else {
                    TraitResp::Plain(ts(y))
                };
                sm.trait_fns.insert(name, TraitFn { req_streaming, req, resp });
            }
            _ => {}
        }
    }
    Ok(())
}

struct MatchFinder<'a> {
    found: Vec<&'a syn::ExprMatch>,
}
impl<'ast> Visit<'ast> for MatchFinder<'ast> {
    fn visit_expr_match(&mut self, m: &'ast syn::ExprMatch) {
        if ts(&m.expr) == "req.uri().path()" {
            self.found.push(m);
        } else {
            visit::visit_expr_match(self, m);
        }
    }
}

fn extract_arm(modname: &str, lit: &str, body: &syn::Expr, sm: &ServerMod) -> Result<Side, Failure> {
    let here = format!("{modname} arm {lit:?}");
    let mut facts = BodyFacts::default();
    facts.visit_expr(body);
    ensure!(facts.grpc_calls.len() == 1, "C11/server-call-count", "{here}: grpc.<shape> calls: {:?}", facts.grpc_calls);
    ensure!(facts.service_impls.len() == 1, "C11/server-service-impl-count", "{here}: {} tonic::server::*Service impls", facts.service_impls.len());
    ensure!(facts.trait_calls.len() == 1, "C11/server-handler-call-count", "{here}: handler calls {:?}", facts.trait_calls);
    if let Some(b) = facts.bad.first() {
        return Err(fail("C11/server-unreadable", format!("{here}: {b}")));
    }
    ensure!(facts.codecs.len() == 1, "C11/server-codec-count", "{here}: codecs constructed: {:?}", facts.codecs);
    let codec = facts.codecs[0].clone();
    let shape = facts.grpc_calls[0].clone();
    let (kind, req, response, response_stream, call_req) = facts.service_impls[0].clone();
    ensure!(kind == service_trait_of(&shape), "C11/server-arm-shape-inconsistent", "{here}: implements {kind} but calls grpc.{shape}");
    let Some(resp) = response else { bail!("C11/server-unreadable", "{here}: no `type Response`") };
    let cs = shape == "client_streaming" || shape == "streaming";
    let ss = shape == "server_streaming" || shape == "streaming";
    // the request handed to the handler has the message type of the *Service<Req> parameter
    ensure!(call_req == Some((cs, req.clone())), "C11/server-arm-request-type", "{here}: call() takes (streaming, type) = {call_req:?}, expected ({cs}, {req})");
    // handler in the trait
    let (tr, handler) = facts.trait_calls[0].clone();
    ensure!(tr == sm.trait_name, "C11/server-handler-trait", "{here}: calls <T as {tr}>::{handler} but the module's trait is {}", sm.trait_name);
    let Some(tf) = sm.trait_fns.get(&handler) else { bail!("C11/server-handler-missing", "{here}: handler {handler} is not a method of trait {}", sm.trait_name) };
    ensure!(tf.req_streaming == cs && tf.req == req, "C11/server-trait-signature", "{here}: handler {handler} takes (streaming={}, {}) but the arm decodes (streaming={cs}, {req})", tf.req_streaming, tf.req);
    let item = match &tf.resp {
        TraitResp::Plain(t) => (false, t.clone()),
        TraitResp::Boxed(t) => (true, t.clone()),
        TraitResp::Assoc(a) => match sm.trait_streams.get(a) {
            Some(i) => (true, i.clone()),
            None => bail!("C11/server-trait-signature", "{here}: handler {handler} returns Self::{a}, which the trait does not declare"),
        },
    };
    ensure!(item == (ss, resp.clone()), "C11/server-trait-signature", "{here}: handler {handler} returns (streaming={}, {}) but the arm encodes (streaming={ss}, {resp})", item.0, item.1);
    ensure!(response_stream.is_some() == ss, "C11/server-arm-shape-inconsistent", "{here}: ResponseStream {response_stream:?} for shape {shape}");
    Ok(Side { codec, ident: handler, shape, req, resp })
}

fn extract_mod(m: &syn::ItemMod, ex: &mut Extracted) -> Result<(), Failure> {
    let Some((_, items)) = &m.content else { return Ok(()) };
    let modname = m.ident.to_string();
    let mut cm = ClientMod::default();
    let mut sm = ServerMod::default();
    let mut is_server = false;
    // pass 1: trait, consts
    for it in items {
        match it {
            syn::Item::Trait(t) => {
                // the service trait is the one carrying #[async_trait]
                if t.attrs.iter().any(|a| a.path().is_ident("async_trait")) {
                    extract_trait(t, &mut sm)?;
                }
            }
            syn::Item::Const(c) if c.ident == "SERVICE_NAME" => {
                is_server = true;
                match lit_str(&c.expr) {
                    Some(s) => sm.service_name.push(s),
                    None => bail!("C11/server-unreadable", "{modname}: SERVICE_NAME is not a string literal"),
                }
            }
            syn::Item::Mod(inner) => extract_mod(inner, ex)?,
            _ => {}
        }
    }
    // pass 2: impls
    for it in items {
        let syn::Item::Impl(i) = it else { continue };
        match &i.trait_ {
            None => {
                for ii in &i.items {
                    if let syn::ImplItem::Fn(f) = ii {
                        if let Some(x) = extract_client_fn(&modname, f)? {
                            cm.methods.push(x);
                        }
                    }
                }
            }
            Some((_, p, _)) if path_str(p).ends_with("NamedService") => {
                is_server = true;
                for ii in &i.items {
                    if let syn::ImplItem::Const(c) = ii {
                        if c.ident == "NAME" {
                            let v = match lit_str(&c.expr) {
                                Some(s) => Some(s),
                                None if ts(&c.expr) == "SERVICE_NAME" => sm.service_name.first().cloned(),
                                None => None,
                            };
                            match v {
                                Some(s) => sm.named.push(s),
                                None => bail!("C11/server-unreadable", "{modname}: NamedService::NAME = {}", ts(&c.expr)),
                            }
                        }
                    }
                }
            }
            Some((_, p, _)) if path_str(p) == "tonic::codegen::Service" => {
                for ii in &i.items {
                    let syn::ImplItem::Fn(f) = ii else { continue };
                    if f.sig.ident != "call" {
                        continue;
                    }
                    is_server = true;
                    let mut mf = MatchFinder { found: vec![] };
                    mf.visit_block(&f.block);
                    ensure!(mf.found.len() == 1, "C11/server-unreadable", "{modname}: {} `match req.uri().path()` in call()", mf.found.len());
                    for arm in &mf.found[0].arms {
                        match &arm.pat {
                            syn::Pat::Lit(l) => match &l.lit {
                                syn::Lit::Str(s) => {
                                    ensure!(arm.guard.is_none(), "C11/server-unreadable", "{modname}: guarded arm {:?}", s.value());
                                    let side = extract_arm(&modname, &s.value(), &arm.body, &sm)?;
                                    sm.arms.push((s.value(), side));
                                }
                                other => bail!("C11/server-unreadable", "{modname}: non-string arm {}", ts(other)),
                            },
                            syn::Pat::Wild(_) => sm.fallback_arms += 1,
                            other => bail!("C11/server-unreadable", "{modname}: unexpected arm pattern {}", ts(other)),
                        }
                    }
                }
            }
            _ => {}
        }
    }
    if !cm.methods.is_empty() {
        cm.stem = modname.strip_suffix("_client").unwrap_or(&modname).to_string();
        ex.clients.push(cm);
    }
    if is_server {
        sm.stem = modname.strip_suffix("_server").unwrap_or(&modname).to_string();
        ex.servers.push(sm);
    }
    Ok(())
}

fn extract(texts: &[String]) -> Result<Extracted, Failure> {
    let mut ex = Extracted::default();
    for t in texts {
        let file = match syn::parse_file(t) {
            Ok(f) => f,
            Err(e) => bail!("C11/emitted-code-does-not-parse", "syn: {e}; text starts {:?}", t.chars().take(200).collect::<String>()),
        };
        for it in &file.items {
            if let syn::Item::Mod(m) = it {
                extract_mod(m, &mut ex)?;
            }
        }
    }
    Ok(ex)
}

// ------------------------------------------------------------------------------------------- oracle

/// last path segment, raw prefix dropped, under `norm`
fn type_tail(t: &str) -> String {
    let last = t.rsplit("::").next().unwrap_or(t);
    norm(last.trim_start_matches("r#"))
}

fn type_matches(rust: &str, want: &str, proto: bool) -> bool {
    if !proto {
        return rust == want;
    }
    if want == ".google.protobuf.Empty" {
        return rust == "()";
    }
    rust != "()" && type_tail(rust) == norm(want.rsplit('.').next().unwrap_or(want))
}

fn split_path(p: &str) -> Option<(&str, &str)> {
    let rest = p.strip_prefix('/')?;
    let (svc, m) = rest.split_once('/')?;
    if svc.is_empty() || m.is_empty() || m.contains('/') {
        return None;
    }
    Some((svc, m))
}

fn judge(ex: &Extracted, want: &BTreeMap<String, Expect>, want_names: &BTreeSet<String>, o: &Opts, proto: bool) -> Result<(), Failure> {
    // ---- what must exist
    ensure!(ex.clients.is_empty() || o.client, "C11/client-built-though-disabled", "client code emitted with build_client(false)");
    ensure!(ex.servers.is_empty() || o.server, "C11/server-built-though-disabled", "server code emitted with build_server(false)");
    if o.client {
        ensure!(ex.clients.len() == want_names.len(), "C11/client-module-count", "{} client modules for {} services", ex.clients.len(), want_names.len());
    }
    if o.server {
        ensure!(ex.servers.len() == want_names.len(), "C11/server-module-count", "{} server modules for {} services", ex.servers.len(), want_names.len());
    }
    // ---- client side vs descriptor
    let mut client_all: BTreeMap<String, &Side> = BTreeMap::new();
    let mut client_prefix: BTreeMap<String, String> = BTreeMap::new();
    for c in &ex.clients {
        let mut prefix: Option<&str> = None;
        for (p, side) in &c.methods {
            let Some((svc, _)) = split_path(p) else { bail!("C11/client-path-malformed", "client {}::{} sends to {p:?}", c.stem, side.ident) };
            ensure!(prefix.map(|x| x == svc).unwrap_or(true), "C11/client-path-prefix-inconsistent", "client {} uses service prefixes {:?} and {svc:?}", c.stem, prefix);
            prefix = Some(svc);
            ensure!(client_all.insert(p.clone(), side).is_none(), "C11/client-duplicate-path", "two client methods send to {p:?}");
        }
        if let Some(p) = prefix {
            client_prefix.insert(c.stem.clone(), p.to_string());
        }
    }
    if o.client {
        let got: BTreeSet<&String> = client_all.keys().collect();
        let exp: BTreeSet<&String> = want.keys().collect();
        ensure!(got == exp, "C11/client-paths-vs-descriptor", "client sends to {:?}; the descriptor defines {:?}", got, exp);
        for (p, side) in &client_all {
            let w = &want[p];
            ensure!(side.shape == w.shape, "C11/client-shape-vs-descriptor", "{p}: client calls Grpc::{} but the descriptor says {}", side.shape, w.shape);
            ensure!(side.codec == w.codec, "C11/client-codec-vs-descriptor", "{p}: client (de)serialises with {} but the method's codec is {}", side.codec, w.codec);
            ensure!(type_matches(&side.req, &w.req, proto), "C11/client-request-type-vs-descriptor", "{p}: client request type {} for {}", side.req, w.req);
            ensure!(type_matches(&side.resp, &w.resp, proto), "C11/client-response-type-vs-descriptor", "{p}: client response type {} for {}", side.resp, w.resp);
        }
    }
    // ---- server side vs descriptor
    let mut server_all: BTreeMap<String, &Side> = BTreeMap::new();
    let mut server_names = BTreeSet::new();
    for s in &ex.servers {
        ensure!(s.service_name.len() == 1, "C11/server-service-name-count", "server {}: {} SERVICE_NAME consts", s.stem, s.service_name.len());
        ensure!(s.named.len() == 1, "C11/server-named-service-count", "server {}: {} NamedService impls", s.stem, s.named.len());
        let name = &s.service_name[0];
        ensure!(&s.named[0] == name, "C11/named-service-vs-service-name", "server {}: NamedService::NAME {:?} != SERVICE_NAME {:?}", s.stem, s.named[0], name);
        ensure!(s.fallback_arms == 1, "C11/server-fallback-arm", "server {}: {} wildcard arms", s.stem, s.fallback_arms);
        for (p, side) in &s.arms {
            let Some((svc, _)) = split_path(p) else { bail!("C11/server-path-malformed", "server {} dispatches on {p:?}", s.stem) };
            // the advertised name is what a router mounts the service under: /{NAME}/*
            ensure!(svc == name, "C11/service-name-vs-path-prefix", "server {}: SERVICE_NAME {:?} but dispatches on {p:?}", s.stem, name);
            ensure!(server_all.insert(p.clone(), side).is_none(), "C11/server-duplicate-arm", "two server arms for {p:?}");
        }
        ensure!(server_names.insert(name.clone()), "C11/server-duplicate-service-name", "two servers advertise {name:?}");
    }
    if o.server {
        let got: BTreeSet<&String> = server_all.keys().collect();
        let exp: BTreeSet<&String> = want.keys().collect();
        ensure!(got == exp, "C11/server-paths-vs-descriptor", "server dispatches on {:?}; the descriptor defines {:?}", got, exp);
        ensure!(&server_names == want_names, "C11/service-name-vs-descriptor", "servers advertise {:?}; the descriptor defines {:?}", server_names, want_names);
        for (p, side) in &server_all {
            let w = &want[p];
            ensure!(side.shape == w.shape, "C11/server-shape-vs-descriptor", "{p}: server calls Grpc::{} but the descriptor says {}", side.shape, w.shape);
            ensure!(side.codec == w.codec, "C11/server-codec-vs-descriptor", "{p}: server (de)serialises with {} but the method's codec is {}", side.codec, w.codec);
            ensure!(type_matches(&side.req, &w.req, proto), "C11/server-request-type-vs-descriptor", "{p}: server request type {} for {}", side.req, w.req);
            ensure!(type_matches(&side.resp, &w.resp, proto), "C11/server-response-type-vs-descriptor", "{p}: server response type {} for {}", side.resp, w.resp);
        }
    }
    // ---- client vs server
    if o.client && o.server {
        let cs: BTreeSet<&String> = client_all.keys().collect();
        let ss: BTreeSet<&String> = server_all.keys().collect();
        ensure!(cs == ss, "C11/client-paths-vs-server-arms", "client sends to {:?}, server dispatches on {:?}", cs, ss);
        for (p, c) in &client_all {
            let s = server_all[p];
            ensure!(c.shape == s.shape, "C11/client-vs-server-shape", "{p}: client {} vs server {}", c.shape, s.shape);
            ensure!(c.codec == s.codec, "C11/client-vs-server-codec", "{p}: client uses {} but the server uses {}", c.codec, s.codec);
            ensure!(c.req == s.req, "C11/client-vs-server-request-type", "{p}: client {} vs server {}", c.req, s.req);
            ensure!(c.resp == s.resp, "C11/client-vs-server-response-type", "{p}: client {} vs server {}", c.resp, s.resp);
            ensure!(c.ident == s.ident, "C11/client-vs-server-method-ident", "{p}: client method {} vs server handler {}", c.ident, s.ident);
        }
        // module pairing: foo_client <-> foo_server speak for the same service
        for s in &ex.servers {
            match client_prefix.get(&s.stem) {
                Some(pre) => ensure!(pre == &s.service_name[0], "C11/client-module-vs-server-module", "{}_client sends to /{pre}/* but {}_server is {:?}", s.stem, s.stem, s.service_name[0]),
                None => bail!("C11/client-module-vs-server-module", "no client module for server module {}_server (client modules {:?})", s.stem, client_prefix.keys().collect::<Vec<_>>()),
            }
        }
    }
    Ok(())
}

// ------------------------------------------------------------------------------------- part (b)

const HARNESS_MANIFEST: &str = include_str!(concat!(env!("CARGO_MANIFEST_DIR"), "/Cargo.toml"));
const SCRATCH: &str = "/tmp/vh-codegen-scratch";
const GENERATED_DIRS: [&str; 3] = ["tonic-health/src/generated", "tonic-reflection/src/generated", "tonic-types/src/generated"];

/// the repository this harness was built against: $VERIF_REPO, else the tonic-build path dependency
pub fn repo_root() -> String {
    if let Ok(r) = std::env::var("VERIF_REPO") {
        return r;
    }
    for line in HARNESS_MANIFEST.lines() {
        if let Some(rest) = line.trim().strip_prefix("tonic-build") {
            if let Some(i) = rest.find("path = \"") {
                let p = &rest[i + 8..];
                if let Some(j) = p.find('"') {
                    if let Some(root) = p[..j].strip_suffix("/tonic-build") {
                        return root.to_string();
                    }
                }
            }
        }
    }
    "/repo".to_string()
}

fn list_rs(dir: &std::path::Path) -> Result<BTreeSet<String>, String> {
    let mut out = BTreeSet::new();
    for e in std::fs::read_dir(dir).map_err(|e| format!("read_dir {dir:?}: {e}"))? {
        let e = e.map_err(|e| format!("{e}"))?;
        let n = e.file_name().to_string_lossy().to_string();
        if e.path().is_file() {
            out.insert(n);
        }
    }
    Ok(out)
}

fn first_difference(a: &[u8], b: &[u8]) -> String {
    let pos = a.iter().zip(b.iter()).position(|(x, y)| x != y).unwrap_or(a.len().min(b.len()));
    let line = a[..pos.min(a.len())].iter().filter(|c| **c == b'\n').count() + 1;
    let show = |x: &[u8]| {
        let s = pos.saturating_sub(30);
        let e = (pos + 50).min(x.len());
        String::from_utf8_lossy(&x[s.min(x.len())..e]).to_string()
    };
    format!("sizes {} (committed) / {} (generated); first difference at byte {pos}, line {line}: committed {:?} / generated {:?}", a.len(), b.len(), show(a), show(b))
}

fn regenerate(o: &mut Outcome) -> Result<(), Failure> {
    use std::process::Command;
    let infra = |what: String| Failure { sig: "C11/regenerate-could-not-run".into(), detail: what };
    let repo = repo_root();
    let target = format!("{}/target/codegen", verif_root());
    let _ = std::fs::remove_dir_all(SCRATCH);
    std::fs::create_dir_all(SCRATCH).map_err(|e| infra(format!("mkdir {SCRATCH}: {e}")))?;
    let r = (|| -> Result<(), Failure> {
        let st = Command::new("rsync")
            .args(["-a", "--exclude", "/target", "--exclude", ".git"])
            .arg(format!("{repo}/"))
            .arg(format!("{SCRATCH}/"))
            .output()
            .map_err(|e| infra(format!("rsync: {e}")))?;
        if !st.status.success() {
            return Err(infra(format!("rsync failed: {}", String::from_utf8_lossy(&st.stderr))));
        }
        // every committed file must be *produced*: start from empty output directories
        let mut committed: BTreeMap<String, Vec<u8>> = BTreeMap::new();
        for d in GENERATED_DIRS {
            let orig = std::path::Path::new(&repo).join(d);
            for n in list_rs(&orig).map_err(&infra)? {
                let bytes = std::fs::read(orig.join(&n)).map_err(|e| infra(format!("read {d}/{n}: {e}")))?;
                committed.insert(format!("{d}/{n}"), bytes);
                std::fs::remove_file(std::path::Path::new(SCRATCH).join(d).join(&n)).map_err(|e| infra(format!("rm scratch {d}/{n}: {e}")))?;
            }
        }
        // codegen bakes its own location in at compile time (`env!("CARGO_MANIFEST_DIR")`), which cargo's
        // fingerprint does not track: a binary left in the target directory by a build from another
        // checkout would silently rewrite *that* checkout. Make the bin crate dirty so it is always
        // rebuilt for the scratch copy (dependencies stay warm).
        let main_rs = std::path::Path::new(SCRATCH).join("codegen/src/main.rs");
        std::fs::OpenOptions::new()
            .write(true)
            .open(&main_rs)
            .and_then(|f| f.set_modified(std::time::SystemTime::now()))
            .map_err(|e| infra(format!("touch {main_rs:?}: {e}")))?;
        if committed.len() < 2 {
            return Err(infra(format!("only {} committed generated files found under {repo}", committed.len())));
        }
        let run = Command::new("cargo")
            .args(["run", "--offline", "--quiet", "-p", "codegen"])
            .current_dir(SCRATCH)
            .env("CARGO_TARGET_DIR", &target)
            .env_remove("RUSTFLAGS")
            .env_remove("CARGO_ENCODED_RUSTFLAGS")
            .output()
            .map_err(|e| infra(format!("cargo: {e}")))?;
        if !run.status.success() {
            let err = String::from_utf8_lossy(&run.stderr);
            let tail: Vec<&str> = err.lines().rev().take(12).collect();
            bail!("C11/codegen-run-failed", "`cargo run --offline -p codegen` in a copy of {repo} failed ({}): {}", run.status, tail.into_iter().rev().collect::<Vec<_>>().join(" | "));
        }
        let mut produced: BTreeMap<String, Vec<u8>> = BTreeMap::new();
        for d in GENERATED_DIRS {
            let dir = std::path::Path::new(SCRATCH).join(d);
            for n in list_rs(&dir).map_err(&infra)? {
                produced.insert(format!("{d}/{n}"), std::fs::read(dir.join(&n)).map_err(|e| infra(format!("read scratch {d}/{n}: {e}")))?);
            }
        }
        for (f, bytes) in &committed {
            match produced.get(f) {
                None => bail!("C11/committed-generated-code-stale", "{f}: committed, but the generator does not produce it"),
                Some(p) => ensure!(p == bytes, "C11/committed-generated-code-stale", "{f}: {}", first_difference(bytes, p)),
            }
        }
        for f in produced.keys() {
            ensure!(committed.contains_key(f), "C11/committed-generated-code-stale", "{f}: produced by the generator but not committed");
        }
        o.nontrivial = true;
        o.label("regenerate");
        for n in [8usize, 4, 2] {
            if committed.len() >= n {
                o.label(match n {
                    8 => "regenerate_8_files_compared",
                    4 => "regenerate_ge4_files_compared",
                    _ => "regenerate_ge2_files_compared",
                });
                break;
            }
        }
        Ok(())
    })();
    let _ = std::fs::remove_dir_all(SCRATCH);
    r
}

// ---------------------------------------------------------------------------------------------- run

fn is_keyword(n: &str) -> bool {
    KEYWORDS.iter().any(|k| k.eq_ignore_ascii_case(n))
}
fn odd_ident(n: &str) -> bool {
    is_keyword(n) || n.contains('_') || n.chars().any(|c| c.is_ascii_digit()) || n.chars().next().map(|c| c.is_lowercase()).unwrap_or(false) || ACRONYMS.contains(&n)
}

fn label_common(o: &mut Outcome, pkg: &str, opts: &Opts, kinds: &BTreeSet<&'static str>, nmeth: usize) {
    o.label(match pkg.matches('.').count() {
        _ if pkg.is_empty() => "pkg_absent",
        0 => "pkg_single",
        _ => "pkg_nested",
    });
    o.label_if(!opts.emit_package, "opt_no_emit_package");
    o.label_if(!opts.emit_package && !pkg.is_empty(), "opt_no_emit_package_with_package");
    o.label_if(opts.default_stubs, "opt_default_stubs");
    o.label_if(opts.arc_self, "opt_arc_self");
    o.label_if(opts.client && !opts.server, "client_only");
    o.label_if(!opts.client && opts.server, "server_only");
    o.label_if(opts.client && opts.server, "both_sides");
    for k in kinds {
        o.label(match *k {
            "unary" => "kind_unary",
            "server_streaming" => "kind_server_streaming",
            "client_streaming" => "kind_client_streaming",
            _ => "kind_bidi",
        });
    }
    o.label_if(kinds.len() == 4, "all_four_kinds");
    o.label(match nmeth {
        1 => "methods_1",
        2..=3 => "methods_2_3",
        4..=6 => "methods_4_6",
        _ => "methods_7plus",
    });
}

fn run_proto(p: &Program, o: &mut Outcome) -> Result<(), Failure> {
    if p.msgs.is_empty() || p.services.is_empty() || !(p.opts.client || p.opts.server) {
        o.label("degenerate_case");
        return Ok(());
    }
    // replay files written by hand may contain colliding names; the generator never does
    let mut taken = BTreeSet::new();
    let mut ok = p.msgs.iter().filter(|m| m.place != 3).all(|m| taken.insert(norm(&m.name))) && p.services.iter().all(|s| taken.insert(norm(&s.name)));
    for s in &p.services {
        let mut t = BTreeSet::new();
        ok &= s.methods.iter().all(|m| t.insert(norm(&m.name)));
    }
    if !ok {
        o.label("degenerate_case");
        return Ok(());
    }
    let kinds: BTreeSet<&'static str> = p.services.iter().flat_map(|s| s.methods.iter()).map(|m| shape_of(m.cs, m.ss)).collect();
    let nmeth: usize = p.services.iter().map(|s| s.methods.len()).sum();
    let any_kw = p.services.iter().flat_map(|s| s.methods.iter()).any(|m| is_keyword(&m.name));
    let any_odd = p.services.iter().any(|s| odd_ident(&s.name) || s.methods.iter().any(|m| odd_ident(&m.name)));
    label_common(o, &p.pkg, &p.opts, &kinds, nmeth);
    o.label("path_prost");
    o.label_if(any_kw, "method_keyword");
    o.label_if(p.services.iter().flat_map(|s| s.methods.iter()).any(|m| m.name.contains('_')), "method_underscore");
    o.label_if(p.services.iter().flat_map(|s| s.methods.iter()).any(|m| m.name.chars().any(|c| c.is_ascii_digit())), "method_digits");
    o.label_if(p.services.iter().flat_map(|s| s.methods.iter()).any(|m| m.name.chars().next().unwrap().is_lowercase()), "method_lowercase_first");
    o.label_if(p.services.iter().any(|s| odd_ident(&s.name)), "service_odd_ident");
    o.label_if(p.services.len() > 1, "services_2plus");
    o.label_if(p.used(1), "type_nested");
    o.label_if(p.used(2), "type_imported");
    o.label_if(p.used(3), "type_google_empty");
    o.label_if(p.services.iter().flat_map(|s| s.methods.iter()).any(|m| p.fq(m.req) != p.fq(m.resp)), "req_differs_from_resp");
    o.nontrivial = (nmeth >= 2 && kinds.len() >= 2) || any_odd || p.pkg.is_empty() || p.pkg.contains('.');

    let texts = match generate_proto(p)? {
        Ok(t) => t,
        Err(e) => {
            // the harness' own grammar produced something protox refuses: not a verdict about tonic
            o.label("proto_rejected_by_protox");
            o.nontrivial = false;
            let _ = e;
            return Ok(());
        }
    };
    let ex = extract(&texts)?;
    let (want, names) = p.expected();
    judge(&ex, &want, &names, &p.opts, true)
}

fn run_manual(m: &Manual, o: &mut Outcome) -> Result<(), Failure> {
    if m.methods.is_empty() || !(m.opts.client || m.opts.server) {
        o.label("degenerate_case");
        return Ok(());
    }
    let mut t = BTreeSet::new();
    let mut t2 = BTreeSet::new();
    if !m.methods.iter().all(|x| t.insert(x.rust.clone()) && t2.insert(norm(&x.route))) || (m.via_builder && (m.route.is_some() || !m.opts.emit_package)) {
        o.label("degenerate_case");
        return Ok(());
    }
    let kinds: BTreeSet<&'static str> = m.methods.iter().map(|x| shape_of(x.cs, x.ss)).collect();
    label_common(o, &m.pkg, &m.opts, &kinds, m.methods.len());
    o.label("path_manual");
    o.label_if(m.route.is_some(), "manual_service_ident_differs_from_name");
    o.label_if(m.via_builder, "manual_via_builder_files");
    o.label_if(m.methods.iter().any(|x| x.rust.starts_with("r#")), "manual_raw_ident");
    o.label_if(m.methods.iter().any(|x| is_keyword(&x.route)), "method_keyword");
    o.label_if(m.methods.iter().map(|x| x.codec_path()).collect::<BTreeSet<_>>().len() > 1, "manual_codecs_differ_between_methods");
    // Rust name and route name are drawn independently: every such case has an "odd identifier"
    o.nontrivial = true;
    let texts = generate_manual(m)?;
    let ex = extract(&texts)?;
    let (want, names) = m.expected();
    judge(&ex, &want, &names, &m.opts, false)
}

pub struct C11;

impl Prop for C11 {
    const ID: &'static str = "C11";
    type Case = Case;
    fn strategy() -> BoxedStrategy<Case> {
        strategy()
    }
    fn run(case: &Case, o: &mut Outcome) -> Result<(), Failure> {
        match case {
            Case::Proto(p) => run_proto(p, o),
            Case::Manual(m) => run_manual(m, o),
            Case::Regenerate => regenerate(o),
        }
    }
    fn rule() -> &'static str {
        "program has >=2 methods of >=2 streaming kinds, or a keyword/odd identifier (underscore, digit, lower-case first letter, acronym; manual builder: route name drawn independently of the Rust name), or no/nested package; Regenerate counts when >=2 committed files were compared Manual methods carry one of four codec paths each: client and server construct exactly the method's codec. Builder options equal to the documented defaults are left to the builders' Default in half of the cases; build_transport is none/true/false."
    }
    fn assumptions() -> Vec<String> {
        vec![
            "names are pairwise distinct after lower-casing and removing underscores (prost's case conversion would otherwise merge them) and at least two letters long; collisions with the generator's own generic parameters / inherent methods are outside the property".into(),
            "the emitted code is parsed (syn), not compiled".into(),
            "proto message types are compared with the descriptor by their last path segment modulo case/underscores; google.protobuf.Empty must be `()`".into(),
            format!("part (b) runs `cargo run --offline -p codegen` in an rsync copy of {} at {SCRATCH} (no protoc needed: codegen uses protox)", repo_root()),
        ]
    }
    fn cases(tier: Tier) -> u64 {
        match tier {
            Tier::Quick => 2400,
            Tier::Thorough => 72_000,
        }
    }
    fn fixed_cases(_tier: Tier) -> Vec<Case> {
        let mut v = vec![Case::Regenerate];
        // the option matrix on one service with the four shapes, prost path
        let msgs = vec![Msg { name: "HelloRequest".into(), place: 0 }, Msg { name: "HelloReply".into(), place: 0 }];
        let methods = vec![
            Meth { name: "SayHello".into(), cs: false, ss: false, req: 0, resp: 1 },
            Meth { name: "Type".into(), cs: false, ss: true, req: 0, resp: 1 },
            Meth { name: "RecordRoute".into(), cs: true, ss: false, req: 1, resp: 0 },
            Meth { name: "Chat2".into(), cs: true, ss: true, req: 1, resp: 1 },
        ];
        for pkg in ["", "helloworld", "a.b"] {
            for bits in 0..8u8 {
                for (client, server) in [(true, true), (true, false), (false, true)] {
                    v.push(Case::Proto(Program {
                        pkg: pkg.into(),
                        dep_pkg: "dep.v1".into(),
                        msgs: msgs.clone(),
                        services: vec![Svc { name: "Greeter".into(), methods: methods.clone() }],
                        opts: Opts { emit_package: bits & 1 == 0, default_stubs: bits & 2 != 0, arc_self: bits & 4 != 0, client, server, transport: None, explicit: true },
                    }));
                }
            }
        }
        v
    }
    fn fixed_is_exhaustive() -> Option<&'static str> {
        Some("part (b): every file under tonic-health, tonic-reflection and tonic-types src/generated (4 service/message files + 4 *_fds.rs) is regenerated by the real codegen binary in a copy of the repository and byte-compared, both directions (stale, missing, extra); plus the full option matrix {package absent/single/nested} x {emit_package, default stubs, arc self} x {both, client only, server only} on a four-shape service")
    }
}
