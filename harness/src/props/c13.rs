//! C13 – graceful shutdown loses no accepted call.
use crate::infra::blob::hex;
use crate::infra::handler::{CallLog, ErrKind, HandlerScript, RespMsg, Shared};
use crate::infra::md::MdEntry;
use crate::infra::net::Net;
use crate::infra::rt;
use crate::infra::runner::*;
use crate::props::c02::{self, judge_client, pipe_schedule, status_spec, wire_blob, Observed, Shape};
use crate::svc::vt;
use crate::{bail, ensure};
use proptest::prelude::*;
use serde::{Deserialize, Serialize};
use std::sync::{Arc, Mutex};
use std::time::Duration;

#[derive(Clone, Debug, Serialize, Deserialize)]
pub struct CallSpec {
    pub shape: Shape,
    pub start_ms: u32,
    pub script: HandlerScript,
}

#[derive(Clone, Debug, Serialize, Deserialize)]
pub struct ConnSpec {
    pub calls: Vec<CallSpec>,
    pub c2s: Vec<u8>,
    pub s2c: Vec<u8>,
}

#[derive(Clone, Debug, Serialize, Deserialize)]
pub enum Signal {
    /// virtual time
    AtMs(u32),
    /// when the handler of call `sel` is entered
    OnEntered(u16),
    /// after the handler of call `sel` has sent message `j`
    OnSent(u16, u8),
    /// when the handler of call `sel` completes
    OnCompleted(u16),
}

#[derive(Clone, Debug, Serialize, Deserialize)]
pub struct Case {
    pub conns: Vec<ConnSpec>,
    pub signal: Signal,
    /// offer one more connection after the signal
    pub post_conn: bool,
    /// start one more call on the first (old) connection after the signal
    pub post_call: bool,
    pub rt_seed: u64,
    /// connections that are all offered at the very instant the (time-placed) signal fires
    #[serde(default)]
    pub backlog: u8,
    /// the incoming stream ends (listener closed / producer gone) right after the signal, while calls drain
    #[serde(default)]
    pub close_listener: bool,
    /// the listener reports an accept error while calls are in flight (before the signal)
    #[serde(default)]
    pub accept_error: bool,
    /// one streaming call keeps sending for a long (virtual) time after the signal: two more messages, 25 s apart
    #[serde(default)]
    pub long_tail: bool,
    /// the incoming stream ends at this virtual time whatever the signal does (possibly before it): the server
    /// then drains by itself; serve must still wait for the accepted connections
    #[serde(default)]
    pub early_close_ms: Option<u16>,
    /// `Server::max_connection_age`: connections are wound down gracefully at that age, before or after the signal
    #[serde(default)]
    pub max_age_ms: Option<u16>,
}

fn call_spec() -> BoxedStrategy<CallSpec> {
    prop_oneof![Just(Shape::Unary), Just(Shape::ServerStream), Just(Shape::Bidi)]
        .prop_flat_map(|shape| {
            let n = if shape == Shape::Unary { 1usize..=1 } else { 0usize..=4 };
            (
                prop_oneof![3 => 0u32..=5, 2 => 5u32..=120],
                prop_oneof![2 => Just(0u32), 3 => 1u32..=200],
                proptest::collection::vec((wire_blob(false), prop_oneof![2 => Just(0u32), 3 => 1u32..=80]), n),
                proptest::option::weighted(0.3, status_spec()),
                prop_oneof![Just(ErrKind::Handler), Just(ErrKind::StreamItem)],
            )
                .prop_map(move |(start_ms, latency_ms, msgs, outcome, ek)| CallSpec {
                    shape,
                    start_ms,
                    script: HandlerScript {
                        initial_md: vec![],
                        msgs: msgs.into_iter().map(|(data, delay_ms)| RespMsg { data, pend: 0, delay_ms }).collect(),
                        err_kind: outcome.as_ref().map(|_| ek.clone()),
                        outcome,
                        latency_ms,
                        disable_compression: false,
                        drain_first: false,
                    },
                })
        })
        .boxed()
}

pub fn strategy() -> BoxedStrategy<Case> {
    let conn = (proptest::collection::vec(call_spec(), 1..=4), pipe_schedule(), pipe_schedule()).prop_map(|(calls, c2s, s2c)| ConnSpec { calls, c2s, s2c });
    let signal = prop_oneof![
        3 => (0u32..=300).prop_map(|t| Signal::AtMs(t + 1)),
        2 => any::<u16>().prop_map(Signal::OnEntered),
        3 => (any::<u16>(), 0u8..4).prop_map(|(s, j)| Signal::OnSent(s, j)),
        2 => any::<u16>().prop_map(Signal::OnCompleted),
    ];
    (
        proptest::collection::vec(conn, 1..=3),
        signal,
        any::<bool>(),
        any::<bool>(),
        any::<u64>(),
        prop_oneof![4 => Just(0u8), 1 => Just(30u8)],
        proptest::bool::weighted(0.3),
        proptest::bool::weighted(0.2),
        proptest::bool::weighted(0.2),
        (proptest::option::weighted(0.15, 1u16..=150), proptest::option::weighted(0.15, 1u16..=200)),
    )
        .prop_map(|(mut conns, signal, post_conn, post_call, rt_seed, backlog, close_listener, accept_error, long_tail, (early_close_ms, max_age_ms))| {
            // an early end of the incoming stream is a scenario of its own
            let (post_conn, post_call, backlog, close_listener) = if early_close_ms.is_some() { (false, false, 0, false) } else { (post_conn, post_call, backlog, close_listener) };
            let backlog = if matches!(signal, Signal::AtMs(_)) { backlog } else { 0 };
            if long_tail {
                // the first streaming call (if any) gets a long tail
                if let Some(call) = conns.iter_mut().flat_map(|c| c.calls.iter_mut()).find(|c| c.shape != Shape::Unary) {
                    for _ in 0..2 {
                        call.script.msgs.push(RespMsg { data: crate::infra::blob::Blob::of(b"tail"), pend: 0, delay_ms: 25_000 });
                    }
                }
            }
            Case { conns, signal, post_conn: post_conn && !close_listener, post_call, rt_seed, backlog, close_listener, accept_error, long_tail, early_close_ms, max_age_ms }
        })
        .boxed()
}

fn script_md(idx: usize) -> Vec<MdEntry> {
    vec![MdEntry { name: "x-script".into(), val: hex(idx.to_string().as_bytes()) }]
}

#[derive(Debug)]
struct CallResult {
    script: usize,
    shape: Shape,
    ob: Observed,
    started_ms: u64,
    ended_ms: u64,
}

#[derive(Debug, Default)]
struct Scenario {
    calls: Vec<CallResult>,
    serve_done_ms: Option<u64>,
    serve_result_ok: bool,
    signal_ms: Option<u64>,
    post_conn: Option<(bool, u64)>,
    listener_closed_ms: Option<u64>,
    post_call: Option<CallResult>,
    conn_closed_ms: Vec<Option<u64>>,
    accepted_conns: usize,
    /// of the backlog connections offered at the instant of the signal: how many the server started serving
    backlog_offered: usize,
    backlog_served: usize,
}

pub fn run(c: &Case, o: &mut Outcome) -> Result<(), Failure> {
    // flatten scripts: one per call, + one for the post-signal connection, + one for the post-signal call
    let mut scripts: Vec<HandlerScript> = vec![];
    let mut plan: Vec<(usize, usize, CallSpec)> = vec![]; // (conn, script idx, spec)
    for (ci, conn) in c.conns.iter().enumerate() {
        for call in &conn.calls {
            plan.push((ci, scripts.len(), call.clone()));
            scripts.push(call.script.clone());
        }
    }
    let post_conn_script = scripts.len();
    scripts.push(HandlerScript { msgs: vec![RespMsg { data: crate::infra::blob::Blob::of(b"late"), pend: 0, delay_ms: 0 }], ..Default::default() });
    let post_call_script = scripts.len();
    scripts.push(HandlerScript { msgs: vec![RespMsg { data: crate::infra::blob::Blob::of(b"late2"), pend: 0, delay_ms: 0 }], ..Default::default() });
    let n_calls = plan.len();

    let notify = Arc::new(tokio::sync::Notify::new());
    let mut sh = Shared::new(scripts.clone());
    {
        let sig = c.signal.clone();
        let log = sh.log.clone();
        let notify = notify.clone();
        sh.on_event = Some(Arc::new(move |idx, ev, n| {
            let script = log.lock().unwrap()[idx].script;
            let hit = match &sig {
                Signal::AtMs(_) => false,
                Signal::OnEntered(s) => ev == "entered" && script == crate::infra::gen::pick(*s, n_calls),
                Signal::OnSent(s, j) => ev == "sent" && script == crate::infra::gen::pick(*s, n_calls) && n == *j as usize,
                Signal::OnCompleted(s) => ev == "completed" && script == crate::infra::gen::pick(*s, n_calls),
            };
            if hit {
                notify.notify_one();
            }
        }));
    }
    let schedules: Vec<(Vec<u8>, Vec<u8>)> = c.conns.iter().map(|k| (k.c2s.clone(), k.s2c.clone())).collect();
    let (net, incoming) = Net::new(schedules);
    let case = c.clone();
    let sh2 = sh.clone();
    let n_conns = c.conns.len();
    let res = rt::run_virtual(c.rt_seed, Duration::from_secs(7200), async move {
        let scen = Arc::new(Mutex::new(Scenario::default()));
        let fired = Arc::new(tokio::sync::Notify::new());
        // ---- server
        let signal_fut = {
            let notify = notify.clone();
            let fired = fired.clone();
            let scen = scen.clone();
            let sig = case.signal.clone();
            let backlog = case.backlog;
            async move {
                match sig {
                    // with a backlog the opener task queues the connections and then fires the signal in
                    // the same poll, so that the accept loop sees both ready at once
                    Signal::AtMs(_) if backlog > 0 => notify.notified().await,
                    Signal::AtMs(t) => tokio::time::sleep(Duration::from_millis(t as u64)).await,
                    _ => {
                        // event-triggered, with a late fallback so that the scenario always shuts down
                        tokio::select! {
                            _ = notify.notified() => {}
                            _ = tokio::time::sleep(Duration::from_millis(5_000)) => {}
                        }
                    }
                }
                scen.lock().unwrap().signal_ms = rt::virtual_ms();
                fired.notify_waiters();
                fired.notify_one();
            }
        };
        let mut builder = tonic::transport::Server::builder();
        if let Some(a) = case.max_age_ms {
            builder = builder.max_connection_age(Duration::from_millis(a as u64));
        }
        let router = builder.add_service(vt::raw_server::RawServer::new(sh2.clone()));
        let serve_done = Arc::new(tokio::sync::Notify::new());
        let srv = {
            let scen = scen.clone();
            let serve_done = serve_done.clone();
            tokio::spawn(async move {
                let r = router.serve_with_incoming_shutdown(incoming, signal_fut).await;
                {
                    let mut s = scen.lock().unwrap();
                    s.serve_done_ms = rt::virtual_ms();
                    s.serve_result_ok = r.is_ok();
                }
                serve_done.notify_one();
            })
        };
        if let Some(t) = case.early_close_ms {
            let net = net.clone();
            let scen = scen.clone();
            tokio::spawn(async move {
                tokio::time::sleep(Duration::from_millis(t as u64)).await;
                scen.lock().unwrap().listener_closed_ms = rt::virtual_ms();
                net.close_listener();
            });
        }
        // ---- connections, all at t = 0
        let mut channels = vec![];
        for _ in 0..n_conns {
            match net.channel().await {
                Ok(ch) => channels.push(ch),
                Err(e) => return Err(format!("connect: {e:?}")),
            }
        }
        rt::quiesce().await;
        scen.lock().unwrap().accepted_conns = n_conns;
        if case.accept_error {
            // e.g. EMFILE from accept(2): the server must carry on (and later shut down gracefully)
            let net = net.clone();
            tokio::spawn(async move {
                tokio::time::sleep(Duration::from_millis(1)).await;
                net.inject_accept_error(std::io::ErrorKind::Other);
            });
        }
        // ---- a backlog of connections offered in the same instant in which the signal fires
        let backlog_task = match (&case.signal, case.backlog) {
            (Signal::AtMs(t), b) if b > 0 => {
                let net = net.clone();
                let notify_b = notify.clone();
                let t = *t as u64;
                Some(tokio::spawn(async move {
                    tokio::time::sleep(Duration::from_millis(t)).await;
                    let mut held = vec![];
                    for _ in 0..b {
                        if let Ok((io, h)) = net.open() {
                            // a real HTTP/2 client on each of them, so that an accepted one can be shut
                            // down gracefully by the server (it answers GOAWAY by closing)
                            let t = tokio::spawn(async move {
                                if let Ok((send, conn)) = h2::client::handshake(io).await {
                                    let _ = conn.await;
                                    drop(send);
                                }
                            });
                            held.push((t, h));
                        }
                    }
                    notify_b.notify_one();
                    held
                }))
            }
            _ => None,
        };
        // ---- calls
        let mut tasks = vec![];
        for (ci, script, spec) in plan.clone() {
            let ch = channels[ci].clone();
            tasks.push(tokio::spawn(async move {
                tokio::time::sleep(Duration::from_millis(spec.start_ms as u64)).await;
                let started_ms = rt::virtual_ms().unwrap_or(0);
                let msgs = vec![(b"req".to_vec(), 0u8)];
                let ob = c02::calls_raw(ch, spec.shape, &script_md(script), msgs).await;
                CallResult { script, shape: spec.shape, ob, started_ms, ended_ms: rt::virtual_ms().unwrap_or(0) }
            }));
        }
        // ---- after the signal
        let post = {
            let net = net.clone();
            let scen = scen.clone();
            let fired = fired.clone();
            let ch0 = channels[0].clone();
            let (pc, pk) = (case.post_conn, case.post_call);
            let closer = case.close_listener;
            let serve_done = serve_done.clone();
            tokio::spawn(async move {
                tokio::select! {
                    _ = fired.notified() => {}
                    // the server wound down by itself (incoming stream ended before the signal)
                    _ = serve_done.notified() => return,
                }
                if closer {
                    // the incoming stream ends while accepted calls are still draining
                    net.close_listener();
                }
                rt::quiesce().await;
                if pk {
                    let started_ms = rt::virtual_ms().unwrap_or(0);
                    let ob = c02::calls_raw(ch0, Shape::Unary, &script_md(post_call_script), vec![(b"req".to_vec(), 0)]).await;
                    scen.lock().unwrap().post_call = Some(CallResult { script: post_call_script, shape: Shape::Unary, ob, started_ms, ended_ms: rt::virtual_ms().unwrap_or(0) });
                }
                if pc {
                    let ok = match net.channel().await {
                        Err(_) => false,
                        Ok(ch) => {
                            let ob = c02::calls_raw(ch, Shape::Unary, &script_md(post_conn_script), vec![(b"req".to_vec(), 0)]).await;
                            ob.call_err.is_none()
                        }
                    };
                    scen.lock().unwrap().post_conn = Some((ok, rt::virtual_ms().unwrap_or(0)));
                }
            })
        };
        for t in tasks {
            match t.await {
                Ok(r) => scen.lock().unwrap().calls.push(r),
                Err(e) => return Err(format!("call task panicked: {e}")),
            }
        }
        // the serve future must resolve by itself, with the client channels still alive
        let _ = srv.await;
        let _ = post.await;
        rt::quiesce().await;
        if let Some(bt) = backlog_task {
            if let Ok(held) = bt.await {
                let mut s = scen.lock().unwrap();
                s.backlog_offered = held.len();
                // a connection the server started to serve has received the server's HTTP/2 preface
                s.backlog_served = held.iter().filter(|(_, h)| h.s2c.lock().unwrap().written > 0).count();
            }
        }
        {
            let mut s = scen.lock().unwrap();
            let conns = net.conns.lock().unwrap();
            s.conn_closed_ms = conns.iter().map(|h| h.s2c.lock().unwrap().closed_at_ms).collect();
        }
        drop(channels);
        let out = std::mem::take(&mut *scen.lock().unwrap());
        Ok(out)
    });
    let scen = match res {
        Err(_) => bail!("C13/never-resolves", "scenario did not finish: a call or the serve future never resolves (virtual-time watchdog; client channels still alive)"),
        Ok(Err(e)) => bail!("C13/setup", "{e}"),
        Ok(Ok(s)) => s,
    };
    let log: Vec<CallLog> = sh.log.lock().unwrap().clone();
    // shutdown starts with the signal, or with the end of the incoming stream if that comes first
    let signal_ms = scen.signal_ms.unwrap_or(u64::MAX).min(scen.listener_closed_ms.unwrap_or(u64::MAX));
    o.label_if(scen.listener_closed_ms.map(|t| t < scen.signal_ms.unwrap_or(u64::MAX)).unwrap_or(false), "incoming_ends_before_the_signal");
    o.label_if(c.max_age_ms.is_some(), "max_connection_age_set");

    // ---- classes
    let in_flight: Vec<&CallLog> = log.iter().filter(|l| l.entered_ms.map(|e| e <= signal_ms).unwrap_or(false) && l.completed_ms.map(|d| d >= signal_ms).unwrap_or(true)).collect();
    o.nontrivial = !in_flight.is_empty();
    o.label_if(in_flight.is_empty(), "signal_with_nothing_in_flight");
    o.label_if(in_flight.iter().any(|l| l.method != "Unary"), "signal_mid_stream_call");
    o.label_if(in_flight.iter().any(|l| l.completed_ms == Some(signal_ms)), "signal_at_completion");
    o.label_if(in_flight.iter().any(|l| l.entered_ms == Some(signal_ms)), "signal_at_entry");
    o.label_if(c.conns.len() > 1, "multi_connection");
    o.label_if(log.len() < n_calls, "some_calls_never_entered");
    o.label_if(c.post_conn, "post_signal_connection");
    o.label_if(c.post_call, "post_signal_call_on_old_connection");
    o.label_if(c.close_listener, "incoming_ends_during_drain");
    o.label_if(c.accept_error, "accept_error_injected");
    o.label_if(c.long_tail && c.conns.iter().flat_map(|k| k.calls.iter()).any(|k| k.script.msgs.iter().any(|m| m.delay_ms >= 25_000)), "stream_outlasts_signal_by_50s");
    o.label_if(matches!(c.signal, Signal::AtMs(_)), "signal_by_time");
    o.label_if(!matches!(c.signal, Signal::AtMs(_)), "signal_by_handler_event");

    // ---- 1. every entered call ran to completion and its caller saw the true outcome
    for l in &log {
        ensure!(!l.cancelled, "C13/accepted-call-cancelled", "handler of call script {} ({}) was dropped before completion (entered at {:?} ms, signal at {signal_ms} ms)", l.script, l.method, l.entered_ms);
        ensure!(l.completed, "C13/accepted-call-not-completed", "handler of call script {} never completed", l.script);
    }
    for r in scen.calls.iter().chain(scen.post_call.iter()) {
        let entered = log.iter().any(|l| l.script == r.script);
        if entered {
            if let Err(mut f) = judge_client(r.shape, &scripts[r.script], &r.ob) {
                f.sig = f.sig.replace("C02/", "C13/accepted-call-outcome/");
                f.detail = format!("call script {} (started {} ms, ended {} ms, signal {} ms): {}", r.script, r.started_ms, r.ended_ms, signal_ms, f.detail);
                return Err(f);
            }
        } else {
            // never reached a handler: it may fail, but it must not report success
            let ok = r.ob.call_err.is_none() && r.ob.stream_err.is_none();
            ensure!(!ok, "C13/success-without-handler", "call script {} succeeded although no handler ran for it", r.script);
        }
    }
    ensure!(scen.calls.len() == n_calls, "C13/call-lost", "{} of {} calls reported", scen.calls.len(), n_calls);
    // ---- 2. nothing is accepted after the signal
    ensure!(!log.iter().any(|l| l.script == post_conn_script), "C13/connection-accepted-after-signal", "a handler ran for a call on a connection offered after the signal");
    if let Some((ok, _)) = scen.post_conn {
        ensure!(!ok, "C13/connection-accepted-after-signal", "a call on a connection offered after the signal succeeded");
    }
    // a backlog queued at the instant of the signal: the accept loop may win a few coin flips against
    // the signal, but it must not keep accepting (30 in a row has probability 2^-30 on a correct tree)
    if scen.backlog_offered >= 24 {
        o.label("backlog_at_signal_instant");
        o.label_if(scen.backlog_served > 0, "backlog_some_accepted_at_tie");
        ensure!(scen.backlog_served < scen.backlog_offered, "C13/keeps-accepting-after-signal", "all {} connections queued at the instant of the signal were accepted and served", scen.backlog_offered);
    }
    // ---- 3. serve resolves, and only after every accepted connection has closed
    let Some(done) = scen.serve_done_ms else { bail!("C13/serve-never-resolves", "serve future did not resolve") };
    ensure!(scen.serve_result_ok, "C13/serve-error", "serve future resolved with an error");
    ensure!(done >= signal_ms, "C13/serve-resolved-before-signal", "serve resolved at {done} ms, signal at {signal_ms} ms");
    for (i, cl) in scen.conn_closed_ms.iter().take(scen.accepted_conns).enumerate() {
        match cl {
            None => bail!("C13/serve-resolved-with-open-connection", "serve resolved at {done} ms but the server side of accepted connection {i} is still open"),
            Some(t) => ensure!(*t <= done, "C13/serve-resolved-with-open-connection", "serve resolved at {done} ms, accepted connection {i} closed at {t} ms"),
        }
    }
    for l in &log {
        if let Some(t) = l.completed_ms {
            ensure!(t <= done, "C13/serve-resolved-before-call-finished", "serve resolved at {done} ms, handler of script {} completed at {t} ms", l.script);
        }
    }
    Ok(())
}

pub struct C13;
impl Prop for C13 {
    const ID: &'static str = "C13";
    type Case = Case;
    fn strategy() -> BoxedStrategy<Case> {
        strategy()
    }
    fn run(c: &Case, o: &mut Outcome) -> Result<(), Failure> {
        run(c, o)
    }
    fn rule() -> &'static str {
        "proptest over shutdown histories in virtual time: Server::serve_with_incoming_shutdown over an mpsc-fed stream of in-memory pipes; 1-3 connections x 1-4 calls (unary with latency; server-streaming / bidi with 0-4 messages and inter-message delays; OK or error outcomes), start times 0-120 ms; the signal fires at a virtual time 1-300 ms or is triggered by a handler event (handler i entered / handler i sent message j / handler i completed); pipe fragmentation per connection; scheduler seed; optionally one more connection offered and one more call on an old connection after the signal. Oracle (history invariants): every call whose handler was entered is never cancelled (drop guard), completes, and its client outcome equals the script; calls that never reached a handler may fail but never report success; no handler runs for a connection offered after the signal; the serve future resolves (virtual-time watchdog, client channels still alive), not before the signal, not before the server half of every accepted connection closed, not before every handler finished. Also: the incoming stream ending at its own time (before the signal: the server drains by itself and must still wait for its connections) and Server::max_connection_age expiring before or after the signal. Non-trivial: the signal (or the earlier end of the incoming stream) lands while >=1 handler is entered and unfinished. Also: a non-transient error item injected into the incoming stream before the signal (the server keeps serving and still drains), and streams that go on for 25 s after the signal (longer than the HTTP/2 keep-alive timeout)."
    }
    fn assumptions() -> Vec<String> {
        vec![
            "all connections are opened and accepted at t=0 (runtime quiesced) and the signal never fires at t=0, so 'accepted connection' is unambiguous".into(),
            "client-side connect success proves nothing (hyper's h2 handshake does not wait for the server): post-signal acceptance is judged by handler invocation and call outcome".into(),
        ]
    }
    fn cases(t: Tier) -> u64 {
        match t {
            Tier::Quick => 12_000,
            Tier::Thorough => 150_000,
        }
    }
    fn max_shrink_iters() -> u32 {
        500
    }
}
