//! C15 – TLS channels and servers authenticate the peer and insist on HTTP/2.
//! Built only with harness feature `tls` (tonic/tls-ring); real rustls handshakes over the in-memory pipe.
use crate::infra::blob::Blob;
use crate::infra::handler::{HandlerScript, RespMsg, Shared};
use crate::infra::net::Net;
use crate::infra::pipe::{pipe, PipeEnd, PipeHandle};
use crate::infra::rt;
use crate::infra::runner::*;
use crate::infra::wire;
use crate::props::c02::pipe_schedule;
use crate::svc::vt;
use crate::{bail, ensure};
use bytes::Bytes;
use hyper_util::rt::TokioIo;
use proptest::prelude::*;
use serde::{Deserialize, Serialize};
use std::sync::atomic::{AtomicUsize, Ordering};
use std::sync::{Arc, Mutex};
use std::time::Duration;
use tokio::io::{AsyncRead, AsyncWrite};
use tokio_rustls::rustls::pki_types::pem::PemObject;
use tokio_rustls::rustls::pki_types::{CertificateDer, PrivateKeyDer, ServerName};
use tokio_rustls::rustls::{self, ClientConfig, RootCertStore, ServerConfig};
use tonic::transport::{Certificate, ClientTlsConfig, Identity, ServerTlsConfig};

macro_rules! fx {
    ($n:literal) => {
        include_str!(concat!("../../../fixtures/tls/", $n))
    };
}
const CA_A: &str = fx!("ca_a.pem");
const CA_B: &str = fx!("ca_b.pem");
const CA_CLIENT: &str = fx!("ca_client.pem");
const SERVER_GOOD: (&str, &str) = (fx!("server_good.pem"), fx!("server_good.key"));
const SERVER_OTHER: (&str, &str) = (fx!("server_other.pem"), fx!("server_other.key"));
const CLIENT_VALID: (&str, &str) = (fx!("client_valid.pem"), fx!("client_valid.key"));
const CLIENT_BY_B: (&str, &str) = (fx!("client_by_b.pem"), fx!("client_by_b.key"));

#[derive(Clone, Copy, Debug, Serialize, Deserialize, PartialEq, Eq)]
pub enum Roots {
    RightCa,
    OtherCa,
    None,
}
#[derive(Clone, Copy, Debug, Serialize, Deserialize, PartialEq, Eq)]
pub enum Domain {
    CfgGood,
    CfgBad,
    UriGood,
    UriBad,
}
#[derive(Clone, Copy, Debug, Serialize, Deserialize, PartialEq, Eq)]
pub enum Alpn {
    H2,
    NoAlpn,
    Http11,
}
#[derive(Clone, Copy, Debug, Serialize, Deserialize, PartialEq, Eq)]
pub enum Ident {
    NoCert,
    Valid,
    ByOtherCa,
}
#[derive(Clone, Copy, Debug, Serialize, Deserialize, PartialEq, Eq)]
pub enum Auth {
    NoClientAuth,
    Required,
    Optional,
    /// like `Optional`, with `client_auth_optional(true)` called before `client_ca_root(..)`
    OptionalFlagFirst,
    /// a client CA was configured, but the PEM holds no certificate (e.g. the key file by mistake)
    RequiredEmptyCa,
}

#[derive(Clone, Debug, Serialize, Deserialize)]
pub enum Cell {
    /// tonic client against a raw rustls + h2 server
    Client { roots: Roots, domain: Domain, alpn: Alpn, assume_http2: bool, server_cert_other: bool, #[serde(default)] origin: u8 },
    /// one client TLS state used first against a listener without client authentication, then against a
    /// listener of the same process that requires client certificates
    TwoListeners { ident: Ident },
    /// a ClientTlsConfig trusting only the wrong CA, and a clone of it that additionally trusts the right one;
    /// the clone is used first, then the original
    CloneFamily,
    /// the listener reports a non-transient accept error (EMFILE-like); afterwards a plaintext HTTP/2 client and
    /// then a proper TLS client connect to the server (TLS with a required client CA)
    AcceptErrorThenPlaintext,
    /// https endpoint, no TLS configuration at all (eager or lazy channel)
    HttpsWithoutTls { lazy: bool },
    /// tonic client against tonic server with client authentication
    Mutual { ident: Ident, auth: Auth },
    /// raw rustls + h2 client against the tonic server
    RawClient { ident: Ident, auth: Auth, alpn: Alpn },
}

#[derive(Clone, Debug, Serialize, Deserialize)]
pub struct Case {
    pub cell: Cell,
    pub c2s: Vec<u8>,
    pub s2c: Vec<u8>,
    pub rt_seed: u64,
}

fn all_cells() -> Vec<Cell> {
    let mut v = vec![Cell::HttpsWithoutTls { lazy: false }, Cell::HttpsWithoutTls { lazy: true }];
    for roots in [Roots::RightCa, Roots::OtherCa, Roots::None] {
        for domain in [Domain::CfgGood, Domain::CfgBad, Domain::UriGood, Domain::UriBad] {
            for alpn in [Alpn::H2, Alpn::NoAlpn, Alpn::Http11] {
                for assume_http2 in [false, true] {
                    v.push(Cell::Client { roots, domain, alpn, assume_http2, server_cert_other: false, origin: 0 });
                }
            }
        }
    }
    // the server presents a certificate for another name
    for domain in [Domain::CfgGood, Domain::UriGood] {
        v.push(Cell::Client { roots: Roots::RightCa, domain, alpn: Alpn::H2, assume_http2: false, server_cert_other: true, origin: 0 });
    }
    // Endpoint::origin is about the :authority of requests, not about whom the certificate must name
    for domain in [Domain::CfgGood, Domain::CfgBad, Domain::UriGood, Domain::UriBad] {
        for origin in [1u8, 2] {
            v.push(Cell::Client { roots: Roots::RightCa, domain, alpn: Alpn::H2, assume_http2: false, server_cert_other: false, origin });
        }
    }
    for ident in [Ident::NoCert, Ident::Valid, Ident::ByOtherCa] {
        v.push(Cell::TwoListeners { ident });
    }
    v.push(Cell::CloneFamily);
    v.push(Cell::AcceptErrorThenPlaintext);
    // a TLS client that offers only http/1.1 must not be served by the (HTTP/2-only) gRPC server
    v.push(Cell::RawClient { ident: Ident::NoCert, auth: Auth::NoClientAuth, alpn: Alpn::Http11 });
    for ident in [Ident::NoCert, Ident::Valid, Ident::ByOtherCa] {
        for auth in [Auth::NoClientAuth, Auth::Required, Auth::Optional, Auth::OptionalFlagFirst, Auth::RequiredEmptyCa] {
            v.push(Cell::Mutual { ident, auth });
            for alpn in [Alpn::H2, Alpn::NoAlpn] {
                v.push(Cell::RawClient { ident, auth, alpn });
            }
        }
    }
    v
}

pub fn strategy() -> BoxedStrategy<Case> {
    let cells = all_cells();
    (proptest::sample::select(cells), pipe_schedule(), pipe_schedule(), any::<u64>()).prop_map(|(cell, c2s, s2c, rt_seed)| Case { cell, c2s, s2c, rt_seed }).boxed()
}

fn provider() -> Arc<rustls::crypto::CryptoProvider> {
    Arc::new(rustls::crypto::ring::default_provider())
}
fn certs(pem: &str) -> Vec<CertificateDer<'static>> {
    CertificateDer::pem_slice_iter(pem.as_bytes()).map(|c| c.expect("fixture cert")).collect()
}
fn key(pem: &str) -> PrivateKeyDer<'static> {
    PrivateKeyDer::from_pem_slice(pem.as_bytes()).expect("fixture key")
}
fn alpn_list(a: Alpn) -> Vec<Vec<u8>> {
    match a {
        Alpn::H2 => vec![b"h2".to_vec()],
        Alpn::NoAlpn => vec![],
        Alpn::Http11 => vec![b"http/1.1".to_vec()],
    }
}

/// raw h2 server over any IO: counts requests that reached it and answers with an OK gRPC response
async fn raw_h2_serve<IO: AsyncRead + AsyncWrite + Unpin + Send + 'static>(io: IO, hits: Arc<AtomicUsize>) {
    let Ok(mut conn) = h2::server::handshake(io).await else { return };
    while let Some(Ok((req, mut respond))) = conn.accept().await {
        hits.fetch_add(1, Ordering::SeqCst);
        let (_, mut body) = req.into_parts();
        tokio::spawn(async move {
            while let Some(Ok(b)) = body.data().await {
                let _ = body.flow_control().release_capacity(b.len());
            }
            let resp = http::Response::builder().status(200).header("content-type", "application/grpc").body(()).unwrap();
            if let Ok(mut s) = respond.send_response(resp, false) {
                let _ = s.send_data(Bytes::from(wire::frame(0, b"pong")), false);
                let mut t = http::HeaderMap::new();
                t.insert("grpc-status", http::HeaderValue::from_static("0"));
                let _ = s.send_trailers(t);
            }
        });
    }
}

#[derive(Debug, Default)]
struct Seen {
    call_ok: bool,
    error: String,
    /// requests that reached a handler / the raw server's request loop
    hits: usize,
    /// first bytes the client wrote
    c2s_head: Vec<u8>,
    /// negotiated on the raw side, for labels
    peer_certs: Option<Option<usize>>,
}

fn single_connector(io: PipeEnd) -> impl tower::Service<http::Uri, Response = TokioIo<PipeEnd>, Error = std::io::Error, Future = std::pin::Pin<Box<dyn std::future::Future<Output = std::io::Result<TokioIo<PipeEnd>>> + Send>>> + Clone + Send + 'static {
    let cell = Arc::new(Mutex::new(Some(io)));
    tower::service_fn(move |_u: http::Uri| {
        let cell = cell.clone();
        Box::pin(async move { cell.lock().unwrap().take().map(TokioIo::new).ok_or_else(|| std::io::Error::new(std::io::ErrorKind::ConnectionRefused, "single-use connector")) })
            as std::pin::Pin<Box<dyn std::future::Future<Output = std::io::Result<TokioIo<PipeEnd>>> + Send>>
    })
}

fn run_client_cell(c: &Case, roots: Roots, domain: Domain, alpn: Alpn, assume_http2: bool, server_cert_other: bool, no_tls_cfg: bool, lazy: bool, origin: u8) -> Result<Seen, Failure> {
    let (cend, send_, handle) = pipe(c.c2s.clone(), c.s2c.clone());
    let hits = Arc::new(AtomicUsize::new(0));
    let hits2 = hits.clone();
    let c_rt_seed = c.rt_seed;
    let res = rt::run_virtual(c.rt_seed, Duration::from_secs(3600), async move {
        // raw TLS server
        let (cert, k) = if server_cert_other { SERVER_OTHER } else { SERVER_GOOD };
        let mut scfg = ServerConfig::builder_with_provider(provider()).with_safe_default_protocol_versions().unwrap().with_no_client_auth().with_single_cert(certs(cert), key(k)).expect("server config");
        scfg.alpn_protocols = alpn_list(alpn);
        let acceptor = tokio_rustls::TlsAcceptor::from(Arc::new(scfg));
        let srv = tokio::spawn(async move {
            if let Ok(tls) = acceptor.accept(send_).await {
                raw_h2_serve(tls, hits2).await;
            }
        });
        let uri = match domain {
            Domain::UriBad => "https://bad.test",
            _ => "https://good.test",
        };
        let mut ep = tonic::transport::Endpoint::from_static(uri);
        match origin {
            1 => ep = ep.origin("https://good.test".parse().unwrap()),
            2 => ep = ep.origin("https://bad.test".parse().unwrap()),
            _ => {}
        }
        if !no_tls_cfg {
            let mut t = ClientTlsConfig::new().assume_http2(assume_http2);
            match roots {
                Roots::RightCa => t = t.ca_certificate(Certificate::from_pem(CA_A)),
                Roots::OtherCa => t = t.ca_certificate(Certificate::from_pem(CA_B)),
                Roots::None => {}
            }
            match domain {
                Domain::CfgGood => t = t.domain_name("good.test"),
                Domain::CfgBad => t = t.domain_name("bad.test"),
                _ => {}
            }
            ep = match ep.tls_config(t) {
                Ok(e) => e,
                Err(e) => return (false, format!("tls_config: {e:?}")),
            };
        }
        // a connect timeout wraps the connector in another layer; TLS must still sit between it and the wire
        if c_rt_seed % 5 < 2 {
            ep = ep.connect_timeout(Duration::from_secs(30));
        }
        let connected = if lazy { Ok(ep.connect_with_connector_lazy(single_connector(cend))) } else { ep.connect_with_connector(single_connector(cend)).await };
        let r = match connected {
            Err(e) => (false, format!("connect: {e:?}")),
            Ok(ch) => {
                let mut cl = vt::raw_client::RawClient::new(ch);
                match cl.unary(b"ping".to_vec()).await {
                    Ok(r) => (r.get_ref() == b"pong", "".to_string()),
                    Err(s) => (false, format!("call: {s:?}")),
                }
            }
        };
        rt::quiesce().await;
        srv.abort();
        r
    });
    let (ok, error) = match res {
        Err(_) => bail!("C15/never-resolves", "TLS scenario did not finish"),
        Ok(r) => r,
    };
    let head = handle.c2s.lock().unwrap().head.clone();
    Ok(Seen { call_ok: ok, error, hits: hits.load(Ordering::SeqCst), c2s_head: head, peer_certs: None })
}

fn run_mutual(c: &Case, ident: Ident, auth: Auth, raw_client: Option<Alpn>) -> Result<Seen, Failure> {
    let sh = Shared::new(vec![HandlerScript { msgs: vec![RespMsg { data: Blob::of(b"pong"), pend: 0, delay_ms: 0 }], ..Default::default() }]);
    let (net, incoming) = Net::new(vec![(c.c2s.clone(), c.s2c.clone())]);
    let sh2 = sh.clone();
    let net2 = net.clone();
    let res = rt::run_virtual(c.rt_seed, Duration::from_secs(3600), async move {
        let mut st = ServerTlsConfig::new().identity(Identity::from_pem(SERVER_GOOD.0, SERVER_GOOD.1));
        match auth {
            Auth::NoClientAuth => {}
            Auth::Required => st = st.client_ca_root(Certificate::from_pem(CA_CLIENT)),
            Auth::Optional => st = st.client_ca_root(Certificate::from_pem(CA_CLIENT)).client_auth_optional(true),
            Auth::OptionalFlagFirst => st = st.client_auth_optional(true).client_ca_root(Certificate::from_pem(CA_CLIENT)),
            Auth::RequiredEmptyCa => st = st.client_ca_root(Certificate::from_pem(SERVER_GOOD.1)),
        }
        let builder = match tonic::transport::Server::builder().tls_config(st) {
            Ok(b) => b,
            Err(e) => return (false, format!("server tls_config: {e:?}")),
        };
        let mut builder = builder;
        let router = builder.add_service(vt::raw_server::RawServer::new(sh2.clone()));
        let srv = tokio::spawn(async move { router.serve_with_incoming(incoming).await });
        let r = match raw_client {
            None => {
                let mut t = ClientTlsConfig::new().ca_certificate(Certificate::from_pem(CA_A)).domain_name("good.test");
                match ident {
                    Ident::NoCert => {}
                    Ident::Valid => t = t.identity(Identity::from_pem(CLIENT_VALID.0, CLIENT_VALID.1)),
                    Ident::ByOtherCa => t = t.identity(Identity::from_pem(CLIENT_BY_B.0, CLIENT_BY_B.1)),
                }
                match tonic::transport::Endpoint::from_static("https://good.test").tls_config(t) {
                    Err(e) => (false, format!("tls_config: {e:?}")),
                    Ok(ep) => match ep.connect_with_connector(net2.connector()).await {
                        Err(e) => (false, format!("connect: {e:?}")),
                        Ok(ch) => {
                            let mut cl = vt::raw_client::RawClient::new(ch);
                            match cl.unary(b"ping".to_vec()).await {
                                Ok(r) => (r.get_ref() == b"pong", String::new()),
                                Err(s) => (false, format!("call: {s:?}")),
                            }
                        }
                    },
                }
            }
            Some(alpn) => {
                // raw rustls + h2 client
                let mut roots = RootCertStore::empty();
                for cdr in certs(CA_A) {
                    roots.add(cdr).unwrap();
                }
                let b = ClientConfig::builder_with_provider(provider()).with_safe_default_protocol_versions().unwrap().with_root_certificates(roots);
                let mut ccfg = match ident {
                    Ident::NoCert => b.with_no_client_auth(),
                    Ident::Valid => b.with_client_auth_cert(certs(CLIENT_VALID.0), key(CLIENT_VALID.1)).unwrap(),
                    Ident::ByOtherCa => b.with_client_auth_cert(certs(CLIENT_BY_B.0), key(CLIENT_BY_B.1)).unwrap(),
                };
                ccfg.alpn_protocols = alpn_list(alpn);
                let (io, _h) = match net2.open() {
                    Ok(x) => x,
                    Err(e) => return (false, format!("open: {e}")),
                };
                let conn = tokio_rustls::TlsConnector::from(Arc::new(ccfg));
                match conn.connect(ServerName::try_from("good.test").unwrap(), io).await {
                    Err(e) => (false, format!("tls connect: {e}")),
                    Ok(tls) => match h2::client::handshake(tls).await {
                        Err(e) => (false, format!("h2 handshake: {e}")),
                        Ok((mut send_req, conn)) => {
                            let ct = tokio::spawn(async move {
                                let _ = conn.await;
                            });
                            let req = http::Request::builder().method("POST").uri("https://good.test/vt.Raw/Unary").header("content-type", "application/grpc").header("te", "trailers").body(()).unwrap();
                            let r = match send_req.send_request(req, false) {
                                Err(e) => (false, format!("send_request: {e}")),
                                Ok((resp, mut stream)) => {
                                    let _ = stream.send_data(Bytes::from(wire::frame(0, b"ping")), true);
                                    match resp.await {
                                        Err(e) => (false, format!("response: {e}")),
                                        Ok(resp) => {
                                            let (parts, mut body) = resp.into_parts();
                                            let mut data = vec![];
                                            let mut err = None;
                                            while let Some(ch) = body.data().await {
                                                match ch {
                                                    Ok(b) => {
                                                        let _ = body.flow_control().release_capacity(b.len());
                                                        data.extend_from_slice(&b)
                                                    }
                                                    Err(e) => {
                                                        err = Some(format!("{e}"));
                                                        break;
                                                    }
                                                }
                                            }
                                            let tr = body.trailers().await.ok().flatten();
                                            let ok = err.is_none()
                                                && parts.status == 200
                                                && tr.as_ref().and_then(|t| t.get("grpc-status")).map(|v| v.as_bytes() == b"0").unwrap_or(false)
                                                && data == wire::frame(0, b"pong");
                                            (ok, err.unwrap_or_default())
                                        }
                                    }
                                }
                            };
                            ct.abort();
                            r
                        }
                    },
                }
            }
        };
        rt::quiesce().await;
        srv.abort();
        r
    });
    let (ok, error) = match res {
        Err(_) => bail!("C15/never-resolves", "TLS scenario did not finish"),
        Ok(r) => r,
    };
    let log = sh.log.lock().unwrap().clone();
    let head = net.conns.lock().unwrap().first().map(|h: &PipeHandle| h.c2s.lock().unwrap().head.clone()).unwrap_or_default();
    Ok(Seen { call_ok: ok, error, hits: log.len(), c2s_head: head, peer_certs: log.first().map(|l| l.peer_certs) })
}

/// One Endpoint (one client TLS state) is used against a listener that does not ask for client certificates
/// and then against a second listener of the same process that requires them.
fn run_two_listeners(c: &Case, ident: Ident) -> Result<(bool, usize, bool, usize, String), Failure> {
    let mk = || Shared::new(vec![HandlerScript { msgs: vec![RespMsg { data: Blob::of(b"pong"), pend: 0, delay_ms: 0 }], ..Default::default() }]);
    let (sh_a, sh_b) = (mk(), mk());
    let (net_a, inc_a) = Net::new(vec![(c.c2s.clone(), c.s2c.clone())]);
    let (net_b, inc_b) = Net::new(vec![(c.c2s.clone(), c.s2c.clone())]);
    let (sa, sb) = (sh_a.clone(), sh_b.clone());
    let res = rt::run_virtual(c.rt_seed, Duration::from_secs(3600), async move {
        let id = || Identity::from_pem(SERVER_GOOD.0, SERVER_GOOD.1);
        let lenient = tonic::transport::Server::builder().tls_config(ServerTlsConfig::new().identity(id())).map_err(|e| format!("{e:?}"))?.add_service(vt::raw_server::RawServer::new(sa));
        let strict = tonic::transport::Server::builder()
            .tls_config(ServerTlsConfig::new().identity(id()).client_ca_root(Certificate::from_pem(CA_CLIENT)))
            .map_err(|e| format!("{e:?}"))?
            .add_service(vt::raw_server::RawServer::new(sb));
        let ta = tokio::spawn(async move { lenient.serve_with_incoming(inc_a).await });
        let tb = tokio::spawn(async move { strict.serve_with_incoming(inc_b).await });
        let mut t = ClientTlsConfig::new().ca_certificate(Certificate::from_pem(CA_A)).domain_name("good.test");
        match ident {
            Ident::NoCert => {}
            Ident::Valid => t = t.identity(Identity::from_pem(CLIENT_VALID.0, CLIENT_VALID.1)),
            Ident::ByOtherCa => t = t.identity(Identity::from_pem(CLIENT_BY_B.0, CLIENT_BY_B.1)),
        }
        let ep = tonic::transport::Endpoint::from_static("https://good.test").tls_config(t).map_err(|e| format!("{e:?}"))?;
        let mut errs = String::new();
        let mut call = |ch: Result<tonic::transport::Channel, tonic::transport::Error>| async move {
            match ch {
                Err(e) => (false, format!("connect: {e:?}")),
                Ok(ch) => match vt::raw_client::RawClient::new(ch).unary(b"ping".to_vec()).await {
                    Ok(_) => (true, String::new()),
                    Err(s) => (false, format!("call: {s:?}")),
                },
            }
        };
        // two round trips with the lenient listener (the second one lets the client use a session ticket)
        let (ok_a1, e1) = call(ep.connect_with_connector(net_a.connector()).await).await;
        let (ok_a2, e2) = call(ep.connect_with_connector(net_a.connector()).await).await;
        rt::quiesce().await;
        let (ok_b, e3) = call(ep.connect_with_connector(net_b.connector()).await).await;
        errs.push_str(&format!("{e1} | {e2} | {e3}"));
        rt::quiesce().await;
        ta.abort();
        tb.abort();
        Ok::<_, String>((ok_a1 && ok_a2, ok_b, errs))
    });
    match res {
        Err(_) => bail!("C15/never-resolves", "TLS scenario did not finish"),
        Ok(Err(e)) => bail!("C15/two-listeners-setup", "{e}"),
        Ok(Ok((ok_a, ok_b, errs))) => Ok((ok_a, sh_a.log.lock().unwrap().len(), ok_b, sh_b.log.lock().unwrap().len(), errs)),
    }
}

/// After a non-transient accept error the server keeps serving - and keeps serving *TLS*.
/// Returns (plaintext call ok, handler runs after the plaintext attempt, TLS call ok, handler runs at the end, errors).
fn run_accept_error_then_plaintext(c: &Case) -> Result<(bool, usize, bool, usize, String), Failure> {
    let sh = Shared::new(vec![HandlerScript { msgs: vec![RespMsg { data: Blob::of(b"pong"), pend: 0, delay_ms: 0 }], ..Default::default() }]);
    let (net, incoming) = Net::new(vec![(c.c2s.clone(), c.s2c.clone())]);
    let sh2 = sh.clone();
    let res = rt::run_virtual(c.rt_seed, Duration::from_secs(3600), async move {
        let st = ServerTlsConfig::new().identity(Identity::from_pem(SERVER_GOOD.0, SERVER_GOOD.1)).client_ca_root(Certificate::from_pem(CA_CLIENT));
        let server = tonic::transport::Server::builder().tls_config(st).map_err(|e| format!("{e:?}"))?.add_service(vt::raw_server::RawServer::new(sh2.clone()));
        let t = tokio::spawn(async move { server.serve_with_incoming(incoming).await });
        net.inject_accept_error(std::io::ErrorKind::Other);
        rt::quiesce().await;
        // ---- a client that does not speak TLS at all
        let (io, _h) = net.open().map_err(|e| format!("open: {e}"))?;
        let plain = async {
            let (mut send_req, conn) = h2::client::handshake(io).await.map_err(|e| format!("h2 handshake: {e}"))?;
            let ct = tokio::spawn(async move {
                let _ = conn.await;
            });
            let req = http::Request::builder().method("POST").uri("http://good.test/vt.Raw/Unary").header("content-type", "application/grpc").header("te", "trailers").body(()).unwrap();
            let r = async {
                let (resp, mut stream) = send_req.send_request(req, false).map_err(|e| format!("send_request: {e}"))?;
                stream.send_data(Bytes::from(wire::frame(0, b"ping")), true).map_err(|e| format!("send_data: {e}"))?;
                let resp = resp.await.map_err(|e| format!("response: {e}"))?;
                Ok::<_, String>(resp.status() == 200)
            }
            .await;
            ct.abort();
            r
        };
        let plain_res = match tokio::time::timeout(Duration::from_secs(30), plain).await {
            Ok(r) => r,
            Err(_) => Err("no answer to the plaintext client within 30 s (virtual)".to_string()),
        };
        rt::quiesce().await;
        let hits_after_plain = sh2.log.lock().unwrap().len();
        // ---- a proper client is still served
        let tcfg = ClientTlsConfig::new().ca_certificate(Certificate::from_pem(CA_A)).domain_name("good.test").identity(Identity::from_pem(CLIENT_VALID.0, CLIENT_VALID.1));
        let tls_res = match tonic::transport::Endpoint::from_static("https://good.test").tls_config(tcfg) {
            Err(e) => Err(format!("tls_config: {e:?}")),
            Ok(ep) => match ep.connect_with_connector(net.connector()).await {
                Err(e) => Err(format!("connect: {e:?}")),
                Ok(ch) => vt::raw_client::RawClient::new(ch).unary(b"ping".to_vec()).await.map(|_| ()).map_err(|s| format!("call: {s:?}")),
            },
        };
        rt::quiesce().await;
        t.abort();
        Ok::<_, String>((plain_res, hits_after_plain, tls_res))
    });
    match res {
        Err(_) => bail!("C15/never-resolves", "TLS scenario did not finish"),
        Ok(Err(e)) => bail!("C15/accept-error-setup", "{e}"),
        Ok(Ok((p, hp, t))) => Ok((p == Ok(true), hp, t.is_ok(), sh.log.lock().unwrap().len(), format!("plaintext: {p:?} | tls: {t:?}"))),
    }
}

/// Configs derived from one another by clone + builder calls are independent values.
fn run_clone_family(c: &Case) -> Result<(bool, bool, usize, String), Failure> {
    let sh = Shared::new(vec![HandlerScript { msgs: vec![RespMsg { data: Blob::of(b"pong"), pend: 0, delay_ms: 0 }], ..Default::default() }]);
    let (net, incoming) = Net::new(vec![(c.c2s.clone(), c.s2c.clone())]);
    let sh2 = sh.clone();
    let res = rt::run_virtual(c.rt_seed, Duration::from_secs(3600), async move {
        let server = tonic::transport::Server::builder()
            .tls_config(ServerTlsConfig::new().identity(Identity::from_pem(SERVER_GOOD.0, SERVER_GOOD.1)))
            .map_err(|e| format!("{e:?}"))?
            .add_service(vt::raw_server::RawServer::new(sh2));
        let t = tokio::spawn(async move { server.serve_with_incoming(incoming).await });
        let base = ClientTlsConfig::new().ca_certificate(Certificate::from_pem(CA_B)).domain_name("good.test");
        let wide = base.clone().ca_certificate(Certificate::from_pem(CA_A));
        let call = |cfg: ClientTlsConfig, net: Net| async move {
            let ep = match tonic::transport::Endpoint::from_static("https://good.test").tls_config(cfg) {
                Ok(ep) => ep,
                Err(e) => return (false, format!("tls_config: {e:?}")),
            };
            match ep.connect_with_connector(net.connector()).await {
                Err(e) => (false, format!("connect: {e:?}")),
                Ok(ch) => match vt::raw_client::RawClient::new(ch).unary(b"ping".to_vec()).await {
                    Ok(_) => (true, String::new()),
                    Err(s) => (false, format!("call: {s:?}")),
                },
            }
        };
        let (ok_wide, e1) = call(wide, net.clone()).await;
        rt::quiesce().await;
        let (ok_base, e2) = call(base, net.clone()).await;
        rt::quiesce().await;
        t.abort();
        Ok::<_, String>((ok_wide, ok_base, format!("{e1} | {e2}")))
    });
    match res {
        Err(_) => bail!("C15/never-resolves", "TLS scenario did not finish"),
        Ok(Err(e)) => bail!("C15/clone-family-setup", "{e}"),
        Ok(Ok((a, b, e))) => Ok((a, b, sh.log.lock().unwrap().len(), e)),
    }
}

fn no_plaintext(seen: &Seen) -> Result<(), Failure> {
    let h = &seen.c2s_head;
    ensure!(!h.windows(14).any(|w| w == b"PRI * HTTP/2.0"), "C15/plaintext-fallback", "the client wrote a plaintext HTTP/2 preface on an https endpoint");
    if let Some(b) = h.first() {
        ensure!(*b == 0x16, "C15/plaintext-fallback", "first byte written by the client on an https endpoint is {b:#x}, not a TLS handshake record");
    }
    Ok(())
}

pub fn run(c: &Case, o: &mut Outcome) -> Result<(), Failure> {
    o.nontrivial = true;
    match &c.cell {
        Cell::HttpsWithoutTls { lazy } => {
            o.label("https_without_tls_config");
            o.label_if(*lazy, "lazy_channel");
            let seen = run_client_cell(c, Roots::RightCa, Domain::UriGood, Alpn::H2, false, false, true, *lazy, 0)?;
            ensure!(!seen.call_ok, "C15/https-without-tls-succeeds", "https endpoint without a TLS configuration carried a call");
            ensure!(seen.hits == 0, "C15/request-reached-peer-without-authentication", "a request reached the peer");
            ensure!(seen.c2s_head.is_empty(), "C15/plaintext-fallback", "bytes were written on an https endpoint without TLS configuration: {:02x?}", &seen.c2s_head[..seen.c2s_head.len().min(16)]);
        }
        Cell::Client { roots, domain, alpn, assume_http2, server_cert_other, origin } => {
            o.label_if(*origin != 0, "endpoint_origin_set");
            o.label("tonic_client_vs_raw_server");
            let chain = *roots == Roots::RightCa;
            let name = matches!(domain, Domain::CfgGood | Domain::UriGood) && !server_cert_other;
            // a server that speaks ALPN but shares no protocol with the client aborts the handshake itself
            // (RFC 7301 no_application_protocol), whatever the caller opted for
            let proto = *alpn == Alpn::H2 || (*alpn == Alpn::NoAlpn && *assume_http2);
            let expect = chain && name && proto;
            o.label_if(!chain, "untrusted_chain");
            o.label_if(!name, "name_mismatch");
            o.label_if(*alpn != Alpn::H2, "alpn_not_h2");
            o.label_if(*assume_http2, "assume_http2");
            o.label_if(expect, "expected_success");
            o.nontrivial = !(chain && name && *alpn == Alpn::H2 && !assume_http2);
            let seen = run_client_cell(c, *roots, *domain, *alpn, *assume_http2, *server_cert_other, false, c.rt_seed % 3 == 0, *origin)?;
            no_plaintext(&seen)?;
            if expect {
                ensure!(seen.call_ok && seen.hits == 1, "C15/valid-configuration-refused", "chain, name and protocol are fine but the call failed: {} (requests at peer: {})", seen.error, seen.hits);
            } else {
                let why = if !chain {
                    "untrusted-chain"
                } else if !name {
                    "name-mismatch"
                } else {
                    "h2-not-negotiated"
                };
                ensure!(!seen.call_ok, format!("C15/call-succeeded-without-authentication/{why}"), "call succeeded although {why} (roots {roots:?}, domain {domain:?}, alpn {alpn:?}, assume_http2 {assume_http2})");
                ensure!(seen.hits == 0, format!("C15/request-reached-peer-without-authentication/{why}"), "a request was transmitted although {why}");
            }
        }
        Cell::AcceptErrorThenPlaintext => {
            o.label("accept_error_then_plaintext_client");
            let (plain_ok, hits_plain, tls_ok, hits_end, errs) = run_accept_error_then_plaintext(c)?;
            ensure!(!plain_ok && hits_plain == 0, "C15/plaintext-client-served/after-accept-error", "after an accept error a client that does not speak TLS was answered by the TLS server ({hits_plain} handler runs): {errs}");
            ensure!(tls_ok && hits_end == 1, "C15/authorised-client-refused/after-accept-error", "after an accept error a properly authenticated client was not served: {errs}");
        }
        Cell::CloneFamily => {
            o.label("client_config_clone_family");
            let (ok_wide, ok_base, hits, errs) = run_clone_family(c)?;
            ensure!(ok_wide, "C15/valid-configuration-refused", "a config trusting the right CA (plus another) was refused: {errs}");
            ensure!(!ok_base && hits == 1, "C15/call-succeeded-without-authentication/untrusted-chain-after-clone", "a config that trusts only another CA carried a call after a clone of it (extended with the right CA) had been used ({hits} handler runs): {errs}");
        }
        Cell::TwoListeners { ident } => {
            o.label("two_listeners_one_client_state");
            let (ok_a, hits_a, ok_b, hits_b, errs) = run_two_listeners(c, *ident)?;
            ensure!(ok_a && hits_a == 2, "C15/authorised-client-refused", "listener without client auth refused a call: {errs}");
            if *ident == Ident::Valid {
                ensure!(ok_b && hits_b == 1, "C15/authorised-client-refused", "listener requiring client certificates refused a valid one: {errs}");
            } else {
                ensure!(!ok_b, "C15/unauthenticated-client-served/after-session-with-other-listener", "identity {ident:?}: a client that had talked to a listener without client auth was then served by the listener that requires certificates");
                ensure!(hits_b == 0, "C15/unauthenticated-client-reached-handler/after-session-with-other-listener", "identity {ident:?}: a handler of the strict listener ran");
            }
        }
        Cell::Mutual { ident, auth } | Cell::RawClient { ident, auth, .. } => {
            let raw = match &c.cell {
                Cell::RawClient { alpn, .. } => Some(*alpn),
                _ => None,
            };
            o.label(if raw.is_some() { "raw_client_vs_tonic_server" } else { "tonic_client_vs_tonic_server" });
            o.label(match auth {
                Auth::NoClientAuth => "auth_none",
                Auth::Required => "auth_required",
                Auth::Optional => "auth_optional",
                Auth::OptionalFlagFirst => "auth_optional_flag_set_before_ca",
                Auth::RequiredEmptyCa => "auth_required_empty_ca",
            });
            o.label(match ident {
                Ident::NoCert => "ident_none",
                Ident::Valid => "ident_valid",
                Ident::ByOtherCa => "ident_other_ca",
            });
            let seen = run_mutual(c, *ident, *auth, raw)?;
            if raw.is_none() {
                no_plaintext(&seen)?;
            }
            // Some(true) = must be served, Some(false) = must be refused, None = unspecified by the statement
            let expect: Option<bool> = match (auth, ident) {
                // the server speaks gRPC over HTTP/2 only and says so in ALPN: no common protocol, no service
                _ if raw == Some(Alpn::Http11) => Some(false),
                (Auth::NoClientAuth, _) => Some(true),
                (Auth::Required, Ident::Valid) => Some(true),
                (Auth::Required, _) => Some(false),
                // a client CA without any certificate can vouch for nobody (refusing to start is fine too)
                (Auth::RequiredEmptyCa, _) => Some(false),
                (Auth::Optional | Auth::OptionalFlagFirst, Ident::ByOtherCa) => None,
                (Auth::Optional | Auth::OptionalFlagFirst, _) => Some(true),
            };
            match expect {
                Some(true) => ensure!(seen.call_ok && seen.hits == 1, "C15/authorised-client-refused", "auth {auth:?}, identity {ident:?}: call failed: {} (handler runs {})", seen.error, seen.hits),
                Some(false) => {
                    ensure!(!seen.call_ok, "C15/unauthenticated-client-served", "auth {auth:?}, identity {ident:?}: the call succeeded");
                    ensure!(seen.hits == 0, "C15/unauthenticated-client-reached-handler", "auth {auth:?}, identity {ident:?}: a handler ran");
                }
                None => {}
            }
            // verified peer certificates are exposed to handlers (and only verified ones)
            if seen.hits >= 1 {
                let pc = seen.peer_certs.flatten();
                let verified = *auth != Auth::NoClientAuth && *ident == Ident::Valid;
                if verified {
                    ensure!(pc.map(|n| n >= 1).unwrap_or(false), "C15/peer-certs-not-exposed", "client certificate verified against the client CA but Request::peer_certs() is {pc:?}");
                } else {
                    ensure!(pc.unwrap_or(0) == 0, "C15/unverified-peer-certs-exposed", "no verified client certificate, but Request::peer_certs() has {pc:?} entries");
                }
            }
        }
    }
    Ok(())
}

pub struct C15;
impl Prop for C15 {
    const ID: &'static str = "C15";
    type Case = Case;
    fn strategy() -> BoxedStrategy<Case> {
        strategy()
    }
    fn run(c: &Case, o: &mut Outcome) -> Result<(), Failure> {
        run(c, o)
    }
    fn rule() -> &'static str {
        "finite configuration matrix enumerated completely, each cell under two fixed pipe schedules, plus random cells under generated schedules and scheduler seeds; real rustls handshakes (tonic tls-ring) over the in-memory pipe with a committed EC fixture PKI. (A) tonic client {roots: right CA, other CA, none} x {domain configured good/bad, taken from URI good/bad} x raw-rustls server ALPN {h2, none, http/1.1} x assume_http2 x {server certificate for the right / another name}, and an https endpoint without TLS config; (B) tonic client identity {none, valid, issued by another CA} x tonic server client-auth {none, required, optional}; (C) raw rustls+h2 clients (same identities, ALPN h2/none) against the tonic server. Oracle = independent trust model: call succeeds iff chain and name and (ALPN h2 or assume_http2) [and client-auth satisfied]; otherwise the call fails, no request reaches the peer/handler, and the first byte the client wrote is a TLS handshake record (never a plaintext HTTP/2 preface); handlers see peer_certs iff a client certificate was verified. Non-trivial: every cell other than all-defaults-valid. (D) a ClientTlsConfig trusting only another CA and a clone of it extended with the right CA, used in that order: the original must still be refused; a raw TLS client offering only http/1.1 must not be served. (E) OptionalFlagFirst: client_auth_optional(true) called before client_ca_root; a non-transient accept error followed by a plaintext HTTP/2 client (never served) and a proper TLS client (served). Client cells also run lazily connected and with a connect_timeout (third enumerated schedule; at random otherwise)."
    }
    fn assumptions() -> Vec<String> {
        vec![
            "optional client auth with a certificate from another CA is left unspecified (rustls rejects it; the statement only says unauthenticated clients may be served)".into(),
            "fixture certificates are valid 2020-01-01..2126-01-01".into(),
        ]
    }
    fn cases(t: Tier) -> u64 {
        match t {
            Tier::Quick => 2_000,
            Tier::Thorough => 6_000,
        }
    }
    fn fixed_cases(_t: Tier) -> Vec<Case> {
        let mut v = vec![];
        for cell in all_cells() {
            v.push(Case { cell: cell.clone(), c2s: vec![], s2c: vec![], rt_seed: 1 });
            v.push(Case { cell: cell.clone(), c2s: vec![3], s2c: vec![0, 5, 1], rt_seed: 2 });
            // rt_seed 15: lazily connected and with a connect timeout (both derived from the seed)
            if matches!(cell, Cell::Client { .. }) {
                v.push(Case { cell, c2s: vec![], s2c: vec![], rt_seed: 15 });
            }
        }
        v
    }
    fn fixed_is_exhaustive() -> Option<&'static str> {
        Some("the full configuration matrix (135 cells) x 2 fixed pipe schedules is enumerated completely")
    }
    fn max_shrink_iters() -> u32 {
        200
    }
}
