//! C07 – hostile or truncated input ends a stream with one error, never a hang or panic.
use crate::infra::blob::{small_bytes, Blob};
use crate::infra::codec_drv::*;
use crate::infra::gen;
use crate::infra::runner::*;
use crate::infra::script::{BodyStep, ScriptBody};
use crate::infra::wire::{self, Enc};
use crate::svc::{Msg, RawCodec};
use crate::{bail, ensure};
use bytes::Bytes;
use http::{HeaderMap, HeaderValue};
use proptest::prelude::*;
use prost::Message;
use serde::{Deserialize, Serialize};
use tonic::codec::{BufferSettings, Codec, ProstCodec, Streaming};
use tonic::Code;

const DEFAULT_LIMIT: usize = 4 * 1024 * 1024;

#[derive(Clone, Debug, Serialize, Deserialize)]
pub struct FrameSpec {
    pub payload: Blob,
    pub compressed: bool,
}

#[derive(Clone, Debug, Serialize, Deserialize)]
pub enum Mutation {
    /// set the flag byte of frame `sel` to `v`
    Flag(u16, u8),
    /// add `delta` to the declared length of frame `sel`
    Len(u16, i32),
    /// set the declared length of frame `sel` to an absolute value
    LenAbs(u16, u32),
    /// truncate the stream at byte `sel`
    Truncate(u16),
    /// xor byte at `sel` with `v`
    Corrupt(u16, u8),
    /// insert garbage at `sel`
    Insert(u16, Blob),
    /// duplicate frame `sel`
    Dup(u16),
    /// replace the payload of frame `sel` by a well-formed zstd frame header that declares this
    /// decompressed size (single segment, one empty last block) and set the compressed flag
    ZstdHeader(u16, u64),
    /// append `kib` KiB of bytes (themselves a run of well-formed one-byte frames) to the payload of compressed
    /// frame `sel`, behind the end of its compressed stream, and enlarge its length prefix accordingly
    PadCompressed(u16, u8),
}

#[derive(Clone, Debug, Serialize, Deserialize)]
pub enum Trailers {
    None,
    Ok,
    Err(i32, String),
    /// grpc-status value bytes (hex) that are not a canonical code
    Malformed(String),
    NoStatus,
}

#[derive(Clone, Debug, Serialize, Deserialize)]
pub struct Case {
    pub response: bool,
    pub enc: Option<Enc>,
    pub prost: bool,
    pub buffer_size: usize,
    pub frames: Vec<FrameSpec>,
    pub muts: Vec<Mutation>,
    /// raw bytes replacing the whole stream
    pub raw: Option<Blob>,
    pub sizes: Vec<u16>,
    pub body_pend: Vec<u8>,
    pub trailers: Trailers,
    /// inject a body error before chunk `sel` (selector over chunk count + 1), with this code
    pub body_err: Option<(u16, i32)>,
    /// deliver the stream one byte per DATA frame, every frame immediately ready (a peer that dribbles a
    /// message in thousands of tiny frames); a frame of this many payload bytes is appended first (0 = off)
    #[serde(default)]
    pub dribble: u32,
}

/// The decoder's codec may report any yield threshold (the setting belongs to the encoder; 0 is legal there).
/// Derived from the case so that saved cases stay readable.
fn decoder_yield(c: &Case) -> usize {
    [0, 1024, 1, 32 * 1024][(c.buffer_size + c.frames.len()) % 4]
}

fn prost_payload() -> BoxedStrategy<Blob> {
    // valid protobuf encodings of Msg most of the time
    (small_bytes(20), "[a-z]{0,5}", proptest::collection::vec(any::<u32>(), 0..3), any::<u64>())
        .prop_map(|(d, s, r, f)| {
            let m = Msg { data: d.bytes(), s, r, inner: None, f };
            Blob::of(&m.encode_to_vec())
        })
        .boxed()
}

pub fn strategy() -> BoxedStrategy<Case> {
    (any::<bool>(), gen::enc_opt(), proptest::bool::weighted(0.3), proptest::sample::select(&gen::BUFFER_SIZES[..]))
        .prop_flat_map(|(response, enc, prost, bs)| {
            let payload: BoxedStrategy<Blob> = if prost {
                prop_oneof![4 => prost_payload(), 1 => small_bytes(16)].boxed()
            } else {
                gen::payload(bs, 64, false)
            };
            let frame = (payload, proptest::bool::weighted(0.5)).prop_map(|(payload, compressed)| FrameSpec { payload, compressed });
            let mutation = prop_oneof![
                3 => (any::<u16>(), prop_oneof![Just(2u8), Just(3u8), Just(0x80u8), Just(0xffu8), Just(1u8), Just(0u8), any::<u8>()]).prop_map(|(s, v)| Mutation::Flag(s, v)),
                3 => (any::<u16>(), prop_oneof![Just(1i32), Just(-1i32), -6i32..=6, Just(256), Just(65536)]).prop_map(|(s, d)| Mutation::Len(s, d)),
                2 => (any::<u16>(), prop_oneof![Just(4194304u32), Just(4194305u32), Just(u32::MAX), Just(0x8000_0000u32), Just(0x0100_0000u32), any::<u32>()]).prop_map(|(s, d)| Mutation::LenAbs(s, d)),
                4 => any::<u16>().prop_map(Mutation::Truncate),
                3 => (any::<u16>(), 1u8..=255).prop_map(|(s, v)| Mutation::Corrupt(s, v)),
                2 => (any::<u16>(), small_bytes(9)).prop_map(|(s, b)| Mutation::Insert(s, b)),
                1 => any::<u16>().prop_map(Mutation::Dup),
                1 => (any::<u16>(), prop_oneof![Just(1u8), Just(31u8), Just(33u8), 34u8..=100]).prop_map(|(s, k)| Mutation::PadCompressed(s, k)),
                1 => (any::<u16>(), prop_oneof![Just(1u64 << 62), Just(u64::MAX - 2), Just(1u64 << 40), Just(1u64 << 33), Just(5u64), Just(0u64), any::<u64>()]).prop_map(|(s, d)| Mutation::ZstdHeader(s, d)),
            ];
            let trailers = if response {
                prop_oneof![
                    3 => Just(Trailers::None),
                    3 => Just(Trailers::Ok),
                    2 => (1i32..=16, gen::unicode_string(8)).prop_map(|(c, m)| Trailers::Err(c, m)),
                    1 => prop_oneof![Just("abc"), Just("99"), Just(""), Just("-1"), Just("01"), Just("17"), Just("18"), Just("19"), Just("20"), Just("100"), Just("1e1"), Just("+1"), Just(" 1")].prop_map(|s| Trailers::Malformed(crate::infra::blob::hex(s.as_bytes()))),
                    1 => Just(Trailers::NoStatus),
                ]
                .boxed()
            } else {
                prop_oneof![8 => Just(Trailers::None), 1 => Just(Trailers::NoStatus), 1 => Just(Trailers::Ok)].boxed()
            };
            (
                proptest::collection::vec(frame, 0..6),
                proptest::collection::vec(mutation, 0..3),
                proptest::option::weighted(0.12, prop_oneof![small_bytes(24), (0u32..200, any::<u32>()).prop_map(|(n, s)| Blob::Rnd(n, s))]),
                gen::chunk_sizes(24),
                gen::pend_pattern(4),
                trailers,
                proptest::option::weighted(0.2, (any::<u16>(), prop_oneof![Just(1i32), Just(13i32), Just(14i32), Just(2i32), 1i32..=16])),
                prop_oneof![24 => Just(0u32), 1 => 1030u32..=2600],
            )
                .prop_map(move |(mut frames, muts, mut raw, sizes, body_pend, trailers, body_err, dribble)| {
                    if dribble > 0 {
                        frames.push(FrameSpec { payload: Blob::Rnd(dribble, dribble ^ 0x5bd1_e995), compressed: false });
                        raw = None;
                    }
                    Case {
                    response,
                    enc,
                    prost,
                    buffer_size: bs,
                    frames,
                    muts,
                    raw,
                    sizes,
                    body_pend,
                    trailers,
                    body_err,
                    dribble,
                    }
                })
        })
        .boxed()
}

/// Build the hostile byte stream. Returns (bytes, pristine[i] = frame i of the *valid* stream untouched).
pub fn build_bytes(c: &Case) -> Vec<u8> {
    if let Some(r) = &c.raw {
        return r.bytes();
    }
    let mut frames: Vec<Vec<u8>> = c
        .frames
        .iter()
        .map(|f| match (f.compressed, c.enc) {
            (true, Some(e)) => wire::frame(1, &wire::compress(e, &f.payload.bytes())),
            _ => wire::frame(0, &f.payload.bytes()),
        })
        .collect();
    // frame-level mutations first
    for m in &c.muts {
        match m {
            Mutation::Flag(s, v) if !frames.is_empty() => {
                let i = gen::pick(*s, frames.len());
                frames[i][0] = *v;
            }
            Mutation::Len(s, d) if !frames.is_empty() => {
                let i = gen::pick(*s, frames.len());
                let l = u32::from_be_bytes([frames[i][1], frames[i][2], frames[i][3], frames[i][4]]);
                let n = (l as i64 + *d as i64).clamp(0, u32::MAX as i64) as u32;
                frames[i][1..5].copy_from_slice(&n.to_be_bytes());
            }
            Mutation::LenAbs(s, d) if !frames.is_empty() => {
                let i = gen::pick(*s, frames.len());
                frames[i][1..5].copy_from_slice(&d.to_be_bytes());
            }
            Mutation::ZstdHeader(s, size) if !frames.is_empty() => {
                let i = gen::pick(*s, frames.len());
                // magic, descriptor (FCS 8 bytes, single segment), content size, last raw block of size 0
                let mut z = vec![0x28, 0xb5, 0x2f, 0xfd, 0xe0];
                z.extend_from_slice(&size.to_le_bytes());
                z.extend_from_slice(&[0x01, 0x00, 0x00]);
                frames[i] = wire::frame(1, &z);
            }
            Mutation::PadCompressed(s, kib) if !frames.is_empty() => {
                let i = gen::pick(*s, frames.len());
                if frames[i][0] == 1 {
                    let unit = [0u8, 0, 0, 0, 1, b'A'];
                    let n = (*kib as usize * 1024).div_ceil(unit.len());
                    for _ in 0..n {
                        frames[i].extend_from_slice(&unit);
                    }
                    let l = (frames[i].len() - 5) as u32;
                    frames[i][1..5].copy_from_slice(&l.to_be_bytes());
                }
            }
            Mutation::Dup(s) if !frames.is_empty() => {
                let i = gen::pick(*s, frames.len());
                let f = frames[i].clone();
                frames.insert(i, f);
            }
            _ => {}
        }
    }
    let mut bytes: Vec<u8> = frames.concat();
    for m in &c.muts {
        match m {
            Mutation::Corrupt(s, v) if !bytes.is_empty() => {
                let i = gen::pick(*s, bytes.len());
                bytes[i] ^= *v;
            }
            Mutation::Insert(s, b) => {
                let i = gen::pick(*s, bytes.len() + 1);
                let ins = b.bytes();
                bytes.splice(i..i, ins);
            }
            _ => {}
        }
    }
    for m in &c.muts {
        if let Mutation::Truncate(s) = m {
            let i = gen::pick(*s, bytes.len() + 1);
            bytes.truncate(i);
        }
    }
    bytes
}

#[derive(Debug, PartialEq)]
enum RefItem {
    /// payload known exactly
    Exact(Vec<u8>),
    /// framing known, content unknown (compressed payload the independent decompressor rejects)
    Framed,
}
#[derive(Debug, PartialEq)]
enum RefStop {
    CleanEnd,
    Truncated,
    /// the frame at this index is invalid: an error is required
    Invalid(&'static str),
}

/// Reference parse. The third value is the index of the first frame whose compressed payload has no known
/// decompression (not byte-identical to one the generator compressed): there tonic may fail or may yield a
/// message of unknown content; the framing of everything behind it is still known.
fn reference(bytes: &[u8], enc: Option<Enc>, prost: bool, pristine: &[(Vec<u8>, Vec<u8>)]) -> (Vec<RefItem>, RefStop, Option<usize>) {
    let mut items = vec![];
    let mut off = 0usize;
    let mut uncertain: Option<usize> = None;
    loop {
        let rest = &bytes[off..];
        if rest.is_empty() {
            return (items, RefStop::CleanEnd, uncertain);
        }
        if rest.len() < 5 {
            return (items, RefStop::Truncated, uncertain);
        }
        let flag = rest[0];
        if flag >= 2 {
            return (items, RefStop::Invalid("flag"), uncertain);
        }
        if flag == 1 && enc.is_none() {
            return (items, RefStop::Invalid("compressed-flag-without-encoding"), uncertain);
        }
        let len = u32::from_be_bytes([rest[1], rest[2], rest[3], rest[4]]) as usize;
        if len > DEFAULT_LIMIT {
            return (items, RefStop::Invalid("over-limit"), uncertain);
        }
        if rest.len() - 5 < len {
            return (items, RefStop::Truncated, uncertain);
        }
        let payload = &rest[5..5 + len];
        let plain: Option<Vec<u8>> = if flag == 1 {
            // only payloads the generator itself compressed (and no mutation touched) have a known
            // decompression; on anything else decompressors may legitimately differ
            pristine.iter().find(|(z, _)| z == payload).map(|(_, p)| p.clone())
        } else {
            Some(payload.to_vec())
        };
        match plain {
            None => {
                // decompressors may legitimately differ on garbage: accept an error here or a message of any
                // content; the frames behind it are still delimited by the length prefixes
                uncertain.get_or_insert(items.len());
                items.push(RefItem::Framed);
            }
            Some(p) => {
                if prost && Msg::decode(&p[..]).is_err() {
                    return (items, RefStop::Invalid("undecodable-protobuf"), uncertain);
                }
                items.push(RefItem::Exact(p));
            }
        }
        off += 5 + len;
    }
}

fn trailer_map(t: &Trailers) -> Option<HeaderMap> {
    let mut h = HeaderMap::new();
    match t {
        Trailers::None => return None,
        Trailers::Ok => {
            h.insert("grpc-status", HeaderValue::from_static("0"));
        }
        Trailers::Err(c, m) => {
            let st = tonic::Status::new(Code::from_i32(*c), m.clone());
            st.add_header(&mut h).ok();
        }
        Trailers::Malformed(hx) => {
            if let Ok(v) = HeaderValue::from_bytes(&crate::infra::blob::unhex(hx)) {
                h.insert("grpc-status", v);
            }
        }
        Trailers::NoStatus => {
            h.insert("x-other", HeaderValue::from_static("1"));
        }
    }
    Some(h)
}

pub fn run(c: &Case, o: &mut Outcome) -> Result<(), Failure> {
    let bytes = build_bytes(c);
    let chunks = if c.dribble > 0 {
        // one byte per DATA frame for the first 4000 bytes, the remainder in one piece
        let k = bytes.len().min(4000);
        let mut v: Vec<Vec<u8>> = bytes[..k].iter().map(|b| vec![*b]).collect();
        if k < bytes.len() {
            v.push(bytes[k..].to_vec());
        }
        v
    } else {
        cut(&bytes, &c.sizes, &[])
    };
    // body error injection point
    let err_at: Option<(usize, i32)> = c.body_err.map(|(s, code)| (gen::pick(s, chunks.len() + 1), code));
    let mut steps: Vec<BodyStep> = vec![];
    let mut delivered: Vec<u8> = vec![];
    let mut pi = 0usize;
    let mut body_error_injected = false;
    for (i, ch) in chunks.iter().enumerate() {
        if let Some((k, code)) = err_at {
            if k == i {
                steps.push(BodyStep::Err(tonic::Status::new(Code::from_i32(code), "injected body error")));
                body_error_injected = true;
                break;
            }
        }
        if !c.body_pend.is_empty() && c.dribble == 0 {
            for _ in 0..c.body_pend[pi % c.body_pend.len()] {
                steps.push(BodyStep::Pending);
            }
            pi += 1;
        }
        steps.push(BodyStep::Data(Bytes::from(ch.clone())));
        delivered.extend_from_slice(ch);
    }
    let trailers = trailer_map(&c.trailers);
    if !body_error_injected {
        if let Some((k, code)) = err_at {
            if k == chunks.len() {
                steps.push(BodyStep::Err(tonic::Status::new(Code::from_i32(code), "injected body error")));
                body_error_injected = true;
            }
        }
    }
    if !body_error_injected {
        if let Some(t) = trailers.clone() {
            steps.push(BodyStep::Trailers(t));
        }
    }
    let has_trailers = trailers.is_some() && !body_error_injected;
    let mut body = ScriptBody::new(steps);
    // half of the cases: the body says exactly when it has ended (hyper's bodies do)
    body.eos = (c.sizes.len() + c.frames.len()) % 2 == 1;
    o.label_if(body.eos, "body_reports_end_of_stream");
    let probe = body.probe.clone();
    // every DATA frame reaches the decoder as a two-segment Buf (split point derived from the case)
    let seg = (c.sizes.len() as u8).wrapping_mul(53) ^ (c.buffer_size as u8);
    let body = crate::infra::script::SegBody::new(body, seg);
    let pristine: Vec<(Vec<u8>, Vec<u8>)> = match c.enc {
        Some(e) if c.raw.is_none() => c.frames.iter().filter(|f| f.compressed).map(|f| (wire::compress(e, &f.payload.bytes()), f.payload.bytes())).collect(),
        _ => vec![],
    };
    let (ref_items, ref_stop, uncertain) = reference(&delivered, c.enc, c.prost, &pristine);
    let malformed = !matches!(ref_stop, RefStop::CleanEnd) || uncertain.is_some();
    o.nontrivial = malformed || body_error_injected;
    o.label_if(c.dribble > 0, "dribbled_one_byte_per_ready_frame");
    o.label_if(c.raw.is_some(), "raw_bytes");
    o.label_if(body_error_injected, "body_error");
    o.label_if(has_trailers, "trailers");
    o.label_if(c.prost, "prost");
    match &ref_stop {
        RefStop::CleanEnd => o.label("ref_clean"),
        RefStop::Truncated => o.label("ref_truncated"),
        RefStop::Invalid("flag") => o.label("ref_bad_flag"),
        RefStop::Invalid("compressed-flag-without-encoding") => o.label("ref_flag1_no_encoding"),
        RefStop::Invalid("over-limit") => o.label("ref_over_limit"),
        RefStop::Invalid(_) => o.label("ref_undecodable_protobuf"),
    }
    o.label_if(uncertain.is_some(), "ref_corrupt_compressed");
    o.label_if(uncertain.map(|u| u + 1 < ref_items.len()).unwrap_or(false), "frames_behind_a_corrupt_compressed_frame");
    o.label_if(c.muts.iter().any(|m| matches!(m, Mutation::PadCompressed(..))) && uncertain.is_some(), "bytes_behind_the_compressed_stream_in_a_frame");
    o.label_if(!ref_items.is_empty() && malformed, "messages_before_failure");

    let budget = 64 + 8 * (chunks.len() * 4 + ref_items.len() + 8);
    let dec_enc = c.enc.map(|e| e.tonic());
    // run and normalise events to (Item(bytes) | Err(code) | End | Stuck)
    #[derive(Debug)]
    enum E {
        Item(Vec<u8>),
        Err(Code, String),
        End,
        Stuck,
    }
    crate::infra::alloc::arm();
    let evs: Vec<E> = if c.prost {
        let d = ProstCodec::<Msg, Msg>::raw_decoder(BufferSettings::new(c.buffer_size, decoder_yield(c)));
        let mut st = if c.response {
            Streaming::new_response(d, body, http::StatusCode::OK, dec_enc, None)
        } else {
            Streaming::new_request(d, body, dec_enc, None)
        };
        drive_decode(&mut st, budget, 6)
            .into_iter()
            .map(|e| match e {
                DecEv::Item(m) => E::Item(m.encode_to_vec()),
                DecEv::Err(s) => E::Err(s.code(), s.message().to_string()),
                DecEv::End => E::End,
                DecEv::Stuck => E::Stuck,
            })
            .collect()
    } else {
        let d = RawCodec::with(c.buffer_size, decoder_yield(c)).decoder();
        let mut st = if c.response {
            Streaming::new_response(d, body, http::StatusCode::OK, dec_enc, None)
        } else {
            Streaming::new_request(d, body, dec_enc, None)
        };
        drive_decode(&mut st, budget, 6)
            .into_iter()
            .map(|e| match e {
                DecEv::Item(m) => E::Item(m),
                DecEv::Err(s) => E::Err(s.code(), s.message().to_string()),
                DecEv::End => E::End,
                DecEv::Stuck => E::Stuck,
            })
            .collect()
    };

    let max_req = crate::infra::alloc::disarm();
    // ---- hostile input must not make the receiver reserve absurd amounts of memory (the whole input is
    // far below 1 MiB here; zstd itself may legitimately allocate a window of up to 128 MiB)
    ensure!(max_req < (1usize << 30), "C07/absurd-allocation", "a single allocation request of {max_req} bytes was made while decoding {} input bytes", delivered.len());
    // ---- every poll completes
    ensure!(!evs.iter().any(|e| matches!(e, E::Stuck)), "C07/poll-does-not-complete", "stream did not complete within the poll budget; events so far: {}", evs.len());
    let pae = probe.polls_after_end.load(std::sync::atomic::Ordering::Relaxed);
    ensure!(pae <= 16, "C07/body-polled-after-end", "body polled {pae} times after it ended");

    // ---- yielded messages are the reference frames, in order
    let mut n_items = 0usize;
    let mut first_terminal: Option<usize> = None;
    for (i, e) in evs.iter().enumerate() {
        match e {
            E::Item(m) => {
                ensure!(first_terminal.is_none(), "C07/message-after-end-or-error", "message yielded at event {i} after the stream had ended or failed (event {:?})", first_terminal);
                if n_items < ref_items.len() {
                    match &ref_items[n_items] {
                        RefItem::Exact(p) => {
                            let want = if c.prost { Msg::decode(&p[..]).map(|m| m.encode_to_vec()).unwrap_or_default() } else { p.clone() };
                            ensure!(*m == want, "C07/message-not-a-frame-of-the-input", "message {n_items} differs from frame {n_items} of the reference parse");
                        }
                        RefItem::Framed => {}
                    }
                } else {
                    ensure!(
                        false,
                        "C07/message-beyond-reference",
                        "stream yielded message {n_items} but the reference parse has only {} well-formed frames (stop: {:?})",
                        ref_items.len(),
                        ref_stop
                    );
                }
                n_items += 1;
            }
            E::Err(..) | E::End => {
                if first_terminal.is_none() {
                    first_terminal = Some(i);
                }
            }
            E::Stuck => {}
        }
    }
    let ft = first_terminal.expect("driver always records a terminal event");
    if let Some(u) = uncertain {
        // the stream may stop with an error at any frame of unknown decompression; short of that nothing is lost
        match &evs[ft] {
            E::End => ensure!(n_items == ref_items.len(), "C07/messages-lost-before-clean-end", "clean end after {n_items} of {} delimited frames", ref_items.len()),
            _ => ensure!(n_items >= u, "C07/messages-lost", "{n_items} messages yielded before the error, but the first {u} frames are well-formed"),
        }
    } else {
        ensure!(n_items == ref_items.len() || matches!(evs[ft], E::Err(..)) && n_items <= ref_items.len(), "C07/messages-lost", "{} messages yielded, reference has {} complete frames before {:?}", n_items, ref_items.len(), ref_stop);
        // a clean end must not swallow complete frames
        if matches!(evs[ft], E::End) {
            ensure!(n_items == ref_items.len(), "C07/messages-lost-before-clean-end", "clean end after {n_items} of {} well-formed frames", ref_items.len());
        }
    }

    // ---- the first error is final; a clean end is sticky; at most one error
    let errs = evs.iter().filter(|e| matches!(e, E::Err(..))).count();
    ensure!(errs <= 1, if body_error_injected && !malformed { "C07/error-not-final/body-error" } else { "C07/error-not-final/decode-error" }, "{errs} errors yielded by one stream: {:?}", evs.iter().skip(ft).collect::<Vec<_>>());
    for (i, e) in evs.iter().enumerate().skip(ft + 1) {
        ensure!(matches!(e, E::End), "C07/not-terminal-after-end", "event {i} after the terminal event {ft} is {e:?}");
    }

    // ---- an error is required where the input is definitely malformed
    let certain = uncertain.is_none();
    match (&ref_stop, &evs[ft]) {
        (_, E::Err(..)) if !certain => {}
        (RefStop::Invalid(why), E::End) => bail!("C07/malformed-input-ends-cleanly", "invalid frame ({why}) but the stream ended cleanly"),
        (RefStop::Invalid("over-limit"), E::Err(code, _)) => {
            ensure!(*code == Code::OutOfRange || body_error_injected, "C07/over-limit-code", "over-limit frame gave {code:?}")
        }
        (RefStop::Invalid("flag" | "compressed-flag-without-encoding"), E::Err(code, msg)) => {
            ensure!(*code == Code::Internal || body_error_injected && msg == "injected body error", "C07/bad-flag-code", "bad flag gave {code:?} {msg:?}")
        }
        (RefStop::Truncated, E::End) => {
            // cut-off body: an error is required when the body simply ended (no trailers to speak for it)
            let request_cancel = !c.response && body_error_injected && c.body_err.map(|b| b.1) == Some(1);
            ensure!(has_trailers || request_cancel, "C07/truncated-input-ends-cleanly", "body cut off inside a frame ended cleanly without an error");
        }
        _ => {}
    }
    // ---- body errors surface exactly once (Request + CANCELLED may be swallowed as a clean end)
    if body_error_injected && certain && matches!(ref_stop, RefStop::CleanEnd | RefStop::Truncated) {
        let (_, code) = err_at.unwrap();
        match &evs[ft] {
            E::Err(c2, m) => ensure!(*c2 == Code::from_i32(code) && m == "injected body error", "C07/body-error-altered", "body error {code} surfaced as {c2:?} {m:?}"),
            E::End => ensure!(!c.response && code == 1, "C07/body-error-swallowed", "body error {code} was swallowed"),
            _ => {}
        }
    }
    // ---- trailers decide the outcome of a well-formed response body
    if c.response && has_trailers && matches!(ref_stop, RefStop::CleanEnd) && (certain || matches!(evs[ft], E::End)) {
        match (&c.trailers, &evs[ft]) {
            (Trailers::Ok | Trailers::NoStatus, E::End) => {}
            (Trailers::Err(code, m), E::Err(c2, m2)) => ensure!(*c2 == Code::from_i32(*code) && m2 == m, "C07/trailer-status-altered", "trailers {code} {m:?} surfaced as {c2:?} {m2:?}"),
            (Trailers::Malformed(_), E::Err(c2, _)) => ensure!(*c2 == Code::Unknown, "C07/malformed-trailer-status", "malformed grpc-status surfaced as {c2:?}"),
            (Trailers::Malformed(h), E::End) if crate::infra::blob::unhex(h) == b"01" => {}
            (t, e) => bail!("C07/trailers-outcome", "trailers {t:?} on a well-formed body gave {e:?}"),
        }
    }
    Ok(())
}

pub struct C07;
impl Prop for C07 {
    const ID: &'static str = "C07";
    type Case = Case;
    fn strategy() -> BoxedStrategy<Case> {
        strategy()
    }
    fn run(c: &Case, o: &mut Outcome) -> Result<(), Failure> {
        run(c, o)
    }
    fn rule() -> &'static str {
        "proptest: valid streams from the independent encoder (0-5 frames, identity or really compressed) mutated by well-formed zstd frame headers declaring absurd content sizes, flag->2..255/0/1, length +-delta / absolute (4 MiB+-1, 2^31, 2^32-1), truncation at any byte, byte corruption, inserted garbage, duplicated frames - or raw random bytes; any chunking (0,1,2-5,<=100,<=9000) and body Pending pattern; decoder in {raw, prost}; direction in {request, response}; trailers in {none, OK, error status, malformed grpc-status, no grpc-status}; body error injected before any chunk. After the first Err/None the stream is polled 6 more times. Oracle: no panic, poll budget respected, body not re-polled after its end, i-th message equals i-th frame of the independent reference parse, at most one Err ever and only None after it, None sticky, definite malformations (bad flag, flag 1 without encoding, over-limit length, undecodable protobuf, truncation with no trailers) must produce an error. Non-trivial: reference parse stops early (malformed) or a body error is injected; distinct = distinct serialised case. The decoder's codec reports yield thresholds 0, 1, 1024 and 32 KiB. Frames behind a compressed frame of unknown decompression are still compared (nothing but the delimited frames may come out); PadCompressed puts 1-100 KiB of well-formed one-byte frames behind the end of a compressed stream inside its frame; every DATA frame is handed over as a two-segment Buf; one case in 25 appends a 1-2.6 KB frame and delivers the stream one byte per immediately ready DATA frame (up to 4000 frames); malformed grpc-status values include 17-20, 100, 1e1, +1."
    }
    fn assumptions() -> Vec<String> {
        vec![
            "on compressed payloads that are not byte-identical to one the generator compressed, tonic may either fail or yield a message of any content (decompressors legitimately differ on garbage); the frames behind such a frame are still compared: nothing but the delimited frames may come out".into(),
            "a request body error with code CANCELLED may surface as a clean end (documented tonic behaviour for client cancellation)".into(),
            "a response whose data is cut off but whose trailers carry a status is judged by those trailers".into(),
        ]
    }
    fn cases(t: Tier) -> u64 {
        match t {
            Tier::Quick => 200_000,
            Tier::Thorough => 2_000_000,
        }
    }
    fn from_bytes(data: &[u8]) -> Option<Case> {
        use arbitrary::Unstructured;
        let mut u = Unstructured::new(data);
        let response = u.arbitrary().ok()?;
        let enc = match u.int_in_range(0u8..=3).ok()? {
            0 => None,
            1 => Some(Enc::Gzip),
            2 => Some(Enc::Deflate),
            _ => Some(Enc::Zstd),
        };
        let prost = u.ratio(1u8, 4u8).ok()?;
        let bs = *u.choose(&gen::BUFFER_SIZES).ok()?;
        let trailers = match u.int_in_range(0u8..=4).ok()? {
            0 | 1 => Trailers::None,
            2 => Trailers::Ok,
            3 => Trailers::Err(u.int_in_range(1i32..=16).ok()?, "e".into()),
            _ => Trailers::NoStatus,
        };
        let body_err = if u.ratio(1u8, 6u8).ok()? { Some((u.arbitrary().ok()?, u.int_in_range(1i32..=16).ok()?)) } else { None };
        let ns = u.int_in_range(0usize..=12).ok()?;
        let sizes = (0..ns).map(|_| (u.arbitrary::<u8>().unwrap_or(1) % 12) as u16).collect();
        let body_pend = vec![u.int_in_range(0u8..=2).ok()?, 0];
        let rest = u.take_rest();
        Some(Case {
            response,
            enc,
            prost,
            buffer_size: bs,
            frames: vec![],
            muts: vec![],
            raw: Some(Blob::of(rest)),
            sizes,
            body_pend,
            trailers,
            body_err,
            dribble: 0,
        })
    }
    fn fuzz(t: Tier) -> Option<FuzzSpec> {
        match t {
            Tier::Quick => None,
            Tier::Thorough => Some(FuzzSpec { target: "c07_decoder", runs: 2_000_000, max_len: 512 }),
        }
    }
}
