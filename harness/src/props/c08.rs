//! C08 – user metadata crosses the wire intact; protocol headers cannot be forged; the typed
//! accessors never present a binary entry as ASCII or an ASCII entry as binary.
//!
//! Three families in one `Case`:
//!  (a) `Api`   – model-based history on `MetadataMap` against a reference ordered multimap;
//!  (b) `Send*` – caller / handler / status metadata through the generated client (recording mock
//!                transport) and the generated server (called in-process): what is put on the wire;
//!  (c) `Recv*` – headers / trailers with padded and unpadded base64 delivered to the generated client
//!                and server: what `Response::metadata()`, `Streaming::trailers()`, `Status::metadata()`
//!                and `Request::metadata()` hand out through the typed accessors.
use crate::infra::blob::{hex, unhex};
use crate::infra::codec_drv::ok_trailers;
use crate::infra::driver::block_on_budget;
use crate::infra::handler::{ErrKind, HandlerScript, RespMsg, Shared, StatusSpec};
use crate::infra::md::{self, MdEntry};
use crate::infra::mock::{self, MockChannel, Reply};
use crate::infra::runner::*;
use crate::infra::script::{BodyStep, ScriptBody};
use crate::infra::wire;
use crate::svc::vt;
use crate::{bail, ensure};
use bytes::Bytes;
use http::{HeaderMap, HeaderName, HeaderValue};
use proptest::prelude::*;
use serde::{Deserialize, Serialize};
use std::collections::hash_map::DefaultHasher;
use std::future::Future;
use std::hash::{Hash, Hasher};
use std::pin::Pin;
use std::sync::{Arc, Mutex};
use std::task::{Context, Poll};
use tonic::metadata::{
    Ascii, Binary, Entry, KeyAndMutValueRef, KeyAndValueRef, KeyRef, MetadataKey, MetadataMap, MetadataValue, OccupiedEntry, ValueRef,
    ValueRefMut,
};
use tonic::{Code, Request, Response, Status, Streaming};

// =====================================================================================================
// case
// =====================================================================================================

/// Names used by the API family (static so that the `&'static str` key forms can be exercised).
/// Near misses of the `-bin` suffix next to real binary names, plus a few reserved names.
pub const API_NAMES: &[&str] = &[
    "x-a", "k", "bin", "-bin", "x-bin-", "x-binx", "xbin", "x-bi", "x-bin", "data-bin", "a-bin", "k-bin", "x-bin-bin", "x1", "te",
    "content-type", "grpc-status", "user-agent",
];

#[derive(Clone, Copy, Debug, Serialize, Deserialize, PartialEq, Eq)]
pub enum KForm {
    /// `MetadataKey<K>` by value
    Typed,
    /// `&MetadataKey<K>`
    TypedRef,
    /// `&str`
    Str,
    /// `String`
    Owned,
    /// `&String`
    OwnedRef,
}
const KFORMS: [KForm; 5] = [KForm::Typed, KForm::TypedRef, KForm::Str, KForm::Owned, KForm::OwnedRef];

/// Spelling of a string key.
#[derive(Clone, Copy, Debug, Serialize, Deserialize, PartialEq, Eq)]
pub enum KCase {
    Lower,
    /// `X-BIN`
    Upper,
    /// `x-BIN`
    SuffixUpper,
    /// `Data-Bin`
    Title,
    /// `X-bin`
    PrefixUpper,
}
const KCASES: [KCase; 5] = [KCase::Lower, KCase::Upper, KCase::SuffixUpper, KCase::Title, KCase::PrefixUpper];

#[derive(Clone, Copy, Debug, Serialize, Deserialize, PartialEq, Eq)]
pub enum IForm {
    Typed,
    TypedRef,
    /// `&'static str`
    Static,
}

#[derive(Clone, Copy, Debug, Serialize, Deserialize, PartialEq, Eq)]
pub enum EOp {
    OrInsert,
    OrInsertWith,
    /// occupied: `insert` (replace all); vacant: `insert`
    Insert,
    /// occupied: `insert_mult`; vacant: `insert_entry`
    InsertMult,
    /// occupied: `append`; vacant: `insert`
    Append,
    Remove,
    RemoveEntry,
    RemoveEntryMult,
    /// look only (`key`, `get`, `get_mut`, `iter`, `iter_mut`, `into_key`)
    Peek,
}
const EOPS: [EOp; 9] =
    [EOp::OrInsert, EOp::OrInsertWith, EOp::Insert, EOp::InsertMult, EOp::Append, EOp::Remove, EOp::RemoveEntry, EOp::RemoveEntryMult, EOp::Peek];

/// `n` indexes the case's name list (mod its length). `v` is the hex of the raw value; for ASCII
/// accessors it is mapped onto legal header-value bytes. `pad`: binary values are constructed from a
/// *padded* base64 text instead of `from_bytes`. `cross`: use the accessor of the *other* kind (ASCII
/// accessor on a `-bin` name and vice versa), which must find nothing and change nothing.
#[derive(Clone, Debug, Serialize, Deserialize)]
pub enum Op {
    Insert { n: u8, v: String, f: IForm, pad: bool },
    Append { n: u8, v: String, f: IForm, pad: bool },
    Remove { n: u8, f: KForm, c: KCase, cross: bool },
    Entry { n: u8, f: KForm, c: KCase, cross: bool, op: EOp, v: String, pad: bool },
    /// `*get_mut(key)? = value`
    SetFirst { n: u8, f: KForm, c: KCase, cross: bool, v: String, pad: bool },
    Clear,
    /// `MetadataMap::from_headers(map.into_headers())`
    RoundTrip,
}

#[derive(Clone, Copy, Debug, Serialize, Deserialize, PartialEq, Eq)]
pub enum Shape {
    Unary,
    ClientStream,
    ServerStream,
    Bidi,
}
const SHAPES: [Shape; 4] = [Shape::Unary, Shape::ClientStream, Shape::ServerStream, Shape::Bidi];
impl Shape {
    fn path(self) -> &'static str {
        match self {
            Shape::Unary => "/vt.Raw/Unary",
            Shape::ClientStream => "/vt.Raw/ClientStream",
            Shape::ServerStream => "/vt.Raw/ServerStream",
            Shape::Bidi => "/vt.Raw/Bidi",
        }
    }
    fn streaming_resp(self) -> bool {
        matches!(self, Shape::ServerStream | Shape::Bidi)
    }
    fn label(self) -> &'static str {
        match self {
            Shape::Unary => "shape_unary",
            Shape::ClientStream => "shape_client_stream",
            Shape::ServerStream => "shape_server_stream",
            Shape::Bidi => "shape_bidi",
        }
    }
}

/// A header as a peer puts it on the wire: `-bin` names carry base64 of `val`, padded iff `pad`.
#[derive(Clone, Debug, Serialize, Deserialize, PartialEq, Eq)]
pub struct WEnt {
    pub name: String,
    pub val: String,
    pub pad: bool,
}
impl WEnt {
    fn is_bin(&self) -> bool {
        self.name.ends_with("-bin")
    }
    fn wire_value(&self) -> Vec<u8> {
        let raw = unhex(&self.val);
        if self.is_bin() {
            wire::b64_encode(&raw, self.pad).into_bytes()
        } else {
            raw
        }
    }
}

#[derive(Clone, Debug, Serialize, Deserialize, PartialEq, Eq)]
pub enum RecvOutcome {
    /// headers, one message, trailers with grpc-status 0
    Ok,
    /// headers, (message,) trailers with an error status
    ErrTrailers { code: u8, with_msg: bool },
    /// trailers-only response: everything in the headers
    TrailersOnly { code: u8 },
}

#[derive(Clone, Debug, Serialize, Deserialize)]
pub enum Case {
    Api { names: Vec<u8>, ops: Vec<Op> },
    /// caller metadata -> generated client -> recording transport
    SendClient { shape: Shape, md: Vec<MdEntry>, icpt: bool },
    /// handler metadata / status metadata -> generated server -> response headers / trailers
    SendServer { shape: Shape, initial: Vec<MdEntry>, status: Option<(u8, Vec<MdEntry>)>, stream_item: bool },
    /// response headers / trailers / status as a peer sends them -> generated client
    RecvClient { shape: Shape, headers: Vec<WEnt>, trailers: Vec<WEnt>, outcome: RecvOutcome },
    /// request headers as a peer sends them -> generated server -> handler
    RecvServer { shape: Shape, headers: Vec<WEnt>, icpt: bool },
    /// a real `Channel` (in-memory pipe) to a real tonic server: what the *whole* client stack puts on the wire.
    /// `forge`: a client interceptor sets `user-agent`; `ua`: `Endpoint::user_agent` is configured; `ints`: the
    /// caller attaches ASCII values built from integers and a binary value built from `Bytes`
    OverChannel { forge: bool, ua: bool, ints: Vec<i64>, shared: crate::infra::blob::Blob, rt_seed: u64 },
}

// =====================================================================================================
// generator
// =====================================================================================================

fn kform() -> impl Strategy<Value = KForm> {
    proptest::sample::select(&KFORMS[..])
}
fn kcase() -> impl Strategy<Value = KCase> {
    prop_oneof![
        6 => Just(KCase::Lower),
        2 => Just(KCase::Upper),
        1 => Just(KCase::SuffixUpper),
        2 => Just(KCase::Title),
        1 => Just(KCase::PrefixUpper),
    ]
}
fn iform() -> impl Strategy<Value = IForm> {
    prop_oneof![Just(IForm::Typed), Just(IForm::TypedRef), Just(IForm::Static)]
}
/// raw value: every length mod 3 well represented, short
fn raw_value() -> BoxedStrategy<String> {
    prop_oneof![
        1 => Just(vec![]),
        6 => proptest::collection::vec(any::<u8>(), 1..=5),
        3 => proptest::collection::vec(any::<u8>(), 6..=20),
        2 => proptest::collection::vec(prop_oneof![Just(0u8), Just(0xffu8), Just(b'='), Just(b' '), Just(0xfbu8), Just(0xefu8)], 1..=4),
    ]
    .prop_map(|v| hex(&v))
    .boxed()
}
fn cross() -> impl Strategy<Value = bool> {
    proptest::bool::weighted(0.2)
}

fn op() -> BoxedStrategy<Op> {
    prop_oneof![
        4 => (any::<u8>(), raw_value(), iform(), any::<bool>()).prop_map(|(n, v, f, pad)| Op::Insert { n, v, f, pad }),
        6 => (any::<u8>(), raw_value(), iform(), any::<bool>()).prop_map(|(n, v, f, pad)| Op::Append { n, v, f, pad }),
        3 => (any::<u8>(), kform(), kcase(), cross()).prop_map(|(n, f, c, cross)| Op::Remove { n, f, c, cross }),
        6 => (any::<u8>(), kform(), kcase(), cross(), proptest::sample::select(&EOPS[..]), raw_value(), any::<bool>())
            .prop_map(|(n, f, c, cross, op, v, pad)| Op::Entry { n, f, c, cross, op, v, pad }),
        2 => (any::<u8>(), kform(), kcase(), cross(), raw_value(), any::<bool>()).prop_map(|(n, f, c, cross, v, pad)| Op::SetFirst { n, f, c, cross, v, pad }),
        1 => Just(Op::Clear),
        1 => Just(Op::RoundTrip),
    ]
    .boxed()
}

fn api_case() -> BoxedStrategy<Case> {
    let n = API_NAMES.len() as u8;
    (proptest::collection::vec(0u8..n, 1..=5), proptest::collection::vec(op(), 1..=25)).prop_map(|(names, ops)| Case::Api { names, ops }).boxed()
}

const FORGED: &str = "forged-";

/// Entry for the wire families. Reserved names carry a value that can never coincide with what the
/// protocol itself puts there (`forged-…`).
fn wire_entry(allow_reserved: bool) -> BoxedStrategy<MdEntry> {
    md::name(allow_reserved)
        .prop_flat_map(|n| {
            let v: BoxedStrategy<Vec<u8>> = if wire::RESERVED_METADATA.contains(&n.as_str()) {
                "[a-z0-9]{0,6}".prop_map(|s| format!("{FORGED}{s}").into_bytes()).boxed()
            } else if n.ends_with("-bin") {
                prop_oneof![
                    1 => Just(vec![]),
                    5 => proptest::collection::vec(any::<u8>(), 1..=5),
                    3 => proptest::collection::vec(any::<u8>(), 6..=20),
                ]
                .boxed()
            } else {
                md::ascii_value(false)
            };
            v.prop_map(move |v| MdEntry { name: n.clone(), val: hex(&v) })
        })
        .boxed()
}
fn wire_entries(max: usize, allow_reserved: bool) -> BoxedStrategy<Vec<MdEntry>> {
    // repeated keys are a stated class: duplicate some names on purpose
    (proptest::collection::vec(wire_entry(allow_reserved), 0..=max), proptest::collection::vec((any::<u16>(), any::<u16>()), 0..=2), proptest::collection::vec(raw_value(), 2))
        .prop_map(|(mut es, dups, vals)| {
            for (i, (from, at)) in dups.iter().enumerate() {
                if es.is_empty() {
                    break;
                }
                let src = es[crate::infra::gen::pick(*from, es.len())].clone();
                let val = if src.is_reserved() {
                    format!("{}{}", hex(FORGED.as_bytes()), hex(b"2"))
                } else if src.is_bin() {
                    vals[i].clone()
                } else {
                    hex(&ascii_legal(&unhex(&vals[i]), false))
                };
                let pos = crate::infra::gen::pick(*at, es.len() + 1);
                es.insert(pos, MdEntry { name: src.name, val });
            }
            es
        })
        .boxed()
}
fn recv_entries(max: usize) -> BoxedStrategy<Vec<WEnt>> {
    (wire_entries(max, false), proptest::collection::vec(any::<bool>(), max + 2))
        .prop_map(|(es, pads)| es.into_iter().enumerate().map(|(i, e)| WEnt { name: e.name, val: e.val, pad: pads[i] }).collect())
        .boxed()
}
fn shape() -> impl Strategy<Value = Shape> {
    proptest::sample::select(&SHAPES[..])
}
fn code() -> impl Strategy<Value = u8> {
    1u8..=16
}

pub fn strategy() -> BoxedStrategy<Case> {
    let send_client = (shape(), wire_entries(5, true), proptest::bool::weighted(0.3)).prop_map(|(shape, md, icpt)| Case::SendClient { shape, md, icpt });
    let send_server = (shape(), wire_entries(4, true), proptest::option::weighted(0.6, (code(), wire_entries(4, true))), any::<bool>())
        .prop_map(|(shape, initial, status, stream_item)| Case::SendServer { shape, initial, status, stream_item });
    let outcome = prop_oneof![
        3 => Just(RecvOutcome::Ok),
        3 => (code(), any::<bool>()).prop_map(|(code, with_msg)| RecvOutcome::ErrTrailers { code, with_msg }),
        2 => code().prop_map(|code| RecvOutcome::TrailersOnly { code }),
        // a successful call answered in one block (a server stream that ends without a message, as other gRPC
        // implementations send it): header and trailer metadata travel together
        1 => Just(RecvOutcome::TrailersOnly { code: 0 }),
    ];
    let recv_client = (shape(), recv_entries(4), recv_entries(4), outcome).prop_map(|(shape, headers, trailers, outcome)| Case::RecvClient { shape, headers, trailers, outcome });
    let recv_server = (shape(), recv_entries(5), proptest::bool::weighted(0.3)).prop_map(|(shape, headers, icpt)| Case::RecvServer { shape, headers, icpt });
    let over_channel = (
        any::<bool>(),
        any::<bool>(),
        proptest::collection::vec(prop_oneof![3 => Just(0i64), 2 => -20i64..=20, 1 => Just(i64::MIN), 1 => Just(i64::MAX), 1 => any::<i64>()], 0..=4),
        // payloads that look like base64 text themselves, next to arbitrary ones
        prop_oneof![
            2 => "[A-Za-z0-9+/]{4}|[A-Za-z0-9+/]{8}|[A-Za-z0-9+/]{2}==|[A-Za-z0-9+/]{3}=".prop_map(|s| crate::infra::blob::Blob::of(s.as_bytes())),
            2 => crate::infra::blob::small_bytes(16),
        ],
        any::<u64>(),
    )
        .prop_map(|(forge, ua, ints, shared, rt_seed)| Case::OverChannel { forge, ua, ints, shared, rt_seed });
    prop_oneof![
        20 => api_case(),
        1 => send_client,
        1 => send_server,
        1 => recv_client,
        1 => recv_server,
        1 => over_channel,
    ]
    .boxed()
}

// =====================================================================================================
// helpers shared by the families
// =====================================================================================================

fn is_bin_name(n: &str) -> bool {
    // the stored (lower-case) name decides the kind
    n.len() >= 4 && &n.as_bytes()[n.len() - 4..] == b"-bin"
}

/// maps arbitrary bytes onto bytes legal in an (ASCII) header value; `opaque` keeps obs-text
fn ascii_legal(raw: &[u8], opaque: bool) -> Vec<u8> {
    let mut v: Vec<u8> = raw
        .iter()
        .map(|b| match *b {
            0x21..=0x7e => *b,
            0x80..=0xff if opaque => *b,
            b' ' => b' ',
            x => 0x21 + x % 94,
        })
        .collect();
    // no leading/trailing blank (a transport may trim it)
    if v.first() == Some(&b' ') {
        v[0] = b'_';
    }
    if v.last() == Some(&b' ') {
        let l = v.len() - 1;
        v[l] = b'_';
    }
    v
}

fn vary(n: &str, c: KCase) -> String {
    match c {
        KCase::Lower => n.to_string(),
        KCase::Upper => n.to_ascii_uppercase(),
        KCase::SuffixUpper => {
            let cut = n.len().saturating_sub(3);
            format!("{}{}", &n[..cut], n[cut..].to_ascii_uppercase())
        }
        KCase::Title => {
            let mut out = String::new();
            let mut start = true;
            for ch in n.chars() {
                out.push(if start { ch.to_ascii_uppercase() } else { ch });
                start = ch == '-';
            }
            out
        }
        KCase::PrefixUpper => {
            let mut cs = n.chars();
            match cs.next() {
                Some(f) => format!("{}{}", f.to_ascii_uppercase(), cs.as_str()),
                None => String::new(),
            }
        }
    }
}

fn hash_of<T: Hash>(t: &T) -> u64 {
    let mut h = DefaultHasher::new();
    t.hash(&mut h);
    h.finish()
}

type Raw = Result<Vec<u8>, String>;

/// Raw bytes a typed value denotes, through the typed API only.
trait RawOf {
    fn raw_of(&self) -> Raw;
}
impl RawOf for MetadataValue<Ascii> {
    fn raw_of(&self) -> Raw {
        Ok(self.as_bytes().to_vec())
    }
}
impl RawOf for MetadataValue<Binary> {
    fn raw_of(&self) -> Raw {
        self.to_bytes().map(|b| b.to_vec()).map_err(|_| format!("to_bytes() failed on stored text {:?}", String::from_utf8_lossy(self.as_encoded_bytes())))
    }
}
/// Which kind an occupied entry claims to be (implemented per concrete type, so the check compiles
/// whatever type `VacantEntry::insert_entry` returns).
trait PresentsBin {
    fn presents_bin(&self) -> bool;
    fn first_raw(&self) -> Raw;
}
impl PresentsBin for OccupiedEntry<'_, Ascii> {
    fn presents_bin(&self) -> bool {
        false
    }
    fn first_raw(&self) -> Raw {
        self.get().raw_of()
    }
}
impl PresentsBin for OccupiedEntry<'_, Binary> {
    fn presents_bin(&self) -> bool {
        true
    }
    fn first_raw(&self) -> Raw {
        self.get().raw_of()
    }
}

fn aval(raw: &[u8]) -> Result<MetadataValue<Ascii>, Failure> {
    MetadataValue::<Ascii>::try_from(raw).map_err(|_| Failure { sig: "C08/valid-ascii-value-rejected".into(), detail: format!("MetadataValue::<Ascii>::try_from refused {}", hex(raw)) })
}
fn bval(raw: &[u8], pad: bool) -> MetadataValue<Binary> {
    if pad {
        // what a map built from a padding peer's headers holds
        unsafe { MetadataValue::<Binary>::from_shared_unchecked(Bytes::from(wire::b64_encode(raw, true))) }
    } else {
        MetadataValue::<Binary>::from_bytes(raw)
    }
}

/// Failures of an already-known class are parked so that the rest of the case is still judged;
/// a fresh failure always wins.
#[derive(Default)]
struct Ctx {
    deferred: Option<Failure>,
}
impl Ctx {
    fn park(&mut self, sig: &str, detail: String) {
        if self.deferred.is_none() {
            self.deferred = Some(Failure { sig: sig.to_string(), detail });
        }
    }
    fn finish(self) -> Result<(), Failure> {
        match self.deferred {
            Some(f) => Err(f),
            None => Ok(()),
        }
    }
}

const SIG_CROSS: &str = "C08/accessor-crosses-kinds";
const SIG_CROSS_MIXED: &str = "C08/accessor-crosses-kinds/mixed-case-str-key";
const SIG_INSERT_ENTRY: &str = "C08/insert-entry-presents-binary-as-ascii";
const SIG_MERGE: &str = "C08/unary-merge-drops-same-key";

// =====================================================================================================
// (a) model-based API history
// =====================================================================================================

/// name -> ordered raw values (http::HeaderMap semantics; order *between* names is not modelled)
#[derive(Default, Clone, Debug)]
struct Model(Vec<(String, Vec<Vec<u8>>)>);
impl Model {
    fn get(&self, n: &str) -> Option<&Vec<Vec<u8>>> {
        self.0.iter().find(|x| x.0 == n).map(|x| &x.1)
    }
    fn get_mut(&mut self, n: &str) -> Option<&mut Vec<Vec<u8>>> {
        self.0.iter_mut().find(|x| x.0 == n).map(|x| &mut x.1)
    }
    fn remove(&mut self, n: &str) -> Option<Vec<Vec<u8>>> {
        let i = self.0.iter().position(|x| x.0 == n)?;
        Some(self.0.remove(i).1)
    }
    fn insert(&mut self, n: &str, v: Vec<u8>) -> Option<Vec<Vec<u8>>> {
        match self.get_mut(n) {
            Some(vs) => Some(std::mem::replace(vs, vec![v])),
            None => {
                self.0.push((n.to_string(), vec![v]));
                None
            }
        }
    }
    fn append(&mut self, n: &str, v: Vec<u8>) -> bool {
        match self.get_mut(n) {
            Some(vs) => {
                vs.push(v);
                true
            }
            None => {
                self.0.push((n.to_string(), vec![v]));
                false
            }
        }
    }
    fn len(&self) -> usize {
        self.0.iter().map(|x| x.1.len()).sum()
    }
    fn sorted(&self) -> Vec<(String, Vec<Vec<u8>>)> {
        let mut v = self.0.clone();
        v.sort();
        v
    }
}

fn typed(f: KForm) -> bool {
    matches!(f, KForm::Typed | KForm::TypedRef)
}

/// Dispatches over the key forms. `$rej` is the value when the typed key cannot be constructed.
macro_rules! with_key {
    ($K:ty, $f:expr, $ks:expr, $rej:expr, |$key:ident| $body:expr) => {
        match $f {
            KForm::Typed => match MetadataKey::<$K>::from_bytes($ks.as_bytes()) {
                Ok($key) => $body,
                Err(_) => $rej,
            },
            KForm::TypedRef => match MetadataKey::<$K>::from_bytes($ks.as_bytes()) {
                Ok(k0) => {
                    let $key = &k0;
                    $body
                }
                Err(_) => $rej,
            },
            KForm::Str => {
                let $key: &str = $ks.as_str();
                $body
            }
            KForm::Owned => {
                let $key: String = $ks.clone();
                $body
            }
            KForm::OwnedRef => {
                let $key: &String = &$ks;
                $body
            }
        }
    };
}

#[derive(Debug)]
enum Got<T> {
    /// the typed key of this kind could not be constructed for this name
    KeyRejected,
    Val(T),
}

struct Look<'a> {
    /// lower-case stored name
    n: &'a str,
    /// spelling used
    ks: &'a str,
    f: KForm,
    /// accessor kind
    acc_bin: bool,
    /// model values of `n`
    vals: Option<&'a Vec<Vec<u8>>>,
    what: &'static str,
}
impl Look<'_> {
    fn same_kind(&self) -> bool {
        is_bin_name(self.n) == self.acc_bin
    }
    fn exact(&self) -> bool {
        typed(self.f) || self.ks == self.n
    }
    fn desc(&self) -> String {
        format!("{}({:?} as {:?}) [{} accessor, stored name {:?} holds {}]", self.what, self.ks, self.f, if self.acc_bin { "binary" } else { "ASCII" }, self.n, match self.vals {
            Some(v) => format!("{} value(s)", v.len()),
            None => "nothing".into(),
        })
    }
    fn crossing(&self, ctx: &mut Ctx, found: String) -> Result<(), Failure> {
        let detail = format!("{} returned {found}: a {} entry presented as {}", self.desc(), if is_bin_name(self.n) { "binary" } else { "ASCII" }, if self.acc_bin { "binary" } else { "ASCII" });
        if self.exact() {
            bail!(SIG_CROSS, "{detail}");
        }
        ctx.park(SIG_CROSS_MIXED, detail);
        Ok(())
    }
    /// judge a first-value style result
    fn judge_first(&self, got: &Got<Option<Raw>>, ctx: &mut Ctx) -> Result<(), Failure> {
        let g = match got {
            Got::KeyRejected => {
                ensure!(!self.same_kind(), "C08/valid-key-rejected", "{}: MetadataKey::from_bytes refused a name of its own kind", self.desc());
                return Ok(());
            }
            Got::Val(g) => g,
        };
        ensure!(!(typed(self.f) && !self.same_kind()), "C08/key-kind-check", "{}: a typed key of the wrong kind could be constructed", self.desc());
        if !self.same_kind() {
            if let Some(r) = g {
                return self.crossing(ctx, format!("Some({})", show_raw(r)));
            }
            return Ok(());
        }
        match (g, self.vals) {
            (None, None) => {}
            (None, Some(_)) => ensure!(!self.exact(), "C08/entry-not-found", "{} returned None", self.desc()),
            (Some(r), None) => bail!("C08/phantom-entry", "{} returned Some({})", self.desc(), show_raw(r)),
            (Some(Err(e)), Some(_)) => bail!("C08/binary-value-not-restored", "{}: {e}", self.desc()),
            (Some(Ok(r)), Some(vs)) => ensure!(*r == vs[0], if self.acc_bin { "C08/binary-value-not-restored" } else { "C08/value-altered" }, "{} returned {}, first stored value is {} (len {} mod 3 = {})", self.desc(), hex(r), hex(&vs[0]), vs[0].len(), vs[0].len() % 3),
        }
        Ok(())
    }
    /// judge an all-values style result
    fn judge_all(&self, got: &Got<Vec<Raw>>, ctx: &mut Ctx) -> Result<(), Failure> {
        let g = match got {
            Got::KeyRejected => {
                ensure!(!self.same_kind(), "C08/valid-key-rejected", "{}: MetadataKey::from_bytes refused a name of its own kind", self.desc());
                return Ok(());
            }
            Got::Val(g) => g,
        };
        ensure!(!(typed(self.f) && !self.same_kind()), "C08/key-kind-check", "{}: a typed key of the wrong kind could be constructed", self.desc());
        if !self.same_kind() {
            if !g.is_empty() {
                return self.crossing(ctx, format!("{} value(s), first {}", g.len(), show_raw(&g[0])));
            }
            return Ok(());
        }
        let empty = vec![];
        let want = self.vals.unwrap_or(&empty);
        if g.is_empty() && !want.is_empty() {
            ensure!(!self.exact(), "C08/entry-not-found", "{} returned nothing", self.desc());
            return Ok(());
        }
        ensure!(g.len() == want.len(), if g.len() < want.len() { "C08/values-lost" } else { "C08/phantom-entry" }, "{} returned {} values, model holds {}", self.desc(), g.len(), want.len());
        for (i, (r, w)) in g.iter().zip(want.iter()).enumerate() {
            match r {
                Err(e) => bail!("C08/binary-value-not-restored", "{} value {i}: {e}", self.desc()),
                Ok(r) => ensure!(r == w, if self.acc_bin { "C08/binary-value-not-restored" } else { "C08/value-order-or-content" }, "{} value {i} is {}, model holds {} (len mod 3 = {})", self.desc(), hex(r), hex(w), w.len() % 3),
            }
        }
        Ok(())
    }
}

fn show_raw(r: &Raw) -> String {
    match r {
        Ok(b) => format!("bytes {}", hex(b)),
        Err(e) => format!("<{e}>"),
    }
}

/// What an entry operation did to the model.
enum Applied {
    /// nothing changed
    None,
    /// the history cannot be continued against the model (a parked defect altered the map)
    Diverged,
}

macro_rules! kind_mod {
    ($m:ident, $K:ty, $bin:expr, $mk:path, $get:ident, $get_mut:ident, $get_all:ident, $remove:ident, $entry:ident, $insert:ident, $append:ident) => {
        mod $m {
            use super::*;
            pub type V = MetadataValue<$K>;
            pub const BIN: bool = $bin;

            pub fn mk(raw: &[u8], pad: bool) -> Result<(V, Vec<u8>), Failure> {
                $mk(raw, pad)
            }

            pub fn get(map: &MetadataMap, ks: &String, f: KForm) -> Got<Option<Raw>> {
                with_key!($K, f, ks, Got::KeyRejected, |key| Got::Val(map.$get(key).map(|v| v.raw_of())))
            }
            pub fn get_mut(map: &mut MetadataMap, ks: &String, f: KForm) -> Got<Option<Raw>> {
                with_key!($K, f, ks, Got::KeyRejected, |key| Got::Val(map.$get_mut(key).map(|v| v.raw_of())))
            }
            pub fn get_all(map: &MetadataMap, ks: &String, f: KForm) -> Got<Vec<Raw>> {
                with_key!($K, f, ks, Got::KeyRejected, |key| {
                    let ga = map.$get_all(key);
                    let a: Vec<Raw> = ga.iter().map(|v| v.raw_of()).collect();
                    let b: Vec<Raw> = (&ga).into_iter().map(|v| v.raw_of()).collect();
                    let mut c: Vec<Raw> = ga.iter().rev().map(|v| v.raw_of()).collect();
                    c.reverse();
                    // the three views of GetAll must agree; if not, hand back the odd one
                    if a != b {
                        Got::Val(b)
                    } else if a != c {
                        Got::Val(c)
                    } else {
                        Got::Val(a)
                    }
                })
            }
            pub fn contains(map: &MetadataMap, ks: &String, f: KForm) -> Got<bool> {
                with_key!($K, f, ks, Got::KeyRejected, |key| Got::Val(map.contains_key(key)))
            }
            pub fn remove(map: &mut MetadataMap, ks: &String, f: KForm) -> Got<Option<Raw>> {
                with_key!($K, f, ks, Got::KeyRejected, |key| Got::Val(map.$remove(key).map(|v| v.raw_of())))
            }
            pub fn set_first(map: &mut MetadataMap, ks: &String, f: KForm, val: V) -> Got<Option<Raw>> {
                with_key!($K, f, ks, Got::KeyRejected, |key| Got::Val(map.$get_mut(key).map(|slot| {
                    let old = slot.raw_of();
                    *slot = val;
                    old
                })))
            }
            pub fn insert(map: &mut MetadataMap, n: &'static str, f: IForm, val: V) -> Result<Option<Raw>, Failure> {
                let key = MetadataKey::<$K>::from_bytes(n.as_bytes()).map_err(|_| Failure { sig: "C08/valid-key-rejected".into(), detail: format!("MetadataKey::from_bytes({n:?}) refused a name of its own kind") })?;
                Ok(match f {
                    IForm::Typed => map.$insert(key, val),
                    IForm::TypedRef => map.$insert(&key, val),
                    IForm::Static => map.$insert(n, val),
                }
                .map(|v| v.raw_of()))
            }
            pub fn append(map: &mut MetadataMap, n: &'static str, f: IForm, val: V) -> Result<bool, Failure> {
                let key = MetadataKey::<$K>::from_bytes(n.as_bytes()).map_err(|_| Failure { sig: "C08/valid-key-rejected".into(), detail: format!("MetadataKey::from_bytes({n:?}) refused a name of its own kind") })?;
                Ok(match f {
                    IForm::Typed => map.$append(key, val),
                    IForm::TypedRef => map.$append(&key, val),
                    IForm::Static => map.$append(n, val),
                })
            }

            /// `entry()/entry_bin()` with this kind's accessor on name `n` spelled `ks`.
            #[allow(clippy::too_many_arguments)]
            pub fn entry_op(map: &mut MetadataMap, model: &mut Model, n: &str, ks: &String, f: KForm, op: EOp, raw: &[u8], pad: bool, ctx: &mut Ctx) -> Result<Applied, Failure> {
                let same_kind = is_bin_name(n) == BIN;
                let exact = typed(f) || ks == n;
                let (val, stored) = mk(raw, pad)?;
                let desc = format!("{}({ks:?} as {f:?}) on stored name {n:?}", stringify!($entry));
                let res = with_key!($K, f, ks, None, |key| Some(map.$entry(key)));
                let e = match res {
                    None => {
                        ensure!(!same_kind, "C08/valid-key-rejected", "{desc}: MetadataKey::from_bytes refused a name of its own kind");
                        return Ok(Applied::None);
                    }
                    Some(Err(_)) => {
                        ensure!(!(same_kind && exact), "C08/valid-key-rejected", "{desc}: refused with InvalidMetadataKey");
                        return Ok(Applied::None);
                    }
                    Some(Ok(e)) => e,
                };
                if !same_kind {
                    let detail = format!("{desc}: handed out an Entry<{}> for a {} name (key() = {:?})", stringify!($K), if is_bin_name(n) { "binary" } else { "ASCII" }, e.key().as_str());
                    if exact {
                        bail!(SIG_CROSS, "{detail}");
                    }
                    ctx.park(SIG_CROSS_MIXED, detail);
                    return Ok(Applied::Diverged);
                }
                ensure!(e.key().as_str() == n, "C08/entry-key", "{desc}: Entry::key() is {:?}", e.key().as_str());
                let cur = model.get(n).cloned();
                match (e, cur) {
                    (Entry::Occupied(_), None) => bail!("C08/phantom-entry", "{desc}: Occupied although the model holds nothing"),
                    (Entry::Vacant(_), Some(vs)) => bail!("C08/entry-not-found", "{desc}: Vacant although the model holds {} value(s)", vs.len()),
                    (Entry::Occupied(mut oe), Some(vs)) => {
                        ensure!(oe.key().as_str() == n, "C08/entry-key", "{desc}: OccupiedEntry::key() is {:?}", oe.key().as_str());
                        ensure!(oe.get().raw_of().as_ref() == Ok(&vs[0]), "C08/entry-value", "{desc}: OccupiedEntry::get() is {}, model first value {}", show_raw(&oe.get().raw_of()), hex(&vs[0]));
                        ensure!(oe.get_mut().raw_of().as_ref() == Ok(&vs[0]), "C08/entry-value", "{desc}: OccupiedEntry::get_mut() differs from the model");
                        let all: Vec<Raw> = oe.iter().map(|v| v.raw_of()).collect();
                        let want: Vec<Raw> = vs.iter().cloned().map(Ok).collect();
                        ensure!(all == want, "C08/entry-value", "{desc}: OccupiedEntry::iter() yields {:?}, model {:?}", all.iter().map(show_raw).collect::<Vec<_>>(), vs.iter().map(|v| hex(v)).collect::<Vec<_>>());
                        let allm: Vec<Raw> = oe.iter_mut().map(|v| v.raw_of()).collect();
                        ensure!(allm == want, "C08/entry-value", "{desc}: OccupiedEntry::iter_mut() differs from the model");
                        // http 1.5.0: HeaderMap's OccupiedEntry::insert_mult panics (unwrap on the links it has
                        // just taken) when the entry holds three or more values; that is the http crate's
                        // defect, not tonic's, so the operation is only generated below that size.
                        let op = if op == EOp::InsertMult && vs.len() >= 3 { EOp::Insert } else { op };
                        match op {
                            EOp::OrInsert => {
                                let r = Entry::Occupied(oe).or_insert(val);
                                ensure!(r.raw_of().as_ref() == Ok(&vs[0]), "C08/entry-value", "{desc}: or_insert on an occupied entry returned {}", show_raw(&r.raw_of()));
                            }
                            EOp::OrInsertWith => {
                                let mut called = false;
                                let r = Entry::Occupied(oe).or_insert_with(|| {
                                    called = true;
                                    val
                                });
                                let r = r.raw_of();
                                ensure!(r.as_ref() == Ok(&vs[0]) && !called, "C08/entry-value", "{desc}: or_insert_with on an occupied entry returned {} (default called: {called})", show_raw(&r));
                            }
                            EOp::Insert => {
                                let old = oe.insert(val).raw_of();
                                ensure!(old.as_ref() == Ok(&vs[0]), "C08/entry-value", "{desc}: OccupiedEntry::insert returned {}, model first value {}", show_raw(&old), hex(&vs[0]));
                                model.insert(n, stored);
                            }
                            EOp::InsertMult => {
                                let old: Vec<Raw> = oe.insert_mult(val).map(|v| v.raw_of()).collect();
                                ensure!(old == want, "C08/entry-value", "{desc}: insert_mult drained {:?}, model {:?}", old.iter().map(show_raw).collect::<Vec<_>>(), vs.iter().map(|v| hex(v)).collect::<Vec<_>>());
                                model.insert(n, stored);
                            }
                            EOp::Append => {
                                oe.append(val);
                                model.append(n, stored);
                            }
                            EOp::Remove => {
                                let old = oe.remove().raw_of();
                                ensure!(old.as_ref() == Ok(&vs[0]), "C08/entry-value", "{desc}: OccupiedEntry::remove returned {}", show_raw(&old));
                                model.remove(n);
                            }
                            EOp::RemoveEntry => {
                                let (k, old) = oe.remove_entry();
                                let old = old.raw_of();
                                ensure!(k.as_str() == n && old.as_ref() == Ok(&vs[0]), "C08/entry-value", "{desc}: remove_entry returned ({:?}, {})", k.as_str(), show_raw(&old));
                                model.remove(n);
                            }
                            EOp::RemoveEntryMult => {
                                let (k, drain) = oe.remove_entry_mult();
                                let old: Vec<Raw> = drain.map(|v| v.raw_of()).collect();
                                ensure!(k.as_str() == n && old == want, "C08/entry-value", "{desc}: remove_entry_mult returned ({:?}, {:?})", k.as_str(), old.iter().map(show_raw).collect::<Vec<_>>());
                                model.remove(n);
                            }
                            EOp::Peek => {
                                let viamut: Vec<Raw> = oe.into_iter().map(|v| v.raw_of()).collect();
                                ensure!(viamut == want, "C08/entry-value", "{desc}: OccupiedEntry::into_iter() differs from the model");
                            }
                        }
                    }
                    (Entry::Vacant(ve), None) => {
                        ensure!(ve.key().as_str() == n, "C08/entry-key", "{desc}: VacantEntry::key() is {:?}", ve.key().as_str());
                        match op {
                            EOp::OrInsert => {
                                let r = Entry::Vacant(ve).or_insert(val).raw_of();
                                ensure!(r.as_ref() == Ok(&stored), "C08/entry-value", "{desc}: or_insert on a vacant entry returned {}", show_raw(&r));
                                model.insert(n, stored);
                            }
                            EOp::OrInsertWith => {
                                let r = Entry::Vacant(ve).or_insert_with(|| val).raw_of();
                                ensure!(r.as_ref() == Ok(&stored), "C08/entry-value", "{desc}: or_insert_with on a vacant entry returned {}", show_raw(&r));
                                model.insert(n, stored);
                            }
                            EOp::Insert | EOp::Append => {
                                let r = ve.insert(val).raw_of();
                                ensure!(r.as_ref() == Ok(&stored), "C08/entry-value", "{desc}: VacantEntry::insert returned {}", show_raw(&r));
                                model.insert(n, stored);
                            }
                            EOp::InsertMult => {
                                let occ = ve.insert_entry(val);
                                if occ.presents_bin() != BIN {
                                    ctx.park(SIG_INSERT_ENTRY, format!("{desc}: VacantEntry<{}>::insert_entry returned an OccupiedEntry of the other kind: its get() reads the stored {} value as {}", stringify!($K), if BIN { "binary" } else { "ASCII" }, show_raw(&occ.first_raw())));
                                } else {
                                    let r = occ.first_raw();
                                    ensure!(r.as_ref() == Ok(&stored), "C08/entry-value", "{desc}: insert_entry(..).get() is {}", show_raw(&r));
                                }
                                model.insert(n, stored);
                            }
                            EOp::Remove | EOp::RemoveEntry | EOp::RemoveEntryMult | EOp::Peek => {
                                let k = ve.into_key();
                                ensure!(k.as_str() == n, "C08/entry-key", "{desc}: VacantEntry::into_key() is {:?}", k.as_str());
                            }
                        }
                    }
                }
                Ok(Applied::None)
            }
        }
    };
}

fn mk_ascii(raw: &[u8], _pad: bool) -> Result<(MetadataValue<Ascii>, Vec<u8>), Failure> {
    let legal = ascii_legal(raw, true);
    Ok((aval(&legal)?, legal))
}
fn mk_binary(raw: &[u8], pad: bool) -> Result<(MetadataValue<Binary>, Vec<u8>), Failure> {
    Ok((bval(raw, pad), raw.to_vec()))
}

kind_mod!(asc, Ascii, false, mk_ascii, get, get_mut, get_all, remove, entry, insert, append);
kind_mod!(bin, Binary, true, mk_binary, get_bin, get_bin_mut, get_all_bin, remove_bin, entry_bin, insert_bin, append_bin);

/// Equality / hash of binary values ignore padding; `to_bytes` restores the bytes from either text.
fn check_binary_value_forms(raw: &[u8], o: &mut Outcome) -> Result<(), Failure> {
    let unp = MetadataValue::<Binary>::from_bytes(raw);
    let padded_text = wire::b64_encode(raw, true);
    let pad = unsafe { MetadataValue::<Binary>::from_shared_unchecked(Bytes::from(padded_text.clone())) };
    let via_vec = MetadataValue::<Binary>::try_from(raw.to_vec()).map_err(|_| Failure { sig: "C08/binary-value-rejected".into(), detail: format!("MetadataValue::<Binary>::try_from(Vec) refused {}", hex(raw)) })?;
    let via_bytes = MetadataValue::<Binary>::try_from(Bytes::copy_from_slice(raw)).map_err(|_| Failure { sig: "C08/binary-value-rejected".into(), detail: format!("MetadataValue::<Binary>::try_from(Bytes) refused {}", hex(raw)) })?;
    let m = raw.len() % 3;
    for (name, v) in [("from_bytes", &unp), ("padded text", &pad), ("try_from(Vec)", &via_vec), ("try_from(Bytes)", &via_bytes)] {
        let back = v.raw_of();
        ensure!(back.as_ref() == Ok(&raw.to_vec()), "C08/binary-value-not-restored", "value built by {name} from {} (len mod 3 = {m}): to_bytes() gives {}", hex(raw), show_raw(&back));
        let enc = v.as_encoded_bytes();
        ensure!(wire::b64_decode(enc).as_deref() == Some(raw), "C08/binary-not-base64-of-bytes", "value built by {name} from {}: encoded text {:?} does not decode (independently) to the bytes", hex(raw), String::from_utf8_lossy(enc));
    }
    ensure!(unp == pad && pad == unp, "C08/binary-equality-depends-on-padding", "values of {} (len mod 3 = {m}) built from {:?} and {:?} compare unequal", hex(raw), String::from_utf8_lossy(unp.as_encoded_bytes()), padded_text);
    ensure!(hash_of(&unp) == hash_of(&pad), "C08/binary-hash-depends-on-padding", "values of {} (len mod 3 = {m}) built from padded and unpadded text hash differently", hex(raw));
    ensure!(unp == via_vec && unp == via_bytes, "C08/binary-equality-depends-on-padding", "values of {} built by different constructors compare unequal", hex(raw));
    o.label_if(unp.as_encoded_bytes().contains(&b'='), "from_bytes_emits_padded_text");
    o.label_if(m != 0 && !unp.as_encoded_bytes().contains(&b'='), "from_bytes_emits_unpadded_text");
    Ok(())
}

/// All read accessors against the model.
fn check_reads(map: &mut MetadataMap, model: &Model, universe: &[&'static str], ctx: &mut Ctx) -> Result<(), Failure> {
    // ---- whole-map views
    let total = model.len();
    ensure!(map.len() == total, "C08/len", "len() = {}, model holds {total} values", map.len());
    ensure!(map.keys_len() == model.0.len(), "C08/keys-len", "keys_len() = {}, model holds {} names", map.keys_len(), model.0.len());
    ensure!(map.is_empty() == (total == 0), "C08/is-empty", "is_empty() = {} with {total} values", map.is_empty());
    let want = model.sorted();

    let mut seen = Model::default();
    let mut kinds: Vec<(bool, Raw)> = vec![];
    for kv in map.iter() {
        let (name, presented_bin, raw) = match kv {
            KeyAndValueRef::Ascii(k, v) => (k.as_str().to_string(), false, v.raw_of()),
            KeyAndValueRef::Binary(k, v) => (k.as_str().to_string(), true, v.raw_of()),
        };
        ensure!(presented_bin == is_bin_name(&name), SIG_CROSS, "iter() presents the entry stored under {name:?} as {}", if presented_bin { "KeyAndValueRef::Binary" } else { "KeyAndValueRef::Ascii" });
        match &raw {
            Ok(r) => {
                seen.append(&name, r.clone());
            }
            Err(e) => bail!("C08/binary-value-not-restored", "iter(): value under {name:?}: {e}"),
        }
        kinds.push((presented_bin, raw));
    }
    ensure!(seen.sorted() == want, "C08/iter-differs-from-model", "iter() yields {:?}, model {:?}", show_model(&seen), show_model(model));

    let mut names = vec![];
    for k in map.keys() {
        let (name, presented_bin) = match k {
            KeyRef::Ascii(k) => (k.as_str().to_string(), false),
            KeyRef::Binary(k) => (k.as_str().to_string(), true),
        };
        ensure!(presented_bin == is_bin_name(&name), SIG_CROSS, "keys() presents the name {name:?} as {}", if presented_bin { "KeyRef::Binary" } else { "KeyRef::Ascii" });
        names.push(name);
    }
    names.sort();
    let want_names: Vec<String> = want.iter().map(|x| x.0.clone()).collect();
    ensure!(names == want_names, "C08/keys-differ-from-model", "keys() yields {names:?}, model {want_names:?}");

    let mut vals: Vec<(bool, Raw)> = map
        .values()
        .map(|v| match v {
            ValueRef::Ascii(v) => (false, v.raw_of()),
            ValueRef::Binary(v) => (true, v.raw_of()),
        })
        .collect();
    let mut kinds_sorted = kinds.clone();
    kinds_sorted.sort();
    vals.sort();
    ensure!(vals == kinds_sorted, if vals.iter().map(|v| v.0).eq(kinds_sorted.iter().map(|v| v.0)) { "C08/values-differ-from-iter" } else { SIG_CROSS }, "values() yields (kind, value) {:?}, iter() {:?}", vals, kinds_sorted);

    // mutable views classify the same way (no mutation performed)
    let mut kinds_mut: Vec<(bool, Raw)> = vec![];
    for kv in map.iter_mut() {
        let (name, presented_bin, raw) = match kv {
            KeyAndMutValueRef::Ascii(k, v) => (k.as_str().to_string(), false, v.raw_of()),
            KeyAndMutValueRef::Binary(k, v) => (k.as_str().to_string(), true, v.raw_of()),
        };
        ensure!(presented_bin == is_bin_name(&name), SIG_CROSS, "iter_mut() presents the entry stored under {name:?} as {}", if presented_bin { "Binary" } else { "Ascii" });
        kinds_mut.push((presented_bin, raw));
    }
    ensure!(kinds_mut == kinds, "C08/iter-mut-differs-from-iter", "iter_mut() and iter() disagree");
    let mut vm: Vec<(bool, Raw)> = map
        .values_mut()
        .map(|v| match v {
            ValueRefMut::Ascii(v) => (false, v.raw_of()),
            ValueRefMut::Binary(v) => (true, v.raw_of()),
        })
        .collect();
    vm.sort();
    ensure!(vm == kinds_sorted, if vm.iter().map(|v| v.0).eq(kinds_sorted.iter().map(|v| v.0)) { "C08/values-differ-from-iter" } else { SIG_CROSS }, "values_mut() yields {:?}, iter() {:?}", vm, kinds_sorted);

    // the underlying headers (what goes on the wire) decode independently to the model
    let hm = map.clone().into_headers();
    let mut wire_model = Model::default();
    for (k, v) in hm.iter() {
        let raw = if is_bin_name(k.as_str()) {
            match wire::b64_decode(v.as_bytes()) {
                Some(d) => d,
                None => bail!("C08/binary-not-base64-of-bytes", "into_headers(): {:?} carries {:?}, which is not base64", k.as_str(), String::from_utf8_lossy(v.as_bytes())),
            }
        } else {
            v.as_bytes().to_vec()
        };
        wire_model.append(k.as_str(), raw);
    }
    ensure!(wire_model.sorted() == want, "C08/headers-differ-from-model", "into_headers() denotes {:?}, model {:?}", show_model(&wire_model), show_model(model));

    // ---- keyed lookups, both kinds of accessor, every key form and spelling
    for n in universe {
        let vals = model.get(n);
        for c in KCASES {
            let ks = vary(n, c);
            if c != KCase::Lower && ks == *n {
                continue;
            }
            for f in KFORMS {
                if typed(f) && !matches!(c, KCase::Lower | KCase::Upper) {
                    continue;
                }
                for acc_bin in [false, true] {
                    let mut look = Look { n, ks: &ks, f, acc_bin, vals, what: "get" };
                    let (g, gm, ga, ck) = if acc_bin {
                        (bin::get(map, &ks, f), bin::get_mut(map, &ks, f), bin::get_all(map, &ks, f), bin::contains(map, &ks, f))
                    } else {
                        (asc::get(map, &ks, f), asc::get_mut(map, &ks, f), asc::get_all(map, &ks, f), asc::contains(map, &ks, f))
                    };
                    look.what = if acc_bin { "get_bin" } else { "get" };
                    look.judge_first(&g, ctx)?;
                    look.what = if acc_bin { "get_bin_mut" } else { "get_mut" };
                    look.judge_first(&gm, ctx)?;
                    look.what = if acc_bin { "get_all_bin" } else { "get_all" };
                    look.judge_all(&ga, ctx)?;
                    look.what = "contains_key";
                    match ck {
                        Got::KeyRejected => ensure!(!look.same_kind(), "C08/valid-key-rejected", "{}: key refused", look.desc()),
                        Got::Val(b) => {
                            ensure!(!(typed(f) && !look.same_kind()), "C08/key-kind-check", "{}: a typed key of the wrong kind could be constructed", look.desc());
                            if look.exact() {
                                ensure!(b == vals.is_some(), "C08/contains-key", "{} = {b}", look.desc());
                            } else {
                                ensure!(!b || vals.is_some(), "C08/contains-key", "{} = true", look.desc());
                            }
                        }
                    }
                }
            }
        }
        // typed keys exist only for their own kind
        let as_ascii = MetadataKey::<Ascii>::from_bytes(n.as_bytes()).is_ok();
        let as_bin = MetadataKey::<Binary>::from_bytes(n.as_bytes()).is_ok();
        ensure!(as_ascii != is_bin_name(n) && as_bin == is_bin_name(n), "C08/key-kind-check", "name {n:?}: MetadataKey::<Ascii>::from_bytes ok = {as_ascii}, MetadataKey::<Binary>::from_bytes ok = {as_bin}");
    }
    Ok(())
}

fn show_model(m: &Model) -> Vec<(String, Vec<String>)> {
    m.sorted().into_iter().map(|(n, vs)| (n, vs.iter().map(|v| hex(v)).collect())).collect()
}

fn run_api(names: &[u8], ops: &[Op], o: &mut Outcome) -> Result<(), Failure> {
    let names: Vec<&'static str> = if names.is_empty() { vec![API_NAMES[0]] } else { names.iter().map(|i| API_NAMES[*i as usize % API_NAMES.len()]).collect() };
    let name_of = |n: u8| -> &'static str { names[n as usize % names.len()] };
    let mut universe: Vec<&'static str> = names.clone();
    universe.sort();
    universe.dedup();
    let mut map = MetadataMap::new();
    let mut model = Model::default();
    let mut ctx = Ctx::default();
    o.label("api_history");
    check_reads(&mut map, &model, &universe, &mut ctx)?;
    for (step, op) in ops.iter().enumerate() {
        let r: Result<Applied, Failure> = (|| {
            match op {
                Op::Insert { n, v, f, pad } | Op::Append { n, v, f, pad } => {
                    let n = name_of(*n);
                    let raw = unhex(v);
                    let is_insert = matches!(op, Op::Insert { .. });
                    o.label_if(wire::RESERVED_METADATA.contains(&n), "api_reserved_name");
                    if is_bin_name(n) {
                        check_binary_value_forms(&raw, o)?;
                        o.label(match raw.len() % 3 {
                            0 => "bin_len_mod3_0",
                            1 => "bin_len_mod3_1",
                            _ => "bin_len_mod3_2",
                        });
                        o.label_if(*pad && raw.len() % 3 != 0, "bin_value_from_padded_text");
                        if raw.len() % 3 != 0 {
                            o.nontrivial = true;
                        }
                        let (val, stored) = bin::mk(&raw, *pad)?;
                        if is_insert {
                            let old = bin::insert(&mut map, n, *f, val)?;
                            let want = model.insert(n, stored);
                            judge_old(&old, &want, "insert_bin", n)?;
                        } else {
                            let had = bin::append(&mut map, n, *f, val)?;
                            let want = model.append(n, stored);
                            ensure!(had == want, "C08/append-return", "append_bin({n:?}) returned {had}, the name was {}present", if want { "" } else { "not " });
                            if want {
                                o.nontrivial = true;
                                o.label("repeated_key");
                            }
                        }
                    } else {
                        let (val, stored) = asc::mk(&raw, *pad)?;
                        if is_insert {
                            let old = asc::insert(&mut map, n, *f, val)?;
                            let want = model.insert(n, stored);
                            judge_old(&old, &want, "insert", n)?;
                        } else {
                            let had = asc::append(&mut map, n, *f, val)?;
                            let want = model.append(n, stored);
                            ensure!(had == want, "C08/append-return", "append({n:?}) returned {had}, the name was {}present", if want { "" } else { "not " });
                            if want {
                                o.nontrivial = true;
                                o.label("repeated_key");
                            }
                        }
                    }
                    Ok(Applied::None)
                }
                Op::Remove { n, f, c, cross } | Op::SetFirst { n, f, c, cross, .. } => {
                    let n = name_of(*n);
                    let ks = vary(n, *c);
                    let acc_bin = is_bin_name(n) != *cross;
                    o.label_if(*cross, "cross_kind_accessor");
                    o.label_if(ks != n, "mixed_case_key");
                    let (what, got, newval): (&'static str, Got<Option<Raw>>, Option<Vec<u8>>) = match op {
                        Op::Remove { .. } => {
                            if acc_bin {
                                ("remove_bin", bin::remove(&mut map, &ks, *f), None)
                            } else {
                                ("remove", asc::remove(&mut map, &ks, *f), None)
                            }
                        }
                        Op::SetFirst { v, pad, .. } => {
                            let raw = unhex(v);
                            if acc_bin {
                                let (val, stored) = bin::mk(&raw, *pad)?;
                                ("*get_bin_mut = v", bin::set_first(&mut map, &ks, *f, val), Some(stored))
                            } else {
                                let (val, stored) = asc::mk(&raw, *pad)?;
                                ("*get_mut = v", asc::set_first(&mut map, &ks, *f, val), Some(stored))
                            }
                        }
                        _ => unreachable!(),
                    };
                    let look = Look { n, ks: &ks, f: *f, acc_bin, vals: model.get(n), what };
                    let before = ctx.deferred.is_some();
                    look.judge_first(&got, &mut ctx)?;
                    let acted = matches!(&got, Got::Val(Some(_)));
                    if !look.same_kind() {
                        // judged above: either nothing found, or a parked crossing that altered the map
                        let _ = before;
                        return Ok(if acted { Applied::Diverged } else { Applied::None });
                    }
                    if acted {
                        match newval {
                            None => {
                                model.remove(n);
                            }
                            Some(nv) => {
                                if let Some(vs) = model.get_mut(n) {
                                    vs[0] = nv;
                                }
                            }
                        }
                    }
                    Ok(Applied::None)
                }
                Op::Entry { n, f, c, cross, op, v, pad } => {
                    let n = name_of(*n);
                    let ks = vary(n, *c);
                    let acc_bin = is_bin_name(n) != *cross;
                    o.label_if(*cross, "cross_kind_accessor");
                    o.label_if(ks != n, "mixed_case_key");
                    o.label("entry_api");
                    let raw = unhex(v);
                    let had = model.get(n).map(|v| v.len()).unwrap_or(0);
                    let r = if acc_bin { bin::entry_op(&mut map, &mut model, n, &ks, *f, *op, &raw, *pad, &mut ctx) } else { asc::entry_op(&mut map, &mut model, n, &ks, *f, *op, &raw, *pad, &mut ctx) };
                    let now = model.get(n).map(|v| v.len()).unwrap_or(0);
                    if now >= 2 && now > had {
                        o.nontrivial = true;
                        o.label("repeated_key");
                    }
                    if acc_bin && is_bin_name(n) && raw.len() % 3 != 0 && now > 0 && !matches!(op, EOp::Remove | EOp::RemoveEntry | EOp::RemoveEntryMult | EOp::Peek) {
                        o.nontrivial = true;
                    }
                    r
                }
                Op::Clear => {
                    map.clear();
                    model = Model::default();
                    Ok(Applied::None)
                }
                Op::RoundTrip => {
                    let h = std::mem::take(&mut map).into_headers();
                    map = MetadataMap::from_headers(h);
                    Ok(Applied::None)
                }
            }
        })();
        let applied = r.map_err(|mut f| {
            f.detail = format!("step {step} ({op:?}): {}", f.detail);
            f
        })?;
        if matches!(applied, Applied::Diverged) {
            // a parked (already classified) defect changed the map behind the model's back
            o.label("history_cut_by_parked_defect");
            break;
        }
        check_reads(&mut map, &model, &universe, &mut ctx).map_err(|mut f| {
            f.detail = format!("after step {step} ({op:?}): {}", f.detail);
            f
        })?;
    }
    o.label_if(model.0.iter().any(|x| is_bin_name(&x.0)) && model.0.iter().any(|x| !is_bin_name(&x.0)), "ascii_and_binary_names_together");
    ctx.finish()
}

fn judge_old(old: &Option<Raw>, want: &Option<Vec<Vec<u8>>>, what: &str, n: &str) -> Result<(), Failure> {
    match (old, want) {
        (None, None) => Ok(()),
        (Some(Ok(g)), Some(w)) => {
            ensure!(*g == w[0], "C08/insert-return", "{what}({n:?}) returned {}, the first replaced value was {}", hex(g), hex(&w[0]));
            Ok(())
        }
        (Some(Err(e)), Some(_)) => bail!("C08/binary-value-not-restored", "{what}({n:?}) returned a value whose {e}"),
        (g, w) => bail!("C08/insert-return", "{what}({n:?}) returned {:?}, the model held {:?}", g.as_ref().map(show_raw), w.as_ref().map(|v| v.len())),
    }
}

// =====================================================================================================
// (b) sending side
// =====================================================================================================

fn wire_labels(es: &[MdEntry], o: &mut Outcome) {
    let (bin_mod3, repeated, reserved) = md::label_md(es);
    o.label_if(bin_mod3, "bin_len_mod3_nonzero");
    o.label_if(repeated, "repeated_key");
    o.label_if(reserved, "reserved_name_present");
    o.label_if(es.iter().any(|e| e.is_bin()) && es.iter().any(|e| !e.is_bin()), "ascii_and_binary_names_together");
    if bin_mod3 || repeated || reserved {
        o.nontrivial = true;
    }
}

/// Every non-reserved user entry is in `out` under its name with the same ordered values; no value
/// the user attached under a reserved name is in `out` under that name.
fn check_sent(out: &HeaderMap, user: &[MdEntry], place: &str, o: &mut Outcome) -> Result<(), Failure> {
    for (name, vals) in md::multimap(user) {
        let got: Vec<Vec<u8>> = out.get_all(name.as_str()).iter().map(|v| v.as_bytes().to_vec()).collect();
        if wire::RESERVED_METADATA.contains(&name.as_str()) {
            for g in &got {
                ensure!(!vals.contains(g), format!("C08/reserved-name-forged/{place}/{name}"), "{place}: {name}: {:?} comes from the user's metadata", String::from_utf8_lossy(g));
            }
            continue;
        }
        ensure!(got.len() == vals.len(), if got.len() < vals.len() { format!("C08/sent-values-lost/{place}") } else { format!("C08/sent-values-extra/{place}") }, "{place}: {name:?} carries {} value(s) {:?}, the user attached {}", got.len(), got.iter().map(|g| String::from_utf8_lossy(g).to_string()).collect::<Vec<_>>(), vals.len());
        for (i, (g, v)) in got.iter().zip(vals.iter()).enumerate() {
            if is_bin_name(&name) {
                let d = wire::b64_decode(g);
                ensure!(d.as_ref() == Some(v), format!("C08/sent-binary-not-base64-of-bytes/{place}"), "{place}: {name:?} value {i}: wire text {:?} decodes to {:?}, the user attached {} (len mod 3 = {})", String::from_utf8_lossy(g), d.map(|d| hex(&d)), hex(v), v.len() % 3);
                if v.len() % 3 != 0 {
                    o.label(if g.contains(&b'=') { "wire_base64_padded" } else { "wire_base64_unpadded" });
                }
            } else {
                ensure!(g == v, format!("C08/sent-value-altered/{place}"), "{place}: {name:?} value {i} is {:?}, the user attached {:?}", String::from_utf8_lossy(g), String::from_utf8_lossy(v));
            }
        }
    }
    Ok(())
}

fn exactly(out: &HeaderMap, name: &str, want: &[u8], place: &str) -> Result<(), Failure> {
    let got: Vec<&[u8]> = out.get_all(name).iter().map(|v| v.as_bytes()).collect();
    ensure!(got == vec![want], format!("C08/protocol-header/{place}/{name}"), "{place}: {name} is {:?}, the protocol requires exactly {:?}", got.iter().map(|g| String::from_utf8_lossy(g).to_string()).collect::<Vec<_>>(), String::from_utf8_lossy(want));
    Ok(())
}

/// Body with `Default` so that `InterceptedService` accepts the mock transport.
pub struct DefBody(Option<ScriptBody>);
impl Default for DefBody {
    fn default() -> Self {
        DefBody(None)
    }
}
impl http_body::Body for DefBody {
    type Data = Bytes;
    type Error = Status;
    fn poll_frame(mut self: Pin<&mut Self>, cx: &mut Context<'_>) -> Poll<Option<Result<http_body::Frame<Bytes>, Status>>> {
        match self.0.as_mut() {
            Some(b) => Pin::new(b).poll_frame(cx),
            None => Poll::Ready(None),
        }
    }
}
#[derive(Clone)]
pub struct DefChannel(pub MockChannel);
impl tower_service::Service<http::Request<tonic::body::Body>> for DefChannel {
    type Response = http::Response<DefBody>;
    type Error = Status;
    type Future = Pin<Box<dyn Future<Output = Result<Self::Response, Self::Error>> + Send>>;
    fn poll_ready(&mut self, cx: &mut Context<'_>) -> Poll<Result<(), Self::Error>> {
        self.0.poll_ready(cx)
    }
    fn call(&mut self, req: http::Request<tonic::body::Body>) -> Self::Future {
        let fut = self.0.call(req);
        Box::pin(async move { fut.await.map(|r| r.map(|b| DefBody(Some(b)))) })
    }
}

fn with_md<T>(msg: T, mdv: &[MdEntry]) -> Request<T> {
    let mut r = Request::new(msg);
    *r.metadata_mut() = md::build_map(mdv);
    r
}

/// What a client call observed, reduced to the metadata-bearing parts.
#[derive(Default)]
struct ClientSaw {
    call_err: Option<Status>,
    initial: Option<MetadataMap>,
    msgs: usize,
    stream_err: Option<Status>,
    trailers: Option<MetadataMap>,
    trailers_err: Option<Status>,
}

macro_rules! client_call {
    ($client:expr, $shape:expr, $md:expr) => {{
        let mut client = $client;
        let shape: Shape = $shape;
        let mdv: &[MdEntry] = $md;
        async move {
            let mut saw = ClientSaw::default();
            match shape {
                Shape::Unary | Shape::ClientStream => {
                    let r = if shape == Shape::Unary { client.unary(with_md(b"q".to_vec(), mdv)).await } else { client.client_stream(with_md(tokio_stream::iter(vec![b"q".to_vec()]), mdv)).await };
                    match r {
                        Ok(resp) => {
                            saw.initial = Some(resp.metadata().clone());
                            saw.msgs = 1;
                        }
                        Err(s) => saw.call_err = Some(s),
                    }
                }
                Shape::ServerStream | Shape::Bidi => {
                    let r: Result<Response<Streaming<Vec<u8>>>, Status> = if shape == Shape::ServerStream { client.server_stream(with_md(b"q".to_vec(), mdv)).await } else { client.bidi(with_md(tokio_stream::iter(vec![b"q".to_vec()]), mdv)).await };
                    match r {
                        Err(s) => saw.call_err = Some(s),
                        Ok(resp) => {
                            saw.initial = Some(resp.metadata().clone());
                            let mut st = resp.into_inner();
                            loop {
                                match st.message().await {
                                    Ok(Some(_)) => saw.msgs += 1,
                                    Ok(None) => break,
                                    Err(s) => {
                                        saw.stream_err = Some(s);
                                        break;
                                    }
                                }
                            }
                            if saw.stream_err.is_none() {
                                match st.trailers().await {
                                    Ok(t) => saw.trailers = t,
                                    Err(s) => saw.trailers_err = Some(s),
                                }
                            }
                        }
                    }
                }
            }
            saw
        }
    }};
}

fn grpc_headers() -> HeaderMap {
    let mut h = HeaderMap::new();
    h.insert("content-type", HeaderValue::from_static("application/grpc"));
    h
}

fn run_send_client(shape: Shape, mdv: &[MdEntry], icpt: bool, o: &mut Outcome) -> Result<(), Failure> {
    o.label("send_client_request");
    o.label(shape.label());
    o.label_if(icpt, "via_interceptor");
    wire_labels(mdv, o);
    let ch = MockChannel::new(|_rec| Reply { status: 200, headers: grpc_headers(), steps: vec![BodyStep::Data(Bytes::from(wire::frame(0, b"r"))), BodyStep::Trailers(ok_trailers())] });
    let log = ch.log.clone();
    let mut expect: Vec<MdEntry> = mdv.to_vec();
    let saw = if icpt {
        let added_ascii = MdEntry { name: "x-icpt".into(), val: hex(b"tok en") };
        let added_bin = MdEntry { name: "x-icpt-bin".into(), val: hex(&[0xfb, 0xff, 0x00, 0x01]) };
        expect.push(added_ascii);
        expect.push(added_bin);
        let f = |mut req: Request<()>| -> Result<Request<()>, Status> {
            req.metadata_mut().append("x-icpt", MetadataValue::try_from("tok en").unwrap());
            req.metadata_mut().append_bin("x-icpt-bin", MetadataValue::from_bytes(&[0xfb, 0xff, 0x00, 0x01]));
            Ok(req)
        };
        let client = vt::raw_client::RawClient::with_interceptor(DefChannel(ch), f);
        block_on_budget(512, client_call!(client, shape, mdv))
    } else {
        let client = vt::raw_client::RawClient::new(ch);
        block_on_budget(512, client_call!(client, shape, mdv))
    };
    let saw = match saw {
        Ok(s) => s,
        Err(_) => bail!("C08/call-stuck", "client call over the mock transport did not complete"),
    };
    if let Some(s) = &saw.call_err {
        bail!("C08/call-failed", "client call failed although the transport answered OK: {s:?}");
    }
    let l = log.lock().unwrap();
    ensure!(l.len() == 1, "C08/call-failed", "transport saw {} requests", l.len());
    let h = &l[0].headers;
    check_sent(h, &expect, "request", o)?;
    exactly(h, "te", b"trailers", "request")?;
    exactly(h, "content-type", b"application/grpc", "request")?;
    for t in &l[0].trailers {
        // a request has no trailers; if a body ever produced some, user values must not be there either
        check_sent(t, &mdv.iter().filter(|e| e.is_reserved()).cloned().collect::<Vec<_>>(), "request-trailers", o)?;
    }
    Ok(())
}

/// The whole client stack (generated client, optional interceptor, Channel with its user-agent / origin layers,
/// hyper) against a real tonic server over the in-memory pipe; the handler's view of the request metadata.
fn run_over_channel(forge: bool, ua: bool, ints: &[i64], shared: &[u8], rt_seed: u64, o: &mut Outcome) -> Result<(), Failure> {
    use crate::infra::net::Net;
    use crate::infra::rt;
    use std::time::Duration;
    o.label("over_a_real_channel");
    o.label_if(forge, "interceptor_sets_user_agent");
    o.label_if(ua, "endpoint_user_agent_configured");
    o.label_if(ints.contains(&0), "ascii_value_from_integer_zero");
    o.label_if(!shared.is_empty() && wire::b64_decode(shared).is_some(), "binary_payload_that_looks_like_base64");
    o.nontrivial = forge || !ints.is_empty() || !shared.is_empty();
    let sh = Shared::new(vec![HandlerScript { msgs: vec![RespMsg { data: crate::infra::blob::Blob::of(b"r"), pend: 0, delay_ms: 0 }], ..Default::default() }]);
    let (net, incoming) = Net::new(vec![]);
    let sh2 = sh.clone();
    let (ints2, shared2) = (ints.to_vec(), shared.to_vec());
    let res = rt::run_virtual(rt_seed, Duration::from_secs(3600), async move {
        let router = tonic::transport::Server::builder().add_service(vt::raw_server::RawServer::new(sh2));
        let srv = tokio::spawn(async move { router.serve_with_incoming(incoming).await });
        let mut ep = tonic::transport::Endpoint::from_static("http://pipe.test");
        if ua {
            ep = ep.user_agent("my-app/1.2").map_err(|e| format!("user_agent: {e:?}"))?;
        }
        let ch = ep.connect_with_connector(net.connector()).await.map_err(|e| format!("connect: {e:?}"))?;
        let mut req = Request::new(b"q".to_vec());
        for i in &ints2 {
            // ASCII values built from numbers (From<integer>), repeated under one key
            req.metadata_mut().append("x-num", MetadataValue::from(*i));
        }
        // a binary value built from a shared buffer (TryFrom<Bytes>): the buffer is the payload, whatever it looks like
        let v: MetadataValue<Binary> = MetadataValue::try_from(Bytes::from(shared2.clone())).map_err(|e| format!("try_from(Bytes): {e:?}"))?;
        req.metadata_mut().insert_bin("x-shared-bin", v);
        let r = if forge {
            let f = |mut req: Request<()>| -> Result<Request<()>, Status> {
                req.metadata_mut().insert("user-agent", MetadataValue::from_static("forged-agent/6.6"));
                Ok(req)
            };
            vt::raw_client::RawClient::with_interceptor(ch, f).unary(req).await
        } else {
            vt::raw_client::RawClient::new(ch).unary(req).await
        };
        rt::quiesce().await;
        srv.abort();
        r.map(|_| ()).map_err(|s| format!("call: {s:?}"))
    });
    match res {
        Err(_) => bail!("C08/call-stuck", "call over the in-memory channel did not finish"),
        Ok(Err(e)) => bail!("C08/call-failed", "{e}"),
        Ok(Ok(())) => {}
    }
    let log = sh.log.lock().unwrap();
    ensure!(log.len() == 1, "C08/call-failed", "handler ran {} times", log.len());
    let h = &log[0].metadata;
    // ---- user-agent is tonic's own (optionally prefixed by Endpoint::user_agent), whatever an interceptor put there
    let uas: Vec<String> = h.get_all("user-agent").iter().map(|v| String::from_utf8_lossy(v.as_bytes()).to_string()).collect();
    ensure!(uas.len() == 1, "C08/protocol-header/request/user-agent", "handler saw user-agent values {uas:?}");
    ensure!(!uas[0].contains("forged-agent"), "C08/reserved-name-forged/user-agent", "a user-agent entry set by a client interceptor reached the server: {:?}", uas[0]);
    ensure!(uas[0].contains("tonic/"), "C08/protocol-header/request/user-agent", "user-agent {:?} lacks tonic's product token", uas[0]);
    ensure!(!ua || uas[0].starts_with("my-app/1.2"), "C08/protocol-header/request/user-agent", "Endpoint::user_agent(\"my-app/1.2\") but the server saw {:?}", uas[0]);
    // ---- numbers arrive as their decimal text, in order
    let nums: Vec<String> = h.get_all("x-num").iter().map(|v| String::from_utf8_lossy(v.as_bytes()).to_string()).collect();
    let want: Vec<String> = ints.iter().map(|i| i.to_string()).collect();
    ensure!(nums == want, "C08/sent-value-altered/request/from-integer", "MetadataValue::from(integers {ints:?}) arrived as {nums:?}");
    // ---- the shared buffer arrives as the same bytes
    let got: Vec<Option<Vec<u8>>> = h.get_all("x-shared-bin").iter().map(|v| wire::b64_decode(v.as_bytes())).collect();
    ensure!(got == vec![Some(shared.to_vec())], "C08/sent-binary-altered/request/from-shared-buffer", "binary value built from the buffer {} arrived as {:?}", hex(shared), h.get_all("x-shared-bin").iter().collect::<Vec<_>>());
    Ok(())
}

fn run_send_server(shape: Shape, initial: &[MdEntry], status: &Option<(u8, Vec<MdEntry>)>, stream_item: bool, o: &mut Outcome) -> Result<(), Failure> {
    o.label("send_server_response");
    o.label(shape.label());
    wire_labels(initial, o);
    if let Some((_, m)) = status {
        wire_labels(m, o);
    }
    let message = "went wrong: 100% \u{e9}";
    let script = HandlerScript {
        initial_md: initial.to_vec(),
        msgs: vec![RespMsg { data: crate::infra::blob::Blob::of(b"r"), pend: 0, delay_ms: 0 }],
        outcome: status.as_ref().map(|(code, m)| StatusSpec { code: *code as i32, message: message.into(), details: crate::infra::blob::Blob::of(&[]), md: m.clone() }),
        err_kind: status.as_ref().map(|_| if stream_item { ErrKind::StreamItem } else { ErrKind::Handler }),
        ..Default::default()
    };
    let sh = Shared::new(vec![script]);
    let mut svc = vt::raw_server::RawServer::new(sh.clone());
    let body = ScriptBody::new(vec![BodyStep::Data(Bytes::from(wire::frame(0, b"q")))]);
    let ans = mock::call_service(&mut svc, mock::grpc_request(shape.path(), &[], body), 512).map_err(|e| Failure { sig: "C08/call-failed".into(), detail: e })?;
    ensure!(sh.log.lock().unwrap().len() == 1, "C08/call-failed", "handler ran {} times", sh.log.lock().unwrap().len());
    ensure!(ans.body_error.is_none(), "C08/call-failed", "response body failed: {:?}", ans.body_error);
    let handler_err = status.is_some() && (!shape.streaming_resp() || !stream_item);
    exactly(&ans.headers, "content-type", b"application/grpc", "response-headers")?;
    if handler_err {
        o.label("status_trailers_only");
        let (code, smd) = status.as_ref().unwrap();
        // everything is in the headers (trailers-only) or in a single trailers block
        let mut all = ans.headers.clone();
        for t in &ans.trailers {
            for (k, v) in t.iter() {
                all.append(k.clone(), v.clone());
            }
        }
        check_sent(&all, smd, "trailers-only", o)?;
        exactly(&all, "grpc-status", code.to_string().as_bytes(), "trailers-only")?;
        let gm: Vec<Vec<u8>> = all.get_all("grpc-message").iter().map(|v| wire::percent_decode(v.as_bytes())).collect();
        ensure!(gm == vec![message.as_bytes().to_vec()], "C08/protocol-header/trailers-only/grpc-message", "grpc-message decodes to {:?}", gm.iter().map(|g| String::from_utf8_lossy(g).to_string()).collect::<Vec<_>>());
    } else {
        check_sent(&ans.headers, initial, "response-headers", o)?;
        ensure!(ans.headers.get("grpc-status").is_none(), "C08/protocol-header/response-headers/grpc-status", "a response with a body carries grpc-status {:?} in its headers", ans.headers.get("grpc-status"));
        ensure!(ans.trailers.len() == 1, "C08/call-failed", "{} trailers blocks", ans.trailers.len());
        let t = &ans.trailers[0];
        match status {
            Some((code, smd)) => {
                o.label("status_in_trailers_after_headers");
                check_sent(t, smd, "trailers", o)?;
                exactly(t, "grpc-status", code.to_string().as_bytes(), "trailers")?;
            }
            None => exactly(t, "grpc-status", b"0", "trailers")?,
        }
        // nothing the handler attached under a reserved name shows up in the trailers either
        check_sent(t, &initial.iter().filter(|e| e.is_reserved()).cloned().collect::<Vec<_>>(), "trailers", o)?;
    }
    Ok(())
}

// =====================================================================================================
// (c) receiving side
// =====================================================================================================

fn recv_labels(es: &[WEnt], o: &mut Outcome) {
    let as_md: Vec<MdEntry> = es.iter().map(|e| MdEntry { name: e.name.clone(), val: e.val.clone() }).collect();
    let (bin_mod3, repeated, _) = md::label_md(&as_md);
    o.label_if(bin_mod3, "bin_len_mod3_nonzero");
    o.label_if(repeated, "repeated_key");
    o.label_if(es.iter().any(|e| e.is_bin() && e.pad && unhex(&e.val).len() % 3 != 0), "peer_pads_base64");
    o.label_if(es.iter().any(|e| e.is_bin() && !e.pad && unhex(&e.val).len() % 3 != 0), "peer_does_not_pad_base64");
    if bin_mod3 || repeated {
        o.nontrivial = true;
    }
}

fn to_header_map(base: HeaderMap, es: &[WEnt]) -> HeaderMap {
    let mut h = base;
    for e in es {
        h.append(HeaderName::from_bytes(e.name.as_bytes()).expect("generated names are valid"), HeaderValue::from_bytes(&e.wire_value()).expect("generated values are legal"));
    }
    h
}

fn multimap_w(es: &[WEnt]) -> Vec<(String, Vec<Vec<u8>>)> {
    let mut out: Vec<(String, Vec<Vec<u8>>)> = vec![];
    for e in es {
        let v = unhex(&e.val);
        match out.iter_mut().find(|x| x.0 == e.name) {
            Some(x) => x.1.push(v),
            None => out.push((e.name.clone(), vec![v])),
        }
    }
    out
}

/// Typed accessors of a received map give back every entry of `sent`. Names also present in
/// `other` (a second block merged into the same map) are judged by containment and reported under
/// their own signature.
fn check_received(map: &MetadataMap, sent: &[WEnt], other: &[WEnt], place: &str, ctx: &mut Ctx) -> Result<(), Failure> {
    for (name, vals) in multimap_w(sent) {
        let shared = other.iter().any(|e| e.name == name);
        let ks = name.clone();
        let (got, wrong): (Vec<Raw>, usize) = if is_bin_name(&name) {
            (map.get_all_bin(ks.as_str()).iter().map(|v| v.raw_of()).collect(), map.get_all(ks.as_str()).iter().count() + map.get(ks.as_str()).is_some() as usize)
        } else {
            (map.get_all(ks.as_str()).iter().map(|v| v.raw_of()).collect(), map.get_all_bin(ks.as_str()).iter().count() + map.get_bin(ks.as_str()).is_some() as usize)
        };
        ensure!(wrong == 0, SIG_CROSS, "{place}: the accessors of the other kind find {name:?}");
        for (i, g) in got.iter().enumerate() {
            if let Err(e) = g {
                bail!(format!("C08/received-binary-not-restored/{place}"), "{place}: {name:?} value {i}: {e}");
            }
        }
        let got: Vec<Vec<u8>> = got.into_iter().map(|g| g.unwrap()).collect();
        if shared {
            // both blocks' values must be there, each in its own order
            let mut it = got.iter();
            let all_there = vals.iter().all(|v| it.any(|g| g == v));
            // A name sent in BOTH the headers and the trailers of one unary response is folded into the
            // single map tonic's unary API offers, with replace semantics. A tonic handler cannot
            // attach trailing metadata to a successful unary response, so this is outside the
            // statement ("every entry a caller or handler attaches"); it is only observed, not judged.
            let _ = all_there;
            let _ = SIG_MERGE;
            continue;
        }
        ensure!(got.len() == vals.len(), if got.len() < vals.len() { format!("C08/received-values-lost/{place}") } else { format!("C08/received-values-extra/{place}") }, "{place}: {name:?} yields {} value(s), the peer sent {}", got.len(), vals.len());
        for (i, (g, v)) in got.iter().zip(vals.iter()).enumerate() {
            ensure!(g == v, if is_bin_name(&name) { format!("C08/received-binary-not-restored/{place}") } else { format!("C08/received-value-altered/{place}") }, "{place}: {name:?} value {i} is {}, the peer sent {} (len mod 3 = {})", hex(g), hex(v), v.len() % 3);
        }
        // first-value accessors
        let first: Option<Raw> = if is_bin_name(&name) { map.get_bin(ks.as_str()).map(|v| v.raw_of()) } else { map.get(ks.as_str()).map(|v| v.raw_of()) };
        ensure!(first == Some(Ok(vals[0].clone())), format!("C08/received-values-lost/{place}"), "{place}: get({name:?}) is {:?}", first.as_ref().map(show_raw));
    }
    // the iterator classifies by the stored name
    for kv in map.iter() {
        let (n, presented_bin) = match kv {
            KeyAndValueRef::Ascii(k, _) => (k.as_str(), false),
            KeyAndValueRef::Binary(k, _) => (k.as_str(), true),
        };
        ensure!(presented_bin == is_bin_name(n), SIG_CROSS, "{place}: iter() presents {n:?} as {}", if presented_bin { "Binary" } else { "Ascii" });
    }
    Ok(())
}

fn run_recv_client(shape: Shape, headers: &[WEnt], trailers: &[WEnt], outcome: &RecvOutcome, o: &mut Outcome) -> Result<(), Failure> {
    o.label("recv_client_response");
    o.label(shape.label());
    recv_labels(headers, o);
    if !matches!(outcome, RecvOutcome::TrailersOnly { .. }) {
        recv_labels(trailers, o);
    }
    let message = "peer says no";
    let mut hdrs = to_header_map(grpc_headers(), headers);
    let mut steps = vec![];
    match outcome {
        RecvOutcome::Ok => {
            steps.push(BodyStep::Data(Bytes::from(wire::frame(0, b"r"))));
            steps.push(BodyStep::Trailers(to_header_map(ok_trailers(), trailers)));
        }
        RecvOutcome::ErrTrailers { code, with_msg } => {
            if *with_msg {
                steps.push(BodyStep::Data(Bytes::from(wire::frame(0, b"r"))));
            }
            let mut t = HeaderMap::new();
            t.insert("grpc-status", HeaderValue::from_str(&code.to_string()).unwrap());
            t.insert("grpc-message", HeaderValue::from_static("peer%20says%20no"));
            t.insert("grpc-status-details-bin", HeaderValue::from_static("ZGV0YWlscyE"));
            steps.push(BodyStep::Trailers(to_header_map(t, trailers)));
        }
        RecvOutcome::TrailersOnly { code } => {
            hdrs.insert("grpc-status", HeaderValue::from_str(&code.to_string()).unwrap());
            hdrs.insert("grpc-message", HeaderValue::from_static("peer%20says%20no"));
            hdrs.insert("grpc-status-details-bin", HeaderValue::from_static("ZGV0YWlscyE"));
        }
    }
    let reply = Reply { status: 200, headers: hdrs, steps };
    let ch = MockChannel::new(move |_rec| reply.clone());
    let client = vt::raw_client::RawClient::new(ch);
    let saw = match block_on_budget(512, client_call!(client, shape, &[])) {
        Ok(s) => s,
        Err(_) => bail!("C08/call-stuck", "client call over the mock transport did not complete"),
    };
    let mut ctx = Ctx::default();
    let merged = !shape.streaming_resp();
    let check_status = |s: &Status, code: u8, place: &str| -> Result<(), Failure> {
        ensure!(s.code() == Code::from_i32(code as i32) && s.message() == message, "C08/call-failed", "{place}: status is {:?} {:?}, the peer sent code {code} {message:?}", s.code(), s.message());
        // the rest of the status travels with its metadata (C02: code, message *and details*)
        ensure!(code == 0 || s.details() == b"details!", "C08/status-details-lost", "{place}: the peer sent details \"details!\" with the status, the caller's Status has {:?}", String::from_utf8_lossy(s.details()));
        Ok(())
    };
    match outcome {
        RecvOutcome::TrailersOnly { code: 0 } => {
            o.label("recv_trailers_only_success");
            if merged {
                // a unary call without a message is an error of its own; nothing to judge about metadata
                ensure!(saw.call_err.is_some(), "C08/call-failed", "a reply without a message satisfied a unary call");
            } else {
                if let Some(s) = saw.call_err.as_ref().or(saw.stream_err.as_ref()).or(saw.trailers_err.as_ref()) {
                    bail!("C08/call-failed", "the peer answered OK (in one block) but the client saw {s:?}");
                }
                ensure!(saw.msgs == 0, "C08/call-failed", "{} messages out of an empty reply", saw.msgs);
                check_received(saw.initial.as_ref().expect("initial metadata"), headers, &[], "response-metadata(trailers-only-ok)", &mut ctx)?;
            }
        }
        RecvOutcome::TrailersOnly { code } => {
            o.label("recv_trailers_only_status");
            let Some(s) = &saw.call_err else { bail!("C08/call-failed", "trailers-only error status, but the call returned Ok") };
            check_status(s, *code, "trailers-only status")?;
            check_received(s.metadata(), headers, &[], "status-trailers-only", &mut ctx)?;
        }
        RecvOutcome::Ok => {
            if let Some(s) = saw.call_err.as_ref().or(saw.stream_err.as_ref()).or(saw.trailers_err.as_ref()) {
                bail!("C08/call-failed", "the peer answered OK but the client saw {s:?}");
            }
            let init = saw.initial.as_ref().expect("initial metadata");
            if merged {
                o.label("recv_unary_headers_and_trailers_in_one_map");
                o.label_if(headers.iter().any(|h| trailers.iter().any(|t| t.name == h.name)), "same_key_in_headers_and_trailers");
                check_received(init, headers, trailers, "response-metadata", &mut ctx)?;
                check_received(init, trailers, headers, "response-metadata(trailers)", &mut ctx)?;
            } else {
                o.label("recv_streaming_trailers");
                check_received(init, headers, &[], "response-metadata", &mut ctx)?;
                let Some(t) = &saw.trailers else { bail!("C08/received-values-lost/trailers", "Streaming::trailers() returned None although the peer sent trailers") };
                check_received(t, trailers, &[], "trailers", &mut ctx)?;
            }
        }
        RecvOutcome::ErrTrailers { code, with_msg } => {
            o.label("recv_status_in_trailers");
            if merged {
                let Some(s) = &saw.call_err else { bail!("C08/call-failed", "error status in the trailers, but the call returned Ok") };
                check_status(s, *code, "status")?;
                // without a message the client folds the response headers into the status metadata
                let folded: &[WEnt] = if *with_msg { &[] } else { headers };
                o.label_if(!folded.is_empty() && folded.iter().any(|h| trailers.iter().any(|t| t.name == h.name)), "same_key_in_headers_and_trailers");
                check_received(s.metadata(), trailers, folded, "status-metadata", &mut ctx)?;
                // ... so the initial metadata is not lost to a caller who only gets a Status
                check_received(s.metadata(), folded, trailers, "status-metadata(initial)", &mut ctx)?;
                o.label_if(!folded.is_empty() && !trailers.is_empty(), "unary_error_after_headers_both_with_metadata");
            } else {
                ensure!(saw.call_err.is_none(), "C08/call-failed", "streaming call failed up front: {:?}", saw.call_err);
                check_received(saw.initial.as_ref().expect("initial metadata"), headers, &[], "response-metadata", &mut ctx)?;
                let Some(s) = &saw.stream_err else { bail!("C08/call-failed", "error status in the trailers, but the stream ended cleanly") };
                check_status(s, *code, "status")?;
                check_received(s.metadata(), trailers, &[], "status-metadata", &mut ctx)?;
            }
        }
    }
    ctx.finish()
}

/// Service whose handlers keep the request's `MetadataMap` (typed accessors are applied afterwards).
#[derive(Clone, Default)]
struct Probe {
    seen: Arc<Mutex<Vec<MetadataMap>>>,
}
type ProbeStream = Pin<Box<dyn tokio_stream::Stream<Item = Result<Vec<u8>, Status>> + Send>>;
#[tonic::async_trait]
impl vt::raw_server::Raw for Probe {
    async fn unary(&self, req: Request<Vec<u8>>) -> Result<Response<Vec<u8>>, Status> {
        self.seen.lock().unwrap().push(req.metadata().clone());
        Ok(Response::new(b"r".to_vec()))
    }
    async fn client_stream(&self, req: Request<Streaming<Vec<u8>>>) -> Result<Response<Vec<u8>>, Status> {
        self.seen.lock().unwrap().push(req.metadata().clone());
        let mut s = req.into_inner();
        while s.message().await?.is_some() {}
        Ok(Response::new(b"r".to_vec()))
    }
    type ServerStreamStream = ProbeStream;
    async fn server_stream(&self, req: Request<Vec<u8>>) -> Result<Response<ProbeStream>, Status> {
        self.seen.lock().unwrap().push(req.metadata().clone());
        Ok(Response::new(Box::pin(tokio_stream::iter(vec![Ok(b"r".to_vec())]))))
    }
    type BidiStream = ProbeStream;
    async fn bidi(&self, req: Request<Streaming<Vec<u8>>>) -> Result<Response<ProbeStream>, Status> {
        self.seen.lock().unwrap().push(req.metadata().clone());
        Ok(Response::new(Box::pin(tokio_stream::iter(vec![Ok(b"r".to_vec())]))))
    }
}

fn run_recv_server(shape: Shape, headers: &[WEnt], icpt: bool, o: &mut Outcome) -> Result<(), Failure> {
    o.label("recv_server_request");
    o.label(shape.label());
    o.label_if(icpt, "via_interceptor");
    recv_labels(headers, o);
    let probe = Probe::default();
    let wire_vals: Vec<(String, Vec<u8>)> = headers.iter().map(|e| (e.name.clone(), e.wire_value())).collect();
    let hv: Vec<(&str, &[u8])> = wire_vals.iter().map(|(n, v)| (n.as_str(), &v[..])).collect();
    let body = ScriptBody::new(vec![BodyStep::Data(Bytes::from(wire::frame(0, b"q")))]);
    let req = mock::grpc_request(shape.path(), &hv, body);
    let ans = if icpt {
        let mut svc = vt::raw_server::RawServer::with_interceptor(probe.clone(), |req: Request<()>| -> Result<Request<()>, Status> { Ok(req) });
        mock::call_service(&mut svc, req, 512)
    } else {
        let mut svc = vt::raw_server::RawServer::new(probe.clone());
        mock::call_service(&mut svc, req, 512)
    }
    .map_err(|e| Failure { sig: "C08/call-failed".into(), detail: e })?;
    let st = ans.status_obj();
    ensure!(st.as_ref().map(|s| s.code()) == Some(Code::Ok), "C08/call-failed", "server answered {:?}", st);
    let seen = probe.seen.lock().unwrap();
    ensure!(seen.len() == 1, "C08/call-failed", "handler ran {} times", seen.len());
    let mut ctx = Ctx::default();
    check_received(&seen[0], headers, &[], "request-metadata", &mut ctx)?;
    ctx.finish()
}

// =====================================================================================================
// Prop
// =====================================================================================================

pub fn run(c: &Case, o: &mut Outcome) -> Result<(), Failure> {
    match c {
        Case::Api { names, ops } => run_api(names, ops, o),
        Case::SendClient { shape, md, icpt } => run_send_client(*shape, md, *icpt, o),
        Case::SendServer { shape, initial, status, stream_item } => run_send_server(*shape, initial, status, *stream_item, o),
        Case::RecvClient { shape, headers, trailers, outcome } => run_recv_client(*shape, headers, trailers, outcome, o),
        Case::RecvServer { shape, headers, icpt } => run_recv_server(*shape, headers, *icpt, o),
        Case::OverChannel { forge, ua, ints, shared, rt_seed } => run_over_channel(*forge, *ua, ints, &shared.bytes(), *rt_seed, o),
    }
}

fn idx(name: &str) -> u8 {
    API_NAMES.iter().position(|n| *n == name).expect("name in API_NAMES") as u8
}

pub fn fixed_cases() -> Vec<Case> {
    let mut v = vec![];
    // every length mod 3 (0..=9 bytes), padded and unpadded construction, inserted then appended
    for len in 0..=9usize {
        for pad in [false, true] {
            let raw: Vec<u8> = (0..len).map(|i| (0xf9u8).wrapping_add((i as u8).wrapping_mul(37))).collect();
            v.push(Case::Api {
                names: vec![idx("x-bin"), idx("x-bi")],
                ops: vec![
                    Op::Insert { n: 0, v: hex(&raw), f: IForm::Static, pad },
                    Op::Append { n: 0, v: hex(&raw[..len / 2]), f: IForm::Typed, pad: !pad },
                    Op::Append { n: 1, v: hex(b"text"), f: IForm::TypedRef, pad: false },
                    Op::RoundTrip,
                ],
            });
        }
    }
    // every entry operation on an occupied and on a vacant entry, both kinds
    for name in ["x-bin", "x-a", "-bin", "bin"] {
        for op in EOPS {
            v.push(Case::Api {
                names: vec![idx(name)],
                ops: vec![
                    Op::Entry { n: 0, f: KForm::Str, c: KCase::Lower, cross: false, op, v: hex(b"\x01\x02"), pad: false },
                    Op::Append { n: 0, v: hex(b"zz"), f: IForm::Typed, pad: true },
                    Op::Entry { n: 0, f: KForm::Typed, c: KCase::Lower, cross: false, op, v: hex(b"\x03"), pad: true },
                ],
            });
        }
    }
    // every reserved name, alone, on every sending path and shape
    for shape in SHAPES {
        for r in wire::RESERVED_METADATA {
            let forged = vec![MdEntry { name: r.to_string(), val: hex(format!("{FORGED}1").as_bytes()) }, MdEntry { name: "x-a".into(), val: hex(b"kept") }];
            v.push(Case::SendClient { shape, md: forged.clone(), icpt: false });
            v.push(Case::SendServer { shape, initial: forged.clone(), status: None, stream_item: false });
            v.push(Case::SendServer { shape, initial: vec![], status: Some((5, forged.clone())), stream_item: false });
            v.push(Case::SendServer { shape, initial: forged.clone(), status: Some((13, forged.clone())), stream_item: true });
        }
    }
    v
}

pub fn from_bytes(data: &[u8]) -> Option<Case> {
    use arbitrary::Unstructured;
    let mut u = Unstructured::new(data);
    let nn = u.int_in_range(1usize..=4).ok()?;
    let mut names = vec![];
    for _ in 0..nn {
        names.push(u.int_in_range(0u8..=(API_NAMES.len() as u8 - 1)).ok()?);
    }
    let nops = u.int_in_range(1usize..=25).ok()?;
    let mut ops = vec![];
    for _ in 0..nops {
        if u.is_empty() {
            break;
        }
        let n: u8 = u.arbitrary().ok()?;
        let kind = u.int_in_range(0u8..=9).ok()?;
        let vlen = u.int_in_range(0usize..=8).ok()?;
        let v = hex(u.bytes(vlen.min(u.len())).ok()?);
        let pad: bool = u.arbitrary().ok()?;
        let f = *u.choose(&KFORMS).ok()?;
        let c = *u.choose(&KCASES).ok()?;
        let cross = u.ratio(1u8, 5u8).ok()?;
        let ifo = *u.choose(&[IForm::Typed, IForm::TypedRef, IForm::Static]).ok()?;
        ops.push(match kind {
            0 | 1 => Op::Insert { n, v, f: ifo, pad },
            2 | 3 | 4 => Op::Append { n, v, f: ifo, pad },
            5 => Op::Remove { n, f, c, cross },
            6 | 7 => Op::Entry { n, f, c, cross, op: *u.choose(&EOPS).ok()?, v, pad },
            8 => Op::SetFirst { n, f, c, cross, v, pad },
            _ => {
                if pad {
                    Op::Clear
                } else {
                    Op::RoundTrip
                }
            }
        });
    }
    Some(Case::Api { names, ops })
}

pub struct C08;
impl Prop for C08 {
    const ID: &'static str = "C08";
    type Case = Case;
    fn strategy() -> BoxedStrategy<Case> {
        strategy()
    }
    fn run(c: &Case, o: &mut Outcome) -> Result<(), Failure> {
        run(c, o)
    }
    fn rule() -> &'static str {
        "proptest + enumerated cases, three families. (a) Api: 1-5 names from a static pool (binary names next to the near misses bin, -bin, x-bin-, x-binx, xbin, x-bi, x-bin-bin and reserved names) and 1-25 operations insert/append/insert_bin/append_bin (typed key, &key, &'static str; binary values built from bytes or from padded base64 text), remove/remove_bin, *get_mut=v, entry/entry_bin with all nine entry operations on occupied and vacant entries, clear, into_headers/from_headers, with keys given as MetadataKey, &MetadataKey, &str, String, &String in lower/UPPER/suffix-UPPER/Title/Prefix spellings and 20% accessors of the other kind; reference = ordered multimap with http::HeaderMap semantics; after every step len/keys_len/is_empty, iter/keys/values/iter_mut/values_mut (variant kind must equal the stored name's kind), into_headers (independent base64 decode), and get/get_mut/get_all/contains_key of both kinds for every name of the case in every key form and spelling are compared with the model; for every binary value padded-vs-unpadded equality, hash and to_bytes. A non-lower-case string key may find its own-kind entry or nothing, never an entry of the other kind. (b) Send: caller metadata through the generated client (4 shapes, optionally through an interceptor) into a recording transport; handler initial metadata and error-status metadata (returned or as stream item) through the generated server called in-process: every non-reserved entry under its name with the same ordered values (binary: independent base64 decode), te=trailers, content-type=application/grpc, grpc-status exact, and no value the user attached under a reserved name appears under that name. (c) Recv: headers/trailers/trailers-only status with padded and unpadded base64, ASCII values and repeated names delivered to the generated client (Response::metadata, Streaming::trailers, Status::metadata) and to the generated server (Request::metadata in the handler, optionally behind an interceptor), read back through get/get_bin/get_all/get_all_bin/iter. Non-trivial: >=1 binary value with len mod 3 != 0, or a repeated key, or a reserved name present; distinct = distinct serialised case. Also: a successful reply sent in one block (grpc-status 0 with metadata in the HEADERS) to streaming calls; initial metadata of a unary call that fails in the trailers must be found in the Status next to the trailer metadata. Error statuses on the receive paths carry grpc-status-details-bin, which must come out of Status::details(). OverChannel family: generated client (optionally with an interceptor that sets user-agent) over a real Channel on the in-memory pipe to a real server; Endpoint::user_agent set or not; ASCII values built from integers (0, small, MIN/MAX) and a binary value built from a Bytes buffer (some of them base64-looking): the handler sees tonic's own user-agent token, the decimal texts in order and the buffer's bytes."
    }
    fn assumptions() -> Vec<String> {
        vec![
            "order between different names is not compared (http::HeaderMap::remove reorders); order of the values of one name is".into(),
            "a non-lower-case &str/String key may either act like its lower-case spelling or find nothing; only presenting an entry of the other kind is a violation".into(),
            "base64 padding on the wire is labelled, not judged (the statement requires decodability; the gRPC spec says implementations should emit unpadded)".into(),
            "custom names never start with grpc- except the reserved ones used on purpose; values attached under reserved names are distinct from what the protocol puts there".into(),
            "ASCII values on the wire families have no leading/trailing blank".into(),
            "OccupiedEntry::insert_mult is only exercised on entries holding fewer than three values: http 1.5.0's HeaderMap::insert_occupied_mult panics from three values on (a defect of the http crate, reachable through tonic's wrapper)".into(),
            "failures of the three classified defect classes (mixed-case string key, VacantEntry::insert_entry type, unary header/trailer merge) are parked until the rest of the case has been judged, so a fresh failure in the same case always wins".into(),
        ]
    }
    fn cases(t: Tier) -> u64 {
        match t {
            Tier::Quick => 36_000,
            Tier::Thorough => 1_000_000,
        }
    }
    fn fixed_cases(_t: Tier) -> Vec<Case> {
        fixed_cases()
    }
    fn fixed_is_exhaustive() -> Option<&'static str> {
        Some("every reserved name x every sending path x 4 shapes; binary lengths 0..=9 x padded/unpadded construction; 9 entry operations x occupied/vacant x 4 names")
    }
    fn from_bytes(data: &[u8]) -> Option<Case> {
        from_bytes(data)
    }
    fn fuzz(t: Tier) -> Option<FuzzSpec> {
        match t {
            Tier::Quick => None,
            Tier::Thorough => Some(FuzzSpec { target: "c08_metadata", runs: 300_000, max_len: 1024 }),
        }
    }
    fn max_shrink_iters() -> u32 {
        3000
    }
}

#[cfg(test)]
mod tests {
    use super::*;
    #[test]
    fn smoke() {
        let f = fixed_cases();
        println!("{} fixed", f.len());
        for c in &f {
            let mut o = Outcome::default();
            if let Err(e) = run(c, &mut o) {
                println!("{} :: {} :: {}", e.sig, e.detail, serde_json::to_string(c).unwrap());
            }
        }
        let _ = strategy();
    }
}
