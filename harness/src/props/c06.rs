//! C06 – message size limits are enforced exactly and without collateral loss.
use crate::infra::alloc;
use crate::infra::blob::Blob;
use crate::infra::codec_drv::*;
use crate::infra::gen;
use crate::infra::handler::{HandlerScript, RespMsg, Shared};
use crate::infra::mock::{self, MockChannel, Reply};
use crate::infra::runner::*;
use crate::infra::script::{BodyStep, ScriptBody, SrcStep};
use crate::infra::wire::{self, Enc};
use crate::svc::{vt, RawCodec};
use crate::{bail, ensure};
use bytes::{BufMut, Bytes};
use proptest::prelude::*;
use serde::{Deserialize, Serialize};
use tonic::codec::{BufferSettings, Codec, EncodeBuf, Encoder, Streaming};
use tonic::{Code, Status};

const DEFAULT_LIMIT: usize = 4 * 1024 * 1024;

#[derive(Clone, Debug, Serialize, Deserialize)]
pub enum Declared {
    /// limit + delta (delta in -1..=+1, or larger)
    Rel(i64),
    Twice,
    Abs(u32),
}

#[derive(Clone, Debug, Serialize, Deserialize)]
pub enum Case {
    Decode {
        response: bool,
        /// None = default (4 MiB)
        limit: Option<usize>,
        /// lengths of earlier, acceptable messages as fractions of the limit (selector) – built small
        pre: Vec<u16>,
        declared: Declared,
        /// payload follows (only honoured when the declared length is <= 8 MiB)
        with_payload: bool,
        sizes: Vec<u16>,
        pend: Vec<u8>,
    },
    /// compressed message whose wire length is within the limit but whose decompressed size is not
    Bomb { response: bool, limit: usize, enc: Enc, factor: u8, sizes: Vec<u16> },
    Encode {
        server: bool,
        limit: usize,
        buffer_size: usize,
        yield_threshold: usize,
        /// lengths of messages before the oversized one (selectors into 0..=limit)
        pre: Vec<u16>,
        /// how far over the limit the failing message is (1 = limit+1)
        over_by: u32,
        /// messages after it in the source
        post: u8,
        src_pend: Vec<u8>,
        enc: Option<Enc>,
    },
    /// 2^32+1 byte message through an encoder that only reserves (never touches) the bytes
    EncodeHuge { server: bool, pre: u8, pend_before: u8 },
    /// the codec's encoder refuses one message after having written part of it (`svc::ENCODER_REFUSES`)
    EncoderRefuses { server: bool, pre: u8, pend_before: u8 },
    /// limits configured on generated client/server (plumbing)
    PlumbedServer { limit: usize, delta: i64, encode_side: bool, #[serde(default)] sized: bool, #[serde(default)] stream: bool },
    PlumbedClient { limit: usize, delta: i64, encode_side: bool, #[serde(default)] via_clone: bool, #[serde(default)] other_limit: Option<usize>, #[serde(default)] stream: bool },
}

const LIMITS: [usize; 6] = [0, 1, 5, 100, 4096, 65536];
/// limits wider than the 32-bit length prefix: every declarable length is within them
const WIDE_LIMITS: [usize; 4] = [1 << 32, (1 << 32) + 100, (1 << 33) + 5, usize::MAX];

pub fn strategy() -> BoxedStrategy<Case> {
    let limit = prop_oneof![8 => proptest::sample::select(&LIMITS[..]).prop_map(Some), 1 => Just(None), 1 => proptest::sample::select(&WIDE_LIMITS[..]).prop_map(Some)];
    let declared = prop_oneof![
        3 => Just(Declared::Rel(-1)),
        4 => Just(Declared::Rel(0)),
        4 => Just(Declared::Rel(1)),
        1 => (2i64..40).prop_map(Declared::Rel),
        2 => Just(Declared::Twice),
        2 => Just(Declared::Abs(1 << 31)),
        2 => Just(Declared::Abs(u32::MAX)),
        1 => Just(Declared::Abs(64 << 20)),
        1 => (0x0400_0000u32..=u32::MAX).prop_map(Declared::Abs),
    ];
    let dec = (any::<bool>(), limit, proptest::collection::vec(any::<u16>(), 0..4), declared, any::<bool>(), gen::chunk_sizes(12), gen::pend_pattern(3))
        .prop_map(|(response, limit, pre, declared, with_payload, sizes, pend)| Case::Decode { response, limit, pre, declared, with_payload, sizes, pend });
    let bomb = (any::<bool>(), proptest::sample::select(&[100usize, 4096, 65536][..]), gen::enc(), 2u8..20, gen::chunk_sizes(6))
        .prop_map(|(response, limit, enc, factor, sizes)| Case::Bomb { response, limit, enc, factor, sizes });
    let enc = (
        any::<bool>(),
        proptest::sample::select(&LIMITS[..]),
        gen::buffer_settings(),
        proptest::collection::vec(any::<u16>(), 0..5),
        prop_oneof![4 => Just(1u32), 1 => 2u32..100],
        0u8..3,
        gen::pend_pattern(8),
        prop_oneof![4 => Just(None), 1 => gen::enc().prop_map(Some)],
    )
        .prop_map(|(server, limit, (bs, yt), pre, over_by, post, src_pend, enc)| Case::Encode {
            server,
            limit,
            buffer_size: bs,
            yield_threshold: yt,
            pre,
            over_by,
            post,
            src_pend,
            enc,
        });
    let pl = (proptest::sample::select(&[5usize, 100, 4096][..]), -1i64..=1, any::<bool>(), any::<bool>()).prop_map(|(limit, delta, encode_side, server)| {
        if server {
            Case::PlumbedServer { limit, delta, encode_side, sized: limit != 100 || delta <= 0, stream: limit == 4096 }
        } else {
            Case::PlumbedClient { limit, delta, encode_side, via_clone: limit % 2 == 0 || delta == 1, other_limit: if delta == 0 { Some(limit * 8 + 3) } else { None }, stream: encode_side && delta != 0 }
        }
    });
    prop_oneof![10 => dec, 2 => bomb, 10 => enc, 3 => pl].boxed()
}

fn pre_len(sel: u16, limit: usize) -> usize {
    // earlier messages: mostly small, sometimes exactly the limit / limit-1, never above 64 KiB
    let cap = limit.min(65536);
    match sel % 4 {
        0 => cap,
        1 => cap.saturating_sub(1),
        _ => gen::pick(sel, cap.min(300) + 1),
    }
}

fn payload_of(len: usize, seed: u32) -> Vec<u8> {
    crate::infra::blob::xorshift_bytes(seed | 1, len)
}

fn run_decode(response: bool, limit: Option<usize>, pre: &[u16], declared: &Declared, with_payload: bool, sizes: &[u16], pend: &[u8], o: &mut Outcome) -> Result<(), Failure> {
    let l = limit.unwrap_or(DEFAULT_LIMIT);
    let d: u64 = match declared {
        Declared::Rel(x) => (l as i128 + *x as i128).clamp(0, u32::MAX as i128) as u64,
        Declared::Twice => (l as u64).saturating_mul(2).saturating_add(2),
        Declared::Abs(a) => *a as u64,
    }
    .min(u32::MAX as u64);
    // under a limit wider than the length prefix everything declarable is acceptable; keep the probe
    // small there so that "accepted" does not mean reserving gigabytes in every shard
    let d = if l > u32::MAX as usize { (d as usize).min(70_000) } else { d as usize };
    let over = d > l;
    let payload_follows = (with_payload || d == 0) && d <= (8 << 20);
    let mut bytes = vec![];
    let mut expect: Vec<Vec<u8>> = vec![];
    for (i, s) in pre.iter().enumerate() {
        let p = payload_of(pre_len(*s, l), i as u32 + 7);
        bytes.extend(wire::frame(0, &p));
        expect.push(p);
    }
    let prefix_end = bytes.len() + 5;
    let mut probe_frame = vec![0u8];
    probe_frame.extend_from_slice(&(d as u32).to_be_bytes());
    let probe_payload = if payload_follows { payload_of(d, 99) } else { vec![] };
    probe_frame.extend_from_slice(&probe_payload);
    bytes.extend(&probe_frame);
    // a later, valid message (must never be yielded after a refusal)
    if payload_follows {
        bytes.extend(wire::frame(0, &b"after"[..l.min(5)]));
    }
    // make sure a cut falls exactly after the prefix when the payload is absent
    let chunks = cut(&bytes, sizes, &[prefix_end]);
    let mut body = script_body(&chunks, pend, None);
    body.hang_at_end = !payload_follows;
    let probe = body.probe.clone();
    let dec = RawCodec::default().decoder();
    o.label_if(over, "oversize");
    o.label_if(!over, "within_limit");
    o.label_if(!payload_follows, "declared_but_absent_payload");
    o.label_if(d >= (64 << 20), "huge_declared");
    o.label_if(limit.is_none(), "default_limit");
    o.label_if(!pre.is_empty(), "earlier_messages");
    o.label_if(d == l || Some(d) == l.checked_add(1), "at_boundary");
    o.nontrivial = (over && !pre.is_empty()) || !payload_follows;

    alloc::arm();
    let mut st: Streaming<Vec<u8>> = if response {
        Streaming::new_response(dec, body, http::StatusCode::OK, None, limit)
    } else {
        Streaming::new_request(dec, body, None, limit)
    };
    let budget = 64 + 8 * (chunks.len() * 4 + pre.len() + 4);
    let evs = drive_decode(&mut st, budget, 2);
    drop(st);
    let max_req = alloc::disarm();
    let _ = probe;

    // earlier messages intact and in order
    let mut it = evs.iter();
    for (i, want) in expect.iter().enumerate() {
        match it.next() {
            Some(DecEv::Item(m)) => ensure!(m == want, "C06/earlier-message-altered", "message {i} before the probe differs"),
            other => bail!("C06/earlier-message-lost", "expected message {i} before the probe, got {other:?}"),
        }
    }
    let next = it.next();
    if over {
        match next {
            Some(DecEv::Err(s)) => {
                ensure!(s.code() == Code::OutOfRange, "C06/oversize-wrong-code", "declared {d} > limit {l}: got {:?}", s.code());
            }
            Some(DecEv::Stuck) => bail!("C06/oversize-not-refused-at-prefix", "declared {d} > limit {l}: stream is Pending after the prefix was delivered instead of failing"),
            other => bail!("C06/oversize-accepted", "declared {d} > limit {l}: got {other:?}"),
        }
        for e in it {
            ensure!(matches!(e, DecEv::End), "C06/event-after-refusal", "event after the OUT_OF_RANGE refusal: {e:?}");
        }
        if d >= (64 << 20) {
            ensure!(max_req < d / 2, "C06/memory-reserved-for-refused-message", "largest single allocation request while decoding was {max_req} bytes for a refused message declaring {d}");
        }
    } else if payload_follows {
        match next {
            Some(DecEv::Item(m)) => ensure!(*m == probe_payload, "C06/within-limit-altered", "message of length {d} (limit {l}) altered"),
            other => bail!("C06/within-limit-refused", "declared {d} <= limit {l} with payload present: got {other:?}"),
        }
        match it.next() {
            Some(DecEv::Item(m)) => ensure!(m[..] == b"after"[..l.min(5)], "C06/following-message-altered", "message after the probe altered"),
            other => bail!("C06/following-message-lost", "message after an accepted probe: {other:?}"),
        }
    } else {
        // within the limit, payload never arrives: the stream must simply wait
        ensure!(matches!(next, Some(DecEv::Stuck)), "C06/within-limit-absent-payload", "declared {d} <= limit {l}, payload absent and body pending: got {next:?}");
    }
    Ok(())
}

fn run_bomb(response: bool, limit: usize, enc: Enc, factor: u8, sizes: &[u16], o: &mut Outcome) -> Result<(), Failure> {
    let plain = vec![0u8; limit * factor as usize];
    let z = wire::compress(enc, &plain);
    o.label("compressed_within_wire_limit");
    if z.len() > limit {
        o.label("bomb_not_small_enough");
        return Ok(());
    }
    o.nontrivial = true;
    let bytes = wire::frame(1, &z);
    let chunks = cut(&bytes, sizes, &[]);
    let body = script_body(&chunks, &[], None);
    let dec = RawCodec::default().decoder();
    let mut st: Streaming<Vec<u8>> = if response {
        Streaming::new_response(dec, body, http::StatusCode::OK, Some(enc.tonic()), Some(limit))
    } else {
        Streaming::new_request(dec, body, Some(enc.tonic()), Some(limit))
    };
    let evs = drive_decode(&mut st, 64 + 32 * (chunks.len() + 2), 1);
    match evs.first() {
        Some(DecEv::Item(m)) => ensure!(*m == plain, "C06/compressed-within-limit-altered", "decompressed payload differs"),
        other => bail!("C06/compressed-within-limit-refused", "wire length {} <= limit {limit} (decompressed {}): got {other:?}", z.len(), plain.len()),
    }
    Ok(())
}

fn run_encode(server: bool, limit: usize, bs: usize, yt: usize, pre: &[u16], over_by: u32, post: u8, src_pend: &[u8], enc: Option<Enc>, o: &mut Outcome) -> Result<(), Failure> {
    let mut items: Vec<Result<Vec<u8>, Status>> = vec![];
    let mut expect: Vec<Vec<u8>> = vec![];
    for (i, s) in pre.iter().enumerate() {
        // with compression the wire size is what counts: keep earlier messages compressible and small
        let p = if enc.is_some() { vec![b'a'; gen::pick(*s, 20)] } else { payload_of(pre_len(*s, limit), i as u32 + 3) };
        if let Some(e) = enc {
            if wire::compress(e, &p).len() + 16 > limit {
                continue;
            }
        }
        expect.push(p.clone());
        items.push(Ok(p));
    }
    let over_len = if enc.is_some() { 2 * limit + 64 + over_by as usize } else { limit + over_by as usize };
    items.push(Ok(payload_of(over_len, 1234)));
    for _ in 0..post {
        items.push(Ok(b"post".to_vec()));
    }
    let n_pre = expect.len();
    let same_batch = n_pre >= 1 && src_pend.get(n_pre).copied().unwrap_or(0) == 0;
    o.label_if(server, "server_role");
    o.label_if(!server, "client_role");
    o.label_if(n_pre >= 1, "earlier_messages");
    o.label_if(same_batch, "earlier_in_same_batch");
    o.label_if(enc.is_some(), "compressed");
    o.label_if(over_by == 1 && enc.is_none(), "exactly_limit_plus_1");
    o.label_if(post > 0, "messages_after");
    o.nontrivial = same_batch;
    let role = if server { Role::Server } else { Role::Client };
    let budget = 64 + 8 * (items.len() + src_pend.iter().map(|p| *p as usize).sum::<usize>());
    let out = drive_encode(RawCodec::with(bs, yt).encoder(), src_steps(items, src_pend), role, enc, false, Some(limit), budget, if server { 3 } else { 0 });
    judge_encode_failure(&out, server, &expect, enc, Code::OutOfRange, "limit")
}

/// every message before the failing one is delivered, in order, in DATA frames before the status;
/// nothing from the failing position onwards; nothing after the trailers.
fn judge_encode_failure(out: &EncOut, server: bool, expect: &[Vec<u8>], enc: Option<Enc>, code: Code, tag: &str) -> Result<(), Failure> {
    if let Some(v) = out.contract_violation() {
        bail!("C06/body-contract", "{tag}: {v}");
    }
    let mut data = vec![];
    let mut status_at: Option<usize> = None;
    for (i, ev) in out.events.iter().enumerate() {
        match ev {
            Ev::Stuck => bail!("C06/encode-stuck", "{tag}: body did not complete within the poll budget"),
            Ev::Data(d) => {
                ensure!(status_at.is_none(), "C06/data-after-status", "{tag}: DATA frame ({} bytes) emitted after the status at event {:?}", d.len(), status_at);
                data.extend_from_slice(d);
            }
            Ev::Trailers(t) => {
                ensure!(server, "C06/client-trailers", "{tag}: client body produced trailers");
                ensure!(status_at.is_none(), "C06/second-status", "{tag}: second trailers block");
                let st = Status::from_header_map(t);
                ensure!(st.as_ref().map(|s| s.code()) == Some(code), "C06/encode-failure-wrong-status", "{tag}: trailers carry {:?}, expected {code:?}", st.map(|s| s.code()));
                status_at = Some(i);
            }
            Ev::Err(s) => {
                ensure!(!server, "C06/server-body-error", "{tag}: server body failed with {s:?} instead of sending trailers");
                ensure!(status_at.is_none(), "C06/second-status", "{tag}: second error");
                ensure!(s.code() == code, "C06/encode-failure-wrong-status", "{tag}: body error {:?}, expected {code:?}", s.code());
                status_at = Some(i);
            }
            Ev::End => {
                ensure!(status_at.is_some(), "C06/oversize-message-not-refused", "{tag}: body ended without the encode failure being reported");
            }
        }
    }
    ensure!(status_at.is_some(), "C06/oversize-message-not-refused", "{tag}: no status reported");
    let (frames, end) = wire::parse_frames(&data);
    ensure!(end == wire::ParseEnd::Clean, "C06/garbage-in-body", "{tag}: DATA before the status is not a whole number of frames: {end:?} after {} frames", frames.len());
    ensure!(
        frames.len() == expect.len(),
        if frames.len() < expect.len() { "C06/earlier-messages-lost-on-encode-failure" } else { "C06/message-after-failure-sent" },
        "{tag}: {} frames delivered before the status, {} messages preceded the failing one",
        frames.len(),
        expect.len()
    );
    for (i, (f, want)) in frames.iter().zip(expect.iter()).enumerate() {
        let plain = match (f.flag, enc) {
            (0, _) => f.payload.clone(),
            (1, Some(e)) => wire::decompress(e, &f.payload).map_err(|er| Failure { sig: "C06/earlier-message-altered".into(), detail: format!("frame {i}: {er}") })?,
            (fl, _) => bail!("C06/earlier-message-altered", "frame {i} has flag {fl}"),
        };
        ensure!(plain == *want, "C06/earlier-message-altered", "{tag}: frame {i} differs from message {i}");
    }
    Ok(())
}

/// Encoder that reserves and "writes" 2^32+1 bytes without touching them.
#[derive(Clone, Copy)]
struct HugeEnc;
impl Encoder for HugeEnc {
    type Item = Option<Vec<u8>>;
    type Error = Status;
    fn encode(&mut self, item: Self::Item, dst: &mut EncodeBuf<'_>) -> Result<(), Status> {
        match item {
            Some(v) => dst.put_slice(&v),
            None => {
                let n = (1usize << 32) + 1;
                dst.reserve(n);
                unsafe { dst.advance_mut(n) };
            }
        }
        Ok(())
    }
    fn buffer_settings(&self) -> BufferSettings {
        BufferSettings::new(8192, 32768)
    }
}

fn run_encode_huge(server: bool, pre: u8, pend_before: u8, o: &mut Outcome) -> Result<(), Failure> {
    // skip (recorded) when the address space cannot be reserved
    let mut probe: Vec<u8> = Vec::new();
    if probe.try_reserve_exact((1usize << 32) + (1 << 20)).is_err() {
        o.label("huge_skipped_no_address_space");
        return Ok(());
    }
    drop(probe);
    o.label("encode_over_4GiB");
    o.nontrivial = true;
    let mut steps = vec![];
    let mut expect = vec![];
    for i in 0..pre {
        let p = vec![i + 1; 10];
        expect.push(p.clone());
        steps.push(SrcStep::Item(Some(p)));
    }
    for _ in 0..pend_before {
        steps.push(SrcStep::Pending);
    }
    steps.push(SrcStep::Item(None));
    steps.push(SrcStep::Item(Some(b"post".to_vec())));
    let role = if server { Role::Server } else { Role::Client };
    // a client body is not polled again after it failed (hyper resets the stream)
    let out = drive_encode(HugeEnc, steps, role, None, false, None, 256, if server { 3 } else { 0 });
    // never materialise a 4 GiB frame in the transcript: EncOut copies DATA, so guard on size first
    judge_encode_failure(&out, server, &expect, None, Code::ResourceExhausted, "4GiB")
}

/// An encoder error is an outgoing message that cannot be sent: everything before it is delivered, nothing of it
/// (not even what the encoder had already written) and nothing after it.
fn run_encoder_refuses(server: bool, pre: u8, pend_before: u8, o: &mut Outcome) -> Result<(), Failure> {
    o.label("encoder_refuses_a_message");
    o.nontrivial = true;
    let mut steps = vec![];
    let mut expect = vec![];
    for i in 0..pre {
        let p = vec![i + 1; 9 + i as usize];
        expect.push(p.clone());
        steps.push(SrcStep::Item(p));
    }
    for _ in 0..pend_before {
        steps.push(SrcStep::Pending);
    }
    let mut bad = crate::svc::ENCODER_REFUSES.to_vec();
    bad.extend_from_slice(b" payload");
    steps.push(SrcStep::Item(bad));
    steps.push(SrcStep::Item(b"post".to_vec()));
    let role = if server { Role::Server } else { Role::Client };
    let out = drive_encode(RawCodec { bs: None, refuse: true }.encoder(), steps, role, None, false, None, 256, if server { 3 } else { 0 });
    judge_encode_failure(&out, server, &expect, None, Code::Internal, "encoder-refuses")
}

fn run_plumbed_server(limit: usize, delta: i64, encode_side: bool, sized: bool, stream: bool, o: &mut Outcome) -> Result<(), Failure> {
    o.label("plumbed_generated_server");
    o.nontrivial = true;
    let len = (limit as i64 + delta).max(0) as usize;
    // every fifth probe configures a limit beyond 4 GiB (2^32 + L): nothing of this size is over it
    let limit = if limit % 5 == 0 { (1usize << 32) + limit } else { limit };
    o.label_if(limit > u32::MAX as usize, "plumbed_server_limit_over_4GiB");
    let over = len > limit;
    // the limit of the other direction is set as well, to a clearly different value: each of the four generated
    // handlers must hand each limit to the right side
    let other = limit * 2 + 64;
    // all four method kinds (the one-message request fits every shape)
    let kind = (limit / 3 + len) % 4;
    let path4 = ["/vt.Raw/Unary", "/vt.Raw/ServerStream", "/vt.Raw/ClientStream", "/vt.Raw/Bidi"][kind];
    o.label(["plumbed_server_unary", "plumbed_server_server_stream", "plumbed_server_client_stream", "plumbed_server_bidi"][kind]);
    if encode_side {
        // handler answers with a message of `len` bytes; server configured with max_encoding_message_size
        let sh = Shared::new(vec![HandlerScript { msgs: vec![RespMsg { data: Blob::Rnd(len as u32, 5), pend: 0, delay_ms: 0 }], ..Default::default() }]);
        let mut svc = vt::raw_server::RawServer::new(sh.clone()).max_encoding_message_size(limit).max_decoding_message_size(other);
        let body = ScriptBody::new(vec![BodyStep::Data(Bytes::from(wire::frame(0, b"q")))]);
        let ans = mock::call_service(&mut svc, mock::grpc_request(path4, &[], body), 256).map_err(|e| Failure { sig: "C06/plumbed-server-call".into(), detail: e })?;
        let st = ans.status_obj();
        if over {
            ensure!(st.as_ref().map(|s| s.code()) == Some(Code::OutOfRange), "C06/encoding-limit-not-plumbed", "server max_encoding_message_size({limit}) with a {len}-byte response: status {:?}", st.map(|s| s.code()));
            ensure!(wire::parse_frames(&ans.body()).0.is_empty(), "C06/oversize-message-sent", "oversized response message was sent");
        } else {
            ensure!(st.as_ref().map(|s| s.code()) == Some(Code::Ok), "C06/encoding-limit-too-strict", "server max_encoding_message_size({limit}) with a {len}-byte response: status {:?}", st.map(|s| s.code()));
        }
    } else {
        // in a third of the probes only the decoding limit is configured and the handler answers with more than that:
        // a receive limit says nothing about what may be sent
        let only_decoding = limit % 3 == 1 && limit < 60_000;
        o.label_if(only_decoding, "plumbed_server_only_decoding_limit_large_response");
        let resp_len = if only_decoding { limit + 100 } else { 1 };
        let sh = Shared::new(vec![HandlerScript { msgs: vec![RespMsg { data: Blob::Rnd(resp_len as u32, 11), pend: 0, delay_ms: 0 }], ..Default::default() }]);
        let mut svc = vt::raw_server::RawServer::new(sh.clone()).max_decoding_message_size(limit);
        if !only_decoding {
            svc = svc.max_encoding_message_size(other);
        }
        let mut body = ScriptBody::new(vec![BodyStep::Data(Bytes::from(wire::frame(0, &payload_of(len, 3))))]);
        // a peer that announces the size of its body (content-length, or an in-process `Full` body)
        body.sized = sized;
        o.label_if(sized, "request_body_announces_its_size");
        let _ = stream;
        let ans = mock::call_service(&mut svc, mock::grpc_request(path4, &[], body), 256).map_err(|e| Failure { sig: "C06/plumbed-server-call".into(), detail: e })?;
        let st = ans.status_obj();
        let entered = !sh.log.lock().unwrap().is_empty();
        if kind >= 2 {
            // streaming requests: the handler owns the request stream; what it read from it is the verdict
            let log = sh.log.lock().unwrap().clone();
            let l = log.first();
            let got = l.map(|l| l.msgs.len()).unwrap_or(0);
            let err = l.and_then(|l| l.req_error.clone());
            if over {
                ensure!(got == 0 && err.as_ref().map(|e| e.0) == Some(Code::OutOfRange), "C06/decoding-limit-not-plumbed", "server max_decoding_message_size({limit}) on {path4} with a {len}-byte request message: the handler read {got} message(s), stream error {err:?}");
            } else {
                ensure!(got == 1 && err.is_none(), "C06/decoding-limit-too-strict", "server max_decoding_message_size({limit}) on {path4} with a {len}-byte request message: the handler read {got} message(s), stream error {err:?}");
                if only_decoding {
                    ensure!(st.as_ref().map(|s| s.code()) == Some(Code::Ok), "C06/receive-limit-applied-to-responses", "only max_decoding_message_size({limit}) is configured, the handler's {resp_len}-byte response ended as {:?}", st.map(|s| (s.code(), s.message().to_string())));
                }
            }
            return Ok(());
        }
        if over {
            ensure!(st.as_ref().map(|s| s.code()) == Some(Code::OutOfRange), "C06/decoding-limit-not-plumbed", "server max_decoding_message_size({limit}) with a {len}-byte request: status {:?}", st.map(|s| s.code()));
            ensure!(!entered, "C06/handler-ran-for-oversize-request", "handler ran although the request message was over the limit");
        } else {
            ensure!(st.as_ref().map(|s| s.code()) == Some(Code::Ok) && entered, if only_decoding { "C06/receive-limit-applied-to-responses" } else { "C06/decoding-limit-too-strict" }, "server max_decoding_message_size({limit}) with a {len}-byte request (response {resp_len} bytes): status {:?}", st.map(|s| (s.code(), s.message().to_string())));
        }
    }
    Ok(())
}

fn run_plumbed_client(limit: usize, delta: i64, encode_side: bool, via_clone: bool, other_limit: Option<usize>, stream: bool, o: &mut Outcome) -> Result<(), Failure> {
    o.label("plumbed_generated_client");
    o.nontrivial = true;
    let len = (limit as i64 + delta).max(0) as usize;
    // every fifth probe configures a limit beyond 4 GiB (2^32 + L): nothing of this size is over it
    let limit = if limit % 5 == 0 { (1usize << 32) + limit } else { limit };
    o.label_if(limit > u32::MAX as usize, "plumbed_client_limit_over_4GiB");
    let over = len > limit;
    let resp_payload = if encode_side { b"r".to_vec() } else { payload_of(len, 9) };
    let rp = resp_payload.clone();
    let ch = MockChannel::new(move |_rec| {
        let mut headers = http::HeaderMap::new();
        headers.insert("content-type", http::HeaderValue::from_static("application/grpc"));
        Reply { status: 200, headers, steps: vec![BodyStep::Data(Bytes::from(wire::frame(0, &rp))), BodyStep::Trailers(ok_trailers())] }
    });
    let log = ch.log.clone();
    let mut client = vt::raw_client::RawClient::new(ch);
    client = if encode_side { client.max_encoding_message_size(limit) } else { client.max_decoding_message_size(limit) };
    // the limit of the *other* direction is set to a different value: the two must not be confused
    if let Some(ol) = other_limit {
        client = if encode_side { client.max_decoding_message_size(ol) } else { client.max_encoding_message_size(ol) };
    }
    o.label_if(via_clone, "plumbed_client_clone");
    let mut client = if via_clone { client.clone() } else { client };
    let req_payload = if encode_side { payload_of(len, 4) } else { b"q".to_vec() };
    o.label_if(stream, "plumbed_client_streaming_request");
    let r = crate::infra::driver::block_on_budget(512, async move {
        if stream {
            // iterator-backed request stream: a small message, then the probe as the LAST item
            client.client_stream(tokio_stream::iter(vec![b"s".to_vec(), req_payload])).await
        } else {
            client.unary(tonic::Request::new(req_payload)).await
        }
    });
    let r = match r {
        Ok(r) => r,
        Err(_) => bail!("C06/plumbed-client-stuck", "client call did not complete"),
    };
    if over {
        match r {
            Err(s) => ensure!(s.code() == Code::OutOfRange, "C06/client-limit-wrong-code", "client limit {limit}, message {len}: {:?}", s.code()),
            Ok(_) => bail!(if encode_side { "C06/encoding-limit-not-plumbed" } else { "C06/decoding-limit-not-plumbed" }, "client limit {limit} did not refuse a {len}-byte message"),
        }
        if encode_side {
            let l = log.lock().unwrap();
            let sent: usize = l.iter().map(|r| wire::parse_frames(&r.body()).0.len()).sum();
            ensure!(sent <= stream as usize, "C06/oversize-message-sent", "oversized request message was put on the wire ({sent} frames)");
        }
    } else {
        match r {
            Ok(resp) => ensure!(*resp.get_ref() == resp_payload, "C06/plumbed-client-payload", "response payload altered"),
            Err(s) => bail!(if encode_side { "C06/encoding-limit-too-strict" } else { "C06/decoding-limit-too-strict" }, "client limit {limit}, message {len}: {s:?}"),
        }
    }
    Ok(())
}

pub fn run(c: &Case, o: &mut Outcome) -> Result<(), Failure> {
    match c {
        Case::Decode { response, limit, pre, declared, with_payload, sizes, pend } => {
            o.label("decode");
            run_decode(*response, *limit, pre, declared, *with_payload, sizes, pend, o)
        }
        Case::Bomb { response, limit, enc, factor, sizes } => run_bomb(*response, *limit, *enc, *factor, sizes, o),
        Case::Encode { server, limit, buffer_size, yield_threshold, pre, over_by, post, src_pend, enc } => {
            o.label("encode");
            run_encode(*server, *limit, *buffer_size, *yield_threshold, pre, *over_by, *post, src_pend, *enc, o)
        }
        Case::EncodeHuge { server, pre, pend_before } => run_encode_huge(*server, *pre, *pend_before, o),
        Case::EncoderRefuses { server, pre, pend_before } => run_encoder_refuses(*server, *pre, *pend_before, o),
        Case::PlumbedServer { limit, delta, encode_side, sized, stream } => run_plumbed_server(*limit, *delta, *encode_side, *sized, *stream, o),
        Case::PlumbedClient { limit, delta, encode_side, via_clone, other_limit, stream } => run_plumbed_client(*limit, *delta, *encode_side, *via_clone, *other_limit, *stream, o),
    }
}

pub struct C06;
impl Prop for C06 {
    const ID: &'static str = "C06";
    type Case = Case;
    fn strategy() -> BoxedStrategy<Case> {
        strategy()
    }
    fn run(c: &Case, o: &mut Outcome) -> Result<(), Failure> {
        run(c, o)
    }
    fn rule() -> &'static str {
        "proptest + enumerated boundary cases. Decode: Streaming::new_request/new_response with limit L in {default 4 MiB, 0, 1, 5, 100, 4096, 65536}; 0-3 acceptable earlier messages (sizes L, L-1, small) then a probe frame declaring L-1, L, L+1, L+k, 2L+2, 2^31, 2^32-1, 64 MiB or a random huge value, either with its payload (<= 8 MiB) and a following message, or with nothing following and the body left Pending; any chunking with a cut right after the prefix. Oracle: accepted iff declared <= L; refusal is OUT_OF_RANGE produced on the poll that delivered the prefix (never Pending), earlier messages intact, nothing afterwards; for declared >= 64 MiB the counting global allocator saw no single request >= declared/2. Compressed frames whose wire length is <= L but which decompress to up to 20 L must be accepted. Encode: EncodeBody both roles with limit L, a message of encoded size L+1 (or L+k) at position p after p acceptable messages ready in the same batch or flushed earlier, with further messages behind it; oracle: exactly the p earlier messages, in order, in whole frames before the OUT_OF_RANGE status (trailers for a server, body error for a client), nothing from position >= p, no DATA after the status. A 2^32+1-byte message (encoder that reserves without touching) must give RESOURCE_EXHAUSTED with the same guarantees. Plumbing: max_{en,de}coding_message_size on generated client and server at L-1, L, L+1. Non-trivial: oversize with an earlier message in the same batch / before it, or declared-but-absent payload. Also: request bodies with an exact size_hint (as hyper reports for content-length) at L-6..L+1 through the generated server. The generated-server probe uses all four handlers (unary, server-streaming, client-streaming, bidi) and always sets the other direction's limit to 2L+64. Every fifth generated-server probe configures a limit of 2^32 + L. EncoderRefuses probe (the codec fails one message after writing part of it); a third of the decode-side server probes configure only the decoding limit and answer with L + 100 bytes; every fifth client probe configures 2^32 + L."
    }
    fn assumptions() -> Vec<String> {
        vec![
            "limits apply to the on-the-wire payload length (compressed length when compression is on), as the statement says".into(),
            "the 4 GiB case relies on untouched reserved pages not being committed; it is skipped (and labelled) if 4 GiB of address space cannot be reserved".into(),
        ]
    }
    fn cases(t: Tier) -> u64 {
        match t {
            Tier::Quick => 32_000,
            Tier::Thorough => 200_000,
        }
    }
    fn fixed_cases(_t: Tier) -> Vec<Case> {
        let mut v = vec![];
        for server in [true, false] {
            for (pre, pend) in [(0u8, 0u8), (1, 0), (2, 0), (1, 1)] {
                v.push(Case::EncodeHuge { server, pre, pend_before: pend });
                v.push(Case::EncoderRefuses { server, pre, pend_before: pend });
            }
        }
        // exact boundaries at the default limit, with payload present
        for response in [true, false] {
            for delta in [-1i64, 0, 1] {
                v.push(Case::Decode { response, limit: None, pre: vec![7], declared: Declared::Rel(delta), with_payload: true, sizes: vec![9000, 9000], pend: vec![0] });
            }
        }
        for limit in [5usize, 100, 4096] {
            for delta in [-1i64, 0, 1] {
                for encode_side in [true, false] {
                    for sized in [false, true] {
                        for stream in [false, true] {
                            v.push(Case::PlumbedServer { limit, delta, encode_side, sized, stream });
                        }
                    }
                    for via_clone in [false, true] {
                        v.push(Case::PlumbedClient { limit, delta, encode_side, via_clone, other_limit: Some(limit * 8 + 3), stream: false });
                        if encode_side {
                            v.push(Case::PlumbedClient { limit, delta, encode_side, via_clone, other_limit: None, stream: true });
                        }
                    }
                }
            }
        }
        v
    }
    fn max_shrink_iters() -> u32 {
        1500
    }
}
