//! C16 – the grpc-web server layer translates requests and responses losslessly.
//!
//! `tonic_web::GrpcWebLayer` is wrapped around a scripted inner tower service. The inner service
//! records the request it is handed (parts + body, drained afterwards by the harness poll loop)
//! and answers with a scripted gRPC response (DATA chunks with `Pending`s, then trailers – or a
//! trailers-only response). Everything the layer emits is judged by decoders written for the
//! harness (`infra::wire`): gRPC framing, per-quantum base64, the grpc-web trailer block.
use crate::infra::blob::{blob_len, hex, Blob};
use crate::infra::codec_drv::cut;
use crate::infra::driver::poll_budget;
use crate::infra::gen;
use crate::infra::md::{self, MdEntry};
use crate::infra::runner::*;
use crate::infra::script::{BodyStep, ScriptBody};
use crate::infra::wire;
use crate::{bail, ensure};
use bytes::Bytes;
use http::{HeaderMap, HeaderName, HeaderValue, Method, Request, Response, Version};
use http_body::{Body, Frame};
use proptest::prelude::*;
use serde::{Deserialize, Serialize};
use std::convert::Infallible;
use std::future::Future;
use std::pin::Pin;
use std::sync::atomic::{AtomicUsize, Ordering};
use std::sync::{Arc, Mutex};
use std::task::{Context, Poll};
use tonic::body::Body as TBody;
use tower_layer::Layer;
use tower_service::Service;

// ------------------------------------------------------------------ the (method, version, content-type) table

pub const METHODS: [&str; 10] = ["POST", "GET", "PUT", "DELETE", "HEAD", "OPTIONS", "PATCH", "CONNECT", "TRACE", "FOO"];
/// index -> version; 0..=2 are the versions the statement speaks about
pub const VERSIONS: [&str; 5] = ["HTTP/1.1", "HTTP/2", "HTTP/1.0", "HTTP/0.9", "HTTP/3"];
/// 0..=3: the four grpc-web content-types (0,1 binary; 2,3 text); the rest is "anything else"
pub const CONTENT_TYPES: [Option<&str>; 14] = [
    Some("application/grpc-web"),
    Some("application/grpc-web+proto"),
    Some("application/grpc-web-text"),
    Some("application/grpc-web-text+proto"),
    Some("application/grpc"),
    Some("application/grpc+proto"),
    Some("application/json"),
    Some("text/plain"),
    Some("application/octet-stream"),
    None,
    // 10..=13: letter-case variants of grpc-web types (10, 11 text; 12, 13 binary). Media types are
    // case-insensitive, tonic matches them exactly: either reading is fine, but it must be consistent
    Some("application/grpc-web-Text"),
    Some("Application/Grpc-Web-Text+Proto"),
    Some("application/GRPC-WEB"),
    Some("application/grpc-Web+proto"),
];
pub const PASS_STATUS: [u16; 5] = [200, 204, 404, 415, 500];

fn version_of(i: u8) -> Version {
    match i {
        0 => Version::HTTP_11,
        1 => Version::HTTP_2,
        2 => Version::HTTP_10,
        3 => Version::HTTP_09,
        _ => Version::HTTP_3,
    }
}

#[derive(Clone, Copy, Debug, PartialEq, Eq)]
pub enum Expect {
    /// POST + grpc-web content-type: translate both ways
    Translate,
    /// grpc-web content-type, any other method
    MethodNotAllowed,
    /// not grpc-web, HTTP/1.0 or HTTP/1.1
    BadRequest,
    /// not grpc-web, HTTP/2
    PassThrough,
    /// not grpc-web over HTTP/0.9 or HTTP/3: the statement is silent
    Unspecified,
}

/// The table as the property statement words it (not read from tonic).
pub fn expect(method: u8, version: u8, ct: u8) -> Expect {
    if ct <= 3 {
        if METHODS[method as usize] == "POST" {
            Expect::Translate
        } else {
            Expect::MethodNotAllowed
        }
    } else {
        match version {
            1 => Expect::PassThrough,
            0 | 2 => Expect::BadRequest,
            _ => Expect::Unspecified,
        }
    }
}

// ------------------------------------------------------------------ case

#[derive(Clone, Debug, Serialize, Deserialize)]
pub struct Stream {
    /// (flag, payload) gRPC message frames
    pub msgs: Vec<(u8, Blob)>,
    /// when set, the gRPC byte stream is these raw bytes instead of `msgs` (request side only)
    pub raw: Option<Blob>,
    /// sequential chunk sizes (0 = empty DATA frame), rest in one chunk
    pub sizes: Vec<u16>,
    /// targeted cuts: (unit selector, offset selector) – inside a frame prefix, or (text request)
    /// inside a base64 quantum
    pub cuts: Vec<(u16, u8)>,
    /// cycled: spurious Pendings before each chunk
    pub pend: Vec<u8>,
}

#[derive(Clone, Debug, Serialize, Deserialize)]
pub struct Case {
    pub method: u8,
    pub version: u8,
    pub req_ct: u8,
    /// index into the four grpc-web content-types, used as the `accept` header
    pub accept: u8,
    pub path: String,
    pub req_md: Vec<MdEntry>,
    pub req: Stream,
    pub resp_md: Vec<MdEntry>,
    pub resp: Stream,
    /// trailers of the inner response (`-bin` values are raw bytes, sent as unpadded base64)
    pub trailers: Vec<MdEntry>,
    /// inner response is trailers-only: `trailers` go into the headers, the body is empty
    pub trailers_only: bool,
    /// spurious Pendings of the inner service's future
    pub fut_pend: u8,
    /// 0: bodies never report `is_end_stream`; 1: scripted bodies report it exactly and the
    /// consumers stop at it (hyper's behaviour); 2: reported exactly, consumers poll to `None`
    pub eos: u8,
    /// pass-through rows: status of the inner response (index into PASS_STATUS)
    pub pass_status: u8,
}

// ------------------------------------------------------------------ generator

fn msg_len() -> BoxedStrategy<u32> {
    prop_oneof![
        2 => Just(0u32),
        6 => 1u32..=16,
        6 => 0u32..=300,
        1 => 300u32..=20 * 1024,
    ]
    .boxed()
}

fn stream(max_msgs: usize, allow_raw: bool) -> BoxedStrategy<Stream> {
    let raw: BoxedStrategy<Option<Blob>> = if allow_raw {
        prop_oneof![4 => Just(None), 1 => blob_len(prop_oneof![0u32..=12, 0u32..=200]).prop_map(Some)].boxed()
    } else {
        Just(None).boxed()
    };
    (
        proptest::collection::vec((prop_oneof![9 => Just(0u8), 1 => Just(1u8)], blob_len(msg_len())), 0..=max_msgs),
        raw,
        gen::chunk_sizes(24),
        proptest::collection::vec((any::<u16>(), any::<u8>()), 0..=3),
        gen::pend_pattern(4),
    )
        .prop_map(|(msgs, raw, sizes, cuts, pend)| Stream { msgs, raw, sizes, cuts, pend })
        .boxed()
}

/// percent-encoding of a grpc-message the way the gRPC spec describes it (generator side)
pub fn pct_encode(s: &str) -> Vec<u8> {
    let b = s.as_bytes();
    let mut out = vec![];
    for (i, &c) in b.iter().enumerate() {
        let edge_space = c == b' ' && (i == 0 || i + 1 == b.len());
        if (0x20..=0x7e).contains(&c) && c != b'%' && !edge_space {
            out.push(c);
        } else {
            out.extend_from_slice(format!("%{:02X}", c).as_bytes());
        }
    }
    out
}

const TRAILER_NAMES: &[&str] = &["x-a", "k", "k-bin", "trace-id", "a.b", "grpc-status-details-bin", "x-bin", "zz-top"];

fn trailer_entry() -> BoxedStrategy<MdEntry> {
    let name = prop_oneof![
        5 => proptest::sample::select(TRAILER_NAMES).prop_map(|s| s.to_string()),
        2 => md::name(false),
    ];
    name.prop_flat_map(|n| {
        let v: BoxedStrategy<Vec<u8>> = if n.ends_with("-bin") {
            proptest::collection::vec(any::<u8>(), 0..=20).boxed()
        } else {
            md::ascii_value(true)
        };
        v.prop_map(move |v| MdEntry { name: n.clone(), val: hex(&v) })
    })
    .boxed()
}

fn trailers() -> BoxedStrategy<Vec<MdEntry>> {
    let status = prop_oneof![
        8 => (0u8..=16).prop_map(|c| Some(c.to_string())),
        1 => Just(Some("0".to_string())),
        1 => Just(None),
    ];
    let message = prop_oneof![
        3 => Just(None),
        3 => gen::unicode_string(10).prop_map(Some),
    ];
    (status, message, proptest::collection::vec(trailer_entry(), 0..=5)).prop_map(|(st, msg, extra)| {
        let mut v = vec![];
        if let Some(s) = st {
            v.push(MdEntry { name: "grpc-status".into(), val: hex(s.as_bytes()) });
        }
        if let Some(m) = msg {
            v.push(MdEntry { name: "grpc-message".into(), val: hex(&pct_encode(&m)) });
        }
        v.extend(extra);
        v
    })
    .boxed()
}

fn path() -> BoxedStrategy<String> {
    prop_oneof![
        2 => Just("/vt.Test/Unary".to_string()),
        2 => "/[a-z]{1,6}\\.[A-Z][a-z]{0,5}/[A-Z][a-z]{0,6}".prop_map(|s| s),
        1 => Just("/".to_string()),
        1 => "/[a-z]{1,4}/[A-Za-z]{1,4}\\?[a-z]=[0-9]".prop_map(|s| s),
    ]
    .boxed()
}

/// (method, version, content-type) drawn by row kind so that every row kind has a fixed share
fn row() -> BoxedStrategy<(u8, u8, u8)> {
    prop_oneof![
        // translate
        16 => (Just(0u8), prop_oneof![4 => 0u8..=1, 1 => 2u8..=4], 0u8..=3),
        // 405
        1 => (1u8..=9, 0u8..=4, 0u8..=3),
        // 400
        1 => (0u8..=9, prop_oneof![Just(0u8), Just(2u8)], 4u8..=9),
        // pass-through
        2 => (0u8..=9, Just(1u8), 4u8..=9),
        // letter-case variants of the grpc-web content-types
        1 => (Just(0u8), 0u8..=2, 10u8..=13),
    ]
    .boxed()
}

pub fn strategy() -> BoxedStrategy<Case> {
    (
        row(),
        0u8..=3,
        path(),
        md::entries(3, false, false),
        stream(4, true),
        md::entries(3, false, false),
        stream(6, false),
        trailers(),
        proptest::bool::weighted(0.12),
        prop_oneof![4 => Just(0u8), 1 => 1u8..=3],
        prop_oneof![2 => Just(0u8), 1 => Just(1u8), 1 => Just(2u8)],
        0u8..PASS_STATUS.len() as u8,
    )
        .prop_map(
            |((method, version, req_ct), accept, path, req_md, req, resp_md, resp, trailers, trailers_only, fut_pend, eos, pass_status)| Case {
                method,
                version,
                req_ct,
                accept,
                path,
                req_md,
                req,
                resp_md,
                resp,
                trailers,
                trailers_only,
                fut_pend,
                eos,
                pass_status,
            },
        )
        .boxed()
}

// ------------------------------------------------------------------ scripted bodies, inner service

/// ScriptBody that can report `is_end_stream` exactly (true once the last scripted frame is out).
pub struct EosBody {
    inner: ScriptBody,
    left: usize,
    /// DATA bytes still to come: an accurate body also reports an exact `size_hint` (as a body with a known
    /// length does), which says nothing about trailers
    data_left: u64,
    accurate: bool,
}
impl EosBody {
    fn new(steps: Vec<BodyStep>, accurate: bool) -> Self {
        let left = steps.iter().filter(|s| !matches!(s, BodyStep::Pending)).count();
        let data_left = steps.iter().map(|s| if let BodyStep::Data(d) = s { d.len() as u64 } else { 0 }).sum();
        EosBody { inner: ScriptBody::new(steps), left, data_left, accurate }
    }
}
impl Body for EosBody {
    type Data = Bytes;
    type Error = tonic::Status;
    fn poll_frame(mut self: Pin<&mut Self>, cx: &mut Context<'_>) -> Poll<Option<Result<Frame<Bytes>, tonic::Status>>> {
        let r = Pin::new(&mut self.inner).poll_frame(cx);
        if let Poll::Ready(Some(f)) = &r {
            self.left = self.left.saturating_sub(1);
            if let Ok(f) = f {
                if let Some(d) = f.data_ref() {
                    self.data_left = self.data_left.saturating_sub(d.len() as u64);
                }
            }
        }
        r
    }
    fn is_end_stream(&self) -> bool {
        self.accurate && self.left == 0
    }
    fn size_hint(&self) -> http_body::SizeHint {
        if self.accurate {
            http_body::SizeHint::with_exact(self.data_left)
        } else {
            http_body::SizeHint::default()
        }
    }
}

fn steps_of(chunks: &[Vec<u8>], pend: &[u8], trailers: Option<HeaderMap>) -> Vec<BodyStep> {
    crate::infra::codec_drv::body_steps(chunks, pend, trailers)
}

struct ScriptFut {
    pend: u8,
    resp: Option<Response<EosBody>>,
}
impl Future for ScriptFut {
    type Output = Result<Response<EosBody>, Infallible>;
    fn poll(mut self: Pin<&mut Self>, cx: &mut Context<'_>) -> Poll<Self::Output> {
        if self.pend > 0 {
            self.pend -= 1;
            cx.waker().wake_by_ref();
            return Poll::Pending;
        }
        Poll::Ready(Ok(self.resp.take().expect("inner future polled after completion")))
    }
}

#[derive(Clone)]
struct Inner {
    seen: Arc<Mutex<Option<Request<TBody>>>>,
    resp: Arc<Mutex<Option<Response<EosBody>>>>,
    calls: Arc<AtomicUsize>,
    fut_pend: u8,
}
impl Service<Request<TBody>> for Inner {
    type Response = Response<EosBody>;
    type Error = Infallible;
    type Future = ScriptFut;
    fn poll_ready(&mut self, _: &mut Context<'_>) -> Poll<Result<(), Infallible>> {
        Poll::Ready(Ok(()))
    }
    fn call(&mut self, req: Request<TBody>) -> ScriptFut {
        self.calls.fetch_add(1, Ordering::Relaxed);
        *self.seen.lock().unwrap() = Some(req);
        ScriptFut { pend: self.fut_pend, resp: self.resp.lock().unwrap().take() }
    }
}

#[derive(Debug)]
enum Fr {
    Data(Vec<u8>),
    Trailers(HeaderMap),
    Err(String),
    Stuck,
    /// a frame was produced after the body had reported its end
    AfterEnd,
}

/// Drains a body under the poll budget. `honor_eos`: stop as soon as `is_end_stream()` (hyper).
fn drain<B>(body: B, budget: usize, honor_eos: bool) -> Vec<Fr>
where
    B: Body<Data = Bytes>,
    B::Error: std::fmt::Debug,
{
    let mut body = Box::pin(body);
    let mut out = vec![];
    loop {
        if honor_eos && body.is_end_stream() {
            return out;
        }
        match poll_budget(budget, |cx| body.as_mut().poll_frame(cx)) {
            Err(_) => {
                out.push(Fr::Stuck);
                return out;
            }
            Ok(None) => break,
            Ok(Some(Err(e))) => {
                out.push(Fr::Err(format!("{e:?}")));
                return out;
            }
            Ok(Some(Ok(f))) => {
                if f.is_data() {
                    out.push(Fr::Data(f.into_data().unwrap().to_vec()));
                } else if f.is_trailers() {
                    out.push(Fr::Trailers(f.into_trailers().unwrap()));
                } else {
                    out.push(Fr::Err("frame that is neither data nor trailers".into()));
                    return out;
                }
            }
        }
    }
    // the end must be the end: two more polls must not produce anything
    for _ in 0..2 {
        match poll_budget(budget, |cx| body.as_mut().poll_frame(cx)) {
            Ok(None) => {}
            Ok(Some(_)) => {
                out.push(Fr::AfterEnd);
                return out;
            }
            Err(_) => {
                out.push(Fr::Stuck);
                return out;
            }
        }
    }
    out
}

// ------------------------------------------------------------------ helpers

/// wire value of an entry: `-bin` entries as unpadded base64 of the raw bytes
fn hv(e: &MdEntry) -> Vec<u8> {
    if e.is_bin() {
        wire::b64_encode(&e.bytes(), false).into_bytes()
    } else {
        e.bytes()
    }
}

fn header_map(es: &[MdEntry]) -> HeaderMap {
    let mut h = HeaderMap::new();
    for e in es {
        h.append(
            HeaderName::from_bytes(e.name.as_bytes()).expect("generated header name"),
            HeaderValue::from_bytes(&hv(e)).expect("generated header value"),
        );
    }
    h
}

/// name -> ordered wire values
fn multimap(es: &[MdEntry]) -> Vec<(String, Vec<Vec<u8>>)> {
    let mut out: Vec<(String, Vec<Vec<u8>>)> = vec![];
    for e in es {
        let n = e.name.to_ascii_lowercase();
        if let Some(x) = out.iter_mut().find(|x| x.0 == n) {
            x.1.push(hv(e));
        } else {
            out.push((n, vec![hv(e)]));
        }
    }
    out
}

fn headers_carry(h: &HeaderMap, es: &[MdEntry]) -> Result<(), String> {
    for (name, vals) in multimap(es) {
        let got: Vec<Vec<u8>> = h.get_all(name.as_str()).iter().map(|v| v.as_bytes().to_vec()).collect();
        if got != vals {
            return Err(format!(
                "{name:?}: expected values {:?}, found {:?}",
                vals.iter().map(|v| String::from_utf8_lossy(v).into_owned()).collect::<Vec<_>>(),
                got.iter().map(|v| String::from_utf8_lossy(v).into_owned()).collect::<Vec<_>>()
            ));
        }
    }
    Ok(())
}

struct Built {
    /// the gRPC byte stream
    grpc: Vec<u8>,
    /// (offset, payload length) of every frame in `grpc` (empty for raw streams)
    frames: Vec<(usize, usize)>,
}

fn build(s: &Stream, allow_raw: bool) -> Built {
    if allow_raw {
        if let Some(r) = &s.raw {
            return Built { grpc: r.bytes(), frames: vec![] };
        }
    }
    let mut grpc = vec![];
    let mut frames = vec![];
    for (flag, p) in &s.msgs {
        let p = p.bytes();
        frames.push((grpc.len(), p.len()));
        grpc.extend(wire::frame(*flag, &p));
    }
    Built { grpc, frames }
}

/// chunking of `wire_bytes`; targeted cuts go inside frame prefixes (`quanta == false`, positions
/// in gRPC byte space = wire space) or inside base64 quanta (`quanta == true`)
fn chunking(s: &Stream, b: &Built, wire_bytes: &[u8], quanta: bool) -> Vec<Vec<u8>> {
    let mut extra = vec![];
    for (sel, off) in &s.cuts {
        if quanta {
            let nq = wire_bytes.len() / 4;
            if nq > 0 {
                extra.push(4 * gen::pick(*sel, nq) + 1 + (*off as usize % 3));
            }
        } else if !b.frames.is_empty() {
            let f = b.frames[gen::pick(*sel, b.frames.len())];
            extra.push(f.0 + 1 + (*off as usize % 4));
        }
    }
    cut(wire_bytes, &s.sizes, &extra)
}

/// chunk boundaries strictly inside the byte stream
fn boundaries(chunks: &[Vec<u8>]) -> Vec<usize> {
    let total: usize = chunks.iter().map(|c| c.len()).sum();
    let mut pos = 0;
    let mut out = vec![];
    for c in chunks {
        pos += c.len();
        if pos > 0 && pos < total && !c.is_empty() {
            out.push(pos);
        }
    }
    out
}

fn cut_in_prefix(bounds: &[usize], frames: &[(usize, usize)]) -> bool {
    bounds.iter().any(|p| frames.iter().any(|f| *p > f.0 && *p < f.0 + 5))
}

fn pend_sum(s: &Stream, chunks: usize) -> usize {
    if s.pend.is_empty() {
        0
    } else {
        (0..=chunks).map(|i| s.pend[i % s.pend.len()] as usize).sum()
    }
}

fn concat_data(frames: &[Fr]) -> Vec<u8> {
    let mut v = vec![];
    for f in frames {
        if let Fr::Data(d) = f {
            v.extend_from_slice(d);
        }
    }
    v
}

fn first_diff(a: &[u8], b: &[u8]) -> String {
    match a.iter().zip(b.iter()).position(|(x, y)| x != y) {
        Some(i) => format!("first difference at byte {i}"),
        None => format!("one is a prefix of the other ({} vs {} bytes)", a.len(), b.len()),
    }
}

// ------------------------------------------------------------------ run

/// A content-type that differs from a grpc-web one only in letter case. Two readings are consistent with
/// the statement: (A) "not grpc-web" - 400 on HTTP/1, untouched pass-through on HTTP/2; (B) "grpc-web" - the
/// full translation of the matching mode. Rewriting the content-type without translating the body is neither.
fn run_case_variant(c: &Case, o: &mut Outcome) -> Result<(), Failure> {
    o.label("row_content_type_case_variant");
    o.nontrivial = true;
    let text = c.req_ct <= 11;
    let rb = build(&c.req, true);
    let req_wire: Vec<u8> = if text { wire::b64_encode(&rb.grpc, true).into_bytes() } else { rb.grpc.clone() };
    let req_body = EosBody::new(steps_of(&[req_wire.clone()], &[], None), false);
    let ct = CONTENT_TYPES[c.req_ct as usize].unwrap();
    let req = Request::builder().method(Method::POST).version(version_of(c.version)).uri(c.path.as_str()).header("content-type", ct).body(req_body).expect("request");
    let resp_body = EosBody::new(steps_of(&[], &[], Some(header_map(&c.trailers))), false);
    let mut inner_resp = Response::builder().status(200).body(resp_body).unwrap();
    inner_resp.headers_mut().insert("content-type", HeaderValue::from_static("application/grpc"));
    let inner = Inner { seen: Arc::new(Mutex::new(None)), resp: Arc::new(Mutex::new(Some(inner_resp))), calls: Arc::new(AtomicUsize::new(0)), fut_pend: 0 };
    let mut svc = tonic_web::GrpcWebLayer::new().layer(inner.clone());
    let _ = poll_budget(4, |cx| <tonic_web::GrpcWebService<Inner> as Service<Request<EosBody>>>::poll_ready(&mut svc, cx));
    let mut fut = Box::pin(svc.call(req));
    let resp = match poll_budget(16, |cx| fut.as_mut().poll(cx)) {
        Err(_) => bail!("C16/response-future-stuck", "response future did not complete (content-type {ct:?})"),
        Ok(Err(e)) => match e {},
        Ok(Ok(r)) => r,
    };
    drop(fut);
    let calls = inner.calls.load(Ordering::Relaxed);
    let seen = inner.seen.lock().unwrap().take();
    if calls == 0 {
        // reading (A) on HTTP/1: refused
        ensure!(c.version != 1 && resp.status().as_u16() == 400, "C16/content-type-case-variant-inconsistent", "content-type {ct:?} over {}: inner service not called, answered {}", VERSIONS[c.version as usize], resp.status());
        return Ok(());
    }
    let (parts, body) = seen.expect("inner request recorded").into_parts();
    let got: Vec<u8> = drain(body, 64, false).into_iter().filter_map(|f| if let Fr::Data(d) = f { Some(d) } else { None }).flatten().collect();
    let seen_ct: Vec<Vec<u8>> = parts.headers.get_all("content-type").iter().map(|v| v.as_bytes().to_vec()).collect();
    let untouched = seen_ct == vec![ct.as_bytes().to_vec()] && got == req_wire;
    let translated = seen_ct == vec![b"application/grpc".to_vec()] && got == rb.grpc;
    o.label_if(untouched, "case_variant_passed_through");
    o.label_if(translated, "case_variant_translated");
    ensure!(
        (untouched && c.version == 1) || translated,
        "C16/content-type-case-variant-inconsistent",
        "content-type {ct:?} over {}: the inner service saw content-type {:?} and {} body bytes - neither the untouched request ({} bytes) nor the translated gRPC bytes ({} bytes)",
        VERSIONS[c.version as usize],
        seen_ct.iter().map(|v| String::from_utf8_lossy(v).into_owned()).collect::<Vec<_>>(),
        got.len(),
        req_wire.len(),
        rb.grpc.len()
    );
    Ok(())
}

pub fn run(c: &Case, o: &mut Outcome) -> Result<(), Failure> {
    if c.req_ct >= 10 {
        return run_case_variant(c, o);
    }
    let exp = expect(c.method, c.version, c.req_ct);
    let accurate = c.eos != 0;
    let honor = c.eos == 1;
    o.label_if(c.eos == 1, "eos_exact_consumer_stops");
    o.label_if(c.eos == 2, "eos_exact_consumer_drains");

    // ---- request
    let translate = exp == Expect::Translate;
    let req_text = translate && c.req_ct >= 2;
    let rb = build(&c.req, true);
    let req_wire: Vec<u8> = if req_text { wire::b64_encode(&rb.grpc, true).into_bytes() } else { rb.grpc.clone() };
    let req_chunks = chunking(&c.req, &rb, &req_wire, req_text);
    let req_bounds = boundaries(&req_chunks);
    let req_body = EosBody::new(steps_of(&req_chunks, &c.req.pend, None), accurate);
    let req_probe = req_body.inner.probe.clone();

    let mut builder = Request::builder()
        .method(Method::from_bytes(METHODS[c.method as usize].as_bytes()).unwrap())
        .version(version_of(c.version))
        .uri(c.path.as_str());
    if let Some(ct) = CONTENT_TYPES[c.req_ct as usize] {
        builder = builder.header("content-type", ct);
    }
    builder = builder.header("accept", CONTENT_TYPES[(c.accept % 4) as usize].unwrap());
    let mut req = builder.body(req_body).expect("request");
    for (k, v) in header_map(&c.req_md).iter() {
        req.headers_mut().append(k.clone(), v.clone());
    }
    // the caller's compression offer (or its absence) is the caller's business
    let offer: Option<&'static str> = match c.req_md.len() % 3 {
        0 => Some("gzip"),
        1 => None,
        _ => Some("identity"),
    };
    if let Some(v) = offer {
        req.headers_mut().insert("grpc-accept-encoding", http::HeaderValue::from_static(v));
    }
    let sent_headers = req.headers().clone();
    let sent_uri = req.uri().clone();

    // ---- scripted inner response
    let resp_text = (c.accept % 4) >= 2;
    let sb = build(&c.resp, false);
    let resp_chunks = if c.trailers_only { vec![] } else { chunking(&c.resp, &sb, &sb.grpc, false) };
    let resp_bounds = boundaries(&resp_chunks);
    let trailer_map = header_map(&c.trailers);
    let resp_steps = if c.trailers_only { vec![] } else { steps_of(&resp_chunks, &c.resp.pend, Some(trailer_map.clone())) };
    let resp_body = EosBody::new(resp_steps, accurate);
    let resp_probe = resp_body.inner.probe.clone();
    let status = if translate { 200 } else { PASS_STATUS[c.pass_status as usize % PASS_STATUS.len()] };
    let mut inner_resp = Response::builder().status(status).body(resp_body).unwrap();
    inner_resp.headers_mut().insert("content-type", HeaderValue::from_static("application/grpc"));
    for (k, v) in header_map(&c.resp_md).iter() {
        inner_resp.headers_mut().append(k.clone(), v.clone());
    }
    if c.trailers_only {
        for (k, v) in trailer_map.iter() {
            inner_resp.headers_mut().append(k.clone(), v.clone());
        }
    }
    let inner_headers = inner_resp.headers().clone();

    let inner = Inner {
        seen: Arc::new(Mutex::new(None)),
        resp: Arc::new(Mutex::new(Some(inner_resp))),
        calls: Arc::new(AtomicUsize::new(0)),
        fut_pend: c.fut_pend,
    };
    let mut svc = tonic_web::GrpcWebLayer::new().layer(inner.clone());

    // ---- call
    match poll_budget(4, |cx| <tonic_web::GrpcWebService<Inner> as Service<Request<EosBody>>>::poll_ready(&mut svc, cx)) {
        Ok(Ok(())) => {}
        _ => bail!("C16/not-ready", "GrpcWebService::poll_ready is not ready although the inner service is"),
    }
    let mut fut = Box::pin(svc.call(req));
    let resp = match poll_budget(8 + c.fut_pend as usize, |cx| fut.as_mut().poll(cx)) {
        Err(_) => bail!("C16/response-future-stuck", "response future did not complete within the poll budget ({:?})", exp),
        Ok(Err(e)) => match e {},
        Ok(Ok(r)) => r,
    };
    drop(fut);
    let calls = inner.calls.load(Ordering::Relaxed);
    let seen = inner.seen.lock().unwrap().take();

    // labels common to all rows
    o.label_if(c.fut_pend > 0, "inner_future_pending");
    o.label_if(c.version == 0 || c.version == 2, "http1");
    o.label_if(c.version == 1, "http2");

    match exp {
        Expect::Unspecified => {
            o.label("row_unspecified");
            return Ok(());
        }
        Expect::MethodNotAllowed | Expect::BadRequest => {
            let want = if exp == Expect::MethodNotAllowed { 405 } else { 400 };
            o.label(if want == 405 { "row_405" } else { "row_400" });
            ensure!(
                resp.status().as_u16() == want,
                format!("C16/table-{want}"),
                "{} {} content-type {:?}: expected HTTP {want}, got {}",
                METHODS[c.method as usize],
                VERSIONS[c.version as usize],
                CONTENT_TYPES[c.req_ct as usize],
                resp.status()
            );
            ensure!(
                calls == 0,
                format!("C16/table-{want}-inner-called"),
                "the inner service was called {calls} times for a request answered with {want}"
            );
            return Ok(());
        }
        Expect::PassThrough => {
            o.label("row_passthrough");
            let budgets = (8 + pend_sum(&c.req, req_chunks.len()), 8 + pend_sum(&c.resp, resp_chunks.len()));
            return check_pass_through(c, o, resp, seen, calls, &rb, &sb, &sent_headers, &sent_uri, &inner_headers, &trailer_map, status, honor, budgets);
        }
        Expect::Translate => {}
    }

    // ================================================================= translation
    o.label(if req_text { "req_text" } else { "req_binary" });
    o.label(if resp_text { "resp_text" } else { "resp_binary" });
    ensure!(
        calls > 0,
        "C16/table-translate",
        "POST {} content-type {:?} was not handed to the inner service; answered with {}",
        VERSIONS[c.version as usize],
        CONTENT_TYPES[c.req_ct as usize],
        resp.status()
    );
    ensure!(calls == 1, "C16/inner-calls", "inner service called {calls} times for one grpc-web POST");
    let seen = seen.expect("inner request recorded");
    let (parts, seen_body) = seen.into_parts();

    // ---- request direction
    ensure!(
        parts.headers.get_all("content-type").iter().map(|v| v.as_bytes().to_vec()).collect::<Vec<_>>() == vec![b"application/grpc".to_vec()],
        "C16/request-content-type",
        "inner service saw content-type {:?}, expected exactly application/grpc",
        parts.headers.get_all("content-type").iter().collect::<Vec<_>>()
    );
    ensure!(parts.method == Method::POST, "C16/request-method", "inner service saw method {}", parts.method);
    ensure!(parts.uri == sent_uri, "C16/request-uri", "inner service saw URI {} instead of {}", parts.uri, sent_uri);
    if let Err(e) = headers_carry(&parts.headers, &c.req_md) {
        bail!("C16/request-metadata", "request metadata changed on the way to the inner service: {e}");
    }
    let seen_offer: Vec<Vec<u8>> = parts.headers.get_all("grpc-accept-encoding").iter().map(|v| v.as_bytes().to_vec()).collect();
    let want_offer: Vec<Vec<u8>> = offer.iter().map(|v| v.as_bytes().to_vec()).collect();
    ensure!(seen_offer == want_offer, "C16/request-metadata/compression-offer", "the caller sent grpc-accept-encoding {:?}, the inner service saw {:?}", offer, seen_offer.iter().map(|v| String::from_utf8_lossy(v).to_string()).collect::<Vec<_>>());
    let req_budget = 8 + pend_sum(&c.req, req_chunks.len());
    let got = drain(seen_body, req_budget, honor);
    let mode = if req_text { "text" } else { "binary" };
    for (i, f) in got.iter().enumerate() {
        match f {
            Fr::Data(_) => {}
            Fr::Stuck => bail!(format!("C16/request-body-stuck/{mode}"), "translated request body does not complete within {req_budget} polls (frame {i})"),
            Fr::Err(e) => bail!(
                format!("C16/request-body-error/{mode}"),
                "translated request body yields an error at frame {i} for a valid grpc-web request ({} wire bytes in {} chunks): {e}",
                req_wire.len(),
                req_chunks.len()
            ),
            Fr::Trailers(t) => bail!(format!("C16/request-body-trailers/{mode}"), "translated request body yields trailers {t:?} although none were sent"),
            Fr::AfterEnd => bail!(format!("C16/request-body-after-end/{mode}"), "translated request body yields a frame after its end"),
        }
    }
    let got_req = concat_data(&got);
    ensure!(
        got_req == rb.grpc,
        format!("C16/request-bytes/{mode}"),
        "inner service read {} bytes, the original gRPC request has {} ({}); chunk lengths {:?}",
        got_req.len(),
        rb.grpc.len(),
        first_diff(&got_req, &rb.grpc),
        req_chunks.iter().map(|c| c.len()).collect::<Vec<_>>()
    );
    let pae = req_probe.polls_after_end.load(Ordering::Relaxed);
    ensure!(pae <= 8, "C16/request-body-polled-after-end", "request body polled {pae} times after it ended");

    let req_cut_prefix = !req_text && cut_in_prefix(&req_bounds, &rb.frames);
    let req_cut_quantum = req_text && req_bounds.iter().any(|p| p % 4 != 0);
    o.label_if(req_cut_prefix, "req_cut_in_prefix");
    o.label_if(req_cut_quantum, "req_cut_in_quantum");
    o.label_if(req_text && req_bounds.iter().any(|p| *p + 4 > req_wire.len() && p % 4 != 0), "req_cut_in_padded_quantum");
    if req_text {
        o.label(match rb.grpc.len() % 3 {
            0 => "req_text_len%3=0",
            1 => "req_text_len%3=1",
            _ => "req_text_len%3=2",
        });
    }
    o.label_if(rb.grpc.is_empty(), "req_empty_body");
    o.label_if(c.req.raw.is_some(), "req_raw_bytes");
    o.label_if(req_chunks.iter().any(|c| c.is_empty()), "req_empty_chunk");
    o.label_if(pend_sum(&c.req, req_chunks.len()) > 0, "req_body_pending");

    // ---- response direction
    let rmode = if resp_text { "text" } else { "binary" };
    let ct: Vec<Vec<u8>> = resp.headers().get_all("content-type").iter().map(|v| v.as_bytes().to_vec()).collect();
    let ct_ok = ct.len() == 1
        && if resp_text {
            ct[0] == b"application/grpc-web-text+proto" || ct[0] == b"application/grpc-web-text"
        } else {
            ct[0] == b"application/grpc-web+proto" || ct[0] == b"application/grpc-web"
        };
    ensure!(
        ct_ok,
        format!("C16/response-content-type/{rmode}"),
        "accept {:?} answered with content-type {:?}",
        CONTENT_TYPES[(c.accept % 4) as usize],
        ct.iter().map(|v| String::from_utf8_lossy(v).into_owned()).collect::<Vec<_>>()
    );
    ensure!(resp.status().as_u16() == 200, "C16/response-status", "inner status 200 became {}", resp.status());
    // headers the inner response carries: its metadata, plus the status of a trailers-only response
    let mut inner_hdr_entries = c.resp_md.clone();
    if c.trailers_only {
        inner_hdr_entries.extend(c.trailers.iter().cloned());
    }
    let md_only: Vec<MdEntry> =
        c.resp_md.iter().filter(|e| !(c.trailers_only && c.trailers.iter().any(|t| t.name == e.name))).cloned().collect();
    if let Err(e) = headers_carry(resp.headers(), &md_only) {
        bail!("C16/response-metadata", "response headers of the inner service changed: {e}");
    }
    let (rparts, rbody) = resp.into_parts();
    let resp_budget = 8 + pend_sum(&c.resp, resp_chunks.len());
    let got = drain(rbody, resp_budget, honor);
    for (i, f) in got.iter().enumerate() {
        match f {
            Fr::Data(_) => {}
            Fr::Stuck => bail!(format!("C16/response-body-stuck/{rmode}"), "grpc-web response body does not complete within {resp_budget} polls (frame {i})"),
            Fr::Err(e) => bail!(format!("C16/response-body-error/{rmode}"), "grpc-web response body yields an error at frame {i}: {e}"),
            Fr::Trailers(t) => bail!(
                format!("C16/response-http-trailers/{rmode}"),
                "grpc-web response body yields HTTP trailers {t:?}; grpc-web carries trailers inside the body"
            ),
            Fr::AfterEnd => bail!(format!("C16/response-body-after-end/{rmode}"), "grpc-web response body yields a frame after its end"),
        }
    }
    let wire_resp = concat_data(&got);
    let decoded = if resp_text {
        match wire::b64_decode_quanta(&wire_resp) {
            Some(d) => d,
            None => bail!(
                "C16/response-not-base64",
                "text-mode response body ({} bytes) is not a sequence of base64 quanta: {:?}",
                wire_resp.len(),
                String::from_utf8_lossy(&wire_resp[..wire_resp.len().min(80)])
            ),
        }
    } else {
        wire_resp.clone()
    };
    let (frames, end) = wire::parse_frames(&decoded);
    ensure!(
        end == wire::ParseEnd::Clean,
        format!("C16/response-framing/{rmode}"),
        "decoded response body does not parse as length-prefixed frames: {end:?} after {} frames",
        frames.len()
    );
    let n_tr = frames.iter().filter(|f| f.flag & 0x80 != 0).count();
    let msg_frames: Vec<&wire::RefFrame> = frames.iter().filter(|f| f.flag & 0x80 == 0).collect();

    if c.trailers_only {
        o.label("trailers_only");
        ensure!(
            msg_frames.is_empty(),
            format!("C16/trailers-only-messages/{rmode}"),
            "trailers-only inner response produced {} message frames",
            msg_frames.len()
        );
        ensure!(n_tr <= 1, format!("C16/trailers-only-frames/{rmode}"), "{n_tr} trailers frames for a trailers-only response");
        // the status must be reported somewhere: in the response headers or in a trailers frame
        let in_headers = headers_carry(&rparts.headers, &inner_hdr_entries);
        let in_frame = if n_tr == 1 {
            let f = frames.iter().find(|f| f.flag & 0x80 != 0).unwrap();
            check_trailer_block(&f.payload, &c.trailers)
        } else {
            Err("no trailers frame".into())
        };
        ensure!(
            in_headers.is_ok() || in_frame.is_ok(),
            format!("C16/trailers-only-status-lost/{rmode}"),
            "trailers-only response: status neither in the headers ({}) nor in a trailers frame ({})",
            in_headers.err().unwrap_or_default(),
            in_frame.err().unwrap_or_default()
        );
        o.label(if n_tr == 1 { "trailers_only_as_frame" } else { "trailers_only_in_headers" });
        o.nontrivial = req_cut_prefix || req_cut_quantum;
        return Ok(());
    }

    let expected_msgs: Vec<(u8, Vec<u8>)> = c.resp.msgs.iter().map(|(f, p)| (*f, p.bytes())).collect();
    ensure!(
        msg_frames.len() == expected_msgs.len(),
        format!("C16/response-message-count/{rmode}"),
        "response decodes to {} message frames, the inner service sent {}",
        msg_frames.len(),
        expected_msgs.len()
    );
    for (i, (g, e)) in msg_frames.iter().zip(expected_msgs.iter()).enumerate() {
        ensure!(
            g.flag == e.0 && g.payload == e.1,
            format!("C16/response-message-bytes/{rmode}"),
            "message {i}: flag {} len {} differs from the original flag {} len {} ({})",
            g.flag,
            g.payload.len(),
            e.0,
            e.1.len(),
            first_diff(&g.payload, &e.1)
        );
    }
    ensure!(
        n_tr == 1,
        format!("C16/trailers-frame-count/{rmode}"),
        "response contains {n_tr} trailers frames (flag bit 0x80), expected exactly one; flags {:?}",
        frames.iter().map(|f| f.flag).collect::<Vec<_>>()
    );
    let last = frames.last().unwrap();
    ensure!(
        last.flag & 0x80 != 0,
        format!("C16/trailers-frame-not-last/{rmode}"),
        "the trailers frame is not the last frame; flags {:?}",
        frames.iter().map(|f| f.flag).collect::<Vec<_>>()
    );
    ensure!(last.flag == 0x80, format!("C16/trailers-frame-flag/{rmode}"), "trailers frame has flag {:#x}, expected 0x80", last.flag);
    if let Err(e) = check_trailer_block(&last.payload, &c.trailers) {
        let pred = if e.starts_with("missing") { "missing" } else { "value" };
        bail!(
            format!("C16/trailers-content/{pred}/{rmode}"),
            "trailers frame {:?} does not list the inner trailers: {e}",
            String::from_utf8_lossy(&last.payload)
        );
    }
    let pae = resp_probe.polls_after_end.load(Ordering::Relaxed);
    ensure!(pae <= 8, "C16/response-body-polled-after-end", "inner response body polled {pae} times after it ended");

    // ---- classes
    let resp_cut_prefix = cut_in_prefix(&resp_bounds, &sb.frames);
    o.label_if(resp_cut_prefix, "resp_cut_in_prefix");
    o.label_if(resp_bounds.iter().any(|p| sb.frames.iter().any(|f| *p > f.0 + 5 && *p < f.0 + 5 + f.1)), "resp_cut_in_payload");
    o.label_if(resp_text && resp_chunks.iter().take(resp_chunks.len().saturating_sub(1)).any(|c| c.len() % 3 != 0), "resp_midstream_padding");
    o.label_if(resp_chunks.iter().any(|c| c.is_empty()), "resp_empty_chunk");
    o.label_if(pend_sum(&c.resp, resp_chunks.len()) > 0, "resp_body_pending");
    o.label_if(c.resp.msgs.is_empty(), "resp_zero_messages");
    o.label_if(c.resp.msgs.iter().any(|m| m.1.len() > 300), "resp_msg>300");
    o.label_if(c.resp.msgs.iter().any(|m| m.0 == 1), "resp_compressed_flag");
    let mm = multimap(&c.trailers);
    o.label_if(c.trailers.len() >= 2, "trailers>=2");
    o.label_if(c.trailers.is_empty(), "trailers_empty_map");
    o.label_if(mm.iter().any(|x| x.1.len() > 1), "trailer_repeated_name");
    o.label_if(c.trailers.iter().any(|e| hv(e).contains(&b':')), "trailer_value_colon");
    o.label_if(c.trailers.iter().any(|e| hv(e).contains(&b' ')), "trailer_value_space");
    o.label_if(c.trailers.iter().any(|e| e.is_bin()), "trailer_bin");
    o.label_if(c.trailers.iter().any(|e| e.name == "grpc-message" && hv(e).contains(&b'%')), "trailer_pct_message");
    o.label_if(c.trailers.iter().any(|e| hv(e).iter().any(|b| *b >= 0x80)), "trailer_obs_text");
    o.label_if(c.trailers.iter().any(|e| hv(e).is_empty()), "trailer_empty_value");
    o.nontrivial = req_cut_prefix || req_cut_quantum || resp_cut_prefix || c.trailers.len() >= 2;
    Ok(())
}

/// Every expected trailer is listed: per (lower-cased) name the same values in the same order.
fn check_trailer_block(block: &[u8], expected: &[MdEntry]) -> Result<(), String> {
    let got = wire::parse_trailer_block(block).map_err(|e| format!("value: block does not parse: {e}"))?;
    for (name, vals) in multimap(expected) {
        let g: Vec<&Vec<u8>> = got.iter().filter(|x| x.0 == name).map(|x| &x.1).collect();
        if g.is_empty() {
            return Err(format!("missing trailer {name:?}"));
        }
        if g.len() != vals.len() || g.iter().zip(vals.iter()).any(|(a, b)| *a != b) {
            return Err(format!(
                "value: trailer {name:?} has values {:?}, expected {:?}",
                g.iter().map(|v| String::from_utf8_lossy(v).into_owned()).collect::<Vec<_>>(),
                vals.iter().map(|v| String::from_utf8_lossy(v).into_owned()).collect::<Vec<_>>()
            ));
        }
    }
    Ok(())
}

#[allow(clippy::too_many_arguments)]
fn check_pass_through(
    c: &Case,
    o: &mut Outcome,
    resp: Response<TBody>,
    seen: Option<Request<TBody>>,
    calls: usize,
    rb: &Built,
    sb: &Built,
    sent_headers: &HeaderMap,
    sent_uri: &http::Uri,
    inner_headers: &HeaderMap,
    trailer_map: &HeaderMap,
    status: u16,
    honor: bool,
    budgets: (usize, usize),
) -> Result<(), Failure> {
    ensure!(calls == 1, "C16/pass-inner-calls", "inner service called {calls} times for a non-grpc-web HTTP/2 request");
    let (parts, body) = seen.expect("inner request recorded").into_parts();
    ensure!(
        parts.method.as_str() == METHODS[c.method as usize],
        "C16/pass-method",
        "method {} became {}",
        METHODS[c.method as usize],
        parts.method
    );
    ensure!(parts.uri == *sent_uri, "C16/pass-uri", "URI {} became {}", sent_uri, parts.uri);
    ensure!(parts.version == Version::HTTP_2, "C16/pass-version", "version became {:?}", parts.version);
    ensure!(
        parts.headers == *sent_headers,
        "C16/pass-request-headers",
        "request headers changed: sent {:?}, inner service saw {:?}",
        sent_headers,
        parts.headers
    );
    let got = drain(body, budgets.0, honor);
    for f in &got {
        match f {
            Fr::Data(_) => {}
            other => bail!("C16/pass-request-body", "passed-through request body yields {other:?}"),
        }
    }
    let b = concat_data(&got);
    ensure!(b == rb.grpc, "C16/pass-request-bytes", "request body changed: {} vs {} bytes ({})", b.len(), rb.grpc.len(), first_diff(&b, &rb.grpc));

    ensure!(resp.status().as_u16() == status, "C16/pass-status", "inner status {status} became {}", resp.status());
    ensure!(
        resp.headers() == inner_headers,
        "C16/pass-response-headers",
        "response headers changed: inner {:?}, outer {:?}",
        inner_headers,
        resp.headers()
    );
    let got = drain(resp.into_body(), budgets.1, honor);
    let mut trailers_seen = 0;
    for (i, f) in got.iter().enumerate() {
        match f {
            Fr::Data(_) => ensure!(trailers_seen == 0, "C16/pass-response-body", "DATA after trailers in the passed-through response"),
            Fr::Trailers(t) => {
                ensure!(i == got.len() - 1, "C16/pass-response-body", "trailers are not the last frame");
                ensure!(t == trailer_map, "C16/pass-response-trailers", "trailers changed: inner {:?}, outer {:?}", trailer_map, t);
                trailers_seen += 1;
            }
            other => bail!("C16/pass-response-body", "passed-through response body yields {other:?}"),
        }
    }
    let b = concat_data(&got);
    if c.trailers_only {
        ensure!(b.is_empty() && trailers_seen == 0, "C16/pass-response-bytes", "empty inner body became {} bytes / {trailers_seen} trailers", b.len());
    } else {
        ensure!(b == sb.grpc, "C16/pass-response-bytes", "response body changed: {} vs {} bytes ({})", b.len(), sb.grpc.len(), first_diff(&b, &sb.grpc));
        ensure!(trailers_seen == 1, "C16/pass-response-trailers", "inner trailers were not passed through ({trailers_seen} trailers frames)");
    }
    o.label_if(CONTENT_TYPES[c.req_ct as usize] == Some("application/grpc"), "pass_native_grpc");
    Ok(())
}

// ------------------------------------------------------------------ enumerated table

fn canned(method: u8, version: u8, req_ct: u8, accept: u8) -> Case {
    Case {
        method,
        version,
        req_ct,
        accept,
        path: "/vt.Test/Unary".into(),
        req_md: vec![MdEntry { name: "x-a".into(), val: hex(b"1") }],
        req: Stream { msgs: vec![(0, Blob::of(b"\x0a\x02hi"))], raw: None, sizes: vec![3], cuts: vec![(0, 1)], pend: vec![0, 1] },
        resp_md: vec![MdEntry { name: "k".into(), val: hex(b"v") }],
        resp: Stream { msgs: vec![(0, Blob::of(b"\x0a\x03hey")), (0, Blob::of(b""))], raw: None, sizes: vec![7], cuts: vec![(40000, 2)], pend: vec![1, 0] },
        trailers: vec![
            MdEntry { name: "grpc-status".into(), val: hex(b"0") },
            MdEntry { name: "grpc-message".into(), val: hex(b"a b: c") },
        ],
        trailers_only: false,
        fut_pend: 1,
        eos: 0,
        pass_status: 0,
    }
}

pub fn fixed_cases() -> Vec<Case> {
    let mut v = vec![];
    for method in 0..METHODS.len() as u8 {
        for version in 0..VERSIONS.len() as u8 {
            for ct in 0..CONTENT_TYPES.len() as u8 {
                if expect(method, version, ct) == Expect::Unspecified {
                    continue;
                }
                // accept varies with the row so that all four values meet all four request types
                let accept = (method + version + ct) % 4;
                v.push(canned(method, version, ct, accept));
            }
        }
    }
    // POST x 4 content-types x 4 accepts, both HTTP versions, trailers-only as well
    for version in 0..=1u8 {
        for ct in 0..4u8 {
            for accept in 0..4u8 {
                for to in [false, true] {
                    let mut c = canned(0, version, ct, accept);
                    c.trailers_only = to;
                    v.push(c);
                }
            }
        }
    }
    v
}

// ------------------------------------------------------------------ fuzz decoding

/// Fuzz target `c16_web_request`: the base64 request path. Layout: [flags][n sizes][sizes...]
/// [pend x3][payload...]; the payload is the gRPC byte stream, sent as one padded base64 run.
pub fn from_bytes(data: &[u8]) -> Option<Case> {
    use arbitrary::Unstructured;
    let mut u = Unstructured::new(data);
    let flags: u8 = u.arbitrary().ok()?;
    let n = u.int_in_range(0usize..=24).ok()?;
    let mut sizes = vec![];
    for _ in 0..n {
        let b: u8 = u.arbitrary().ok()?;
        sizes.push(if b < 224 { (b % 8) as u16 } else { (b as u16 - 223) * 29 });
    }
    let pend: Vec<u8> = (0..3).map(|_| u.int_in_range(0u8..=2).unwrap_or(0)).collect();
    let nc = u.int_in_range(0usize..=2).ok()?;
    let cuts = (0..nc).map(|_| (u.arbitrary().unwrap_or(0), u.arbitrary().unwrap_or(0))).collect();
    let payload = u.take_rest();
    let mut c = canned(0, (flags >> 3) & 1, 2 + (flags & 1), (flags >> 1) & 3);
    c.eos = (flags >> 4) % 3;
    c.fut_pend = (flags >> 6) & 1;
    c.req = Stream { msgs: vec![], raw: Some(Blob::of(payload)), sizes, cuts, pend };
    Some(c)
}

pub struct C16;
impl Prop for C16 {
    const ID: &'static str = "C16";
    type Case = Case;
    fn strategy() -> BoxedStrategy<Case> {
        strategy()
    }
    fn run(c: &Case, o: &mut Outcome) -> Result<(), Failure> {
        run(c, o)
    }
    fn rule() -> &'static str {
        "proptest: tonic_web::GrpcWebLayer over a scripted inner tower service. Row kind (80% POST+grpc-web translate, 5% grpc-web non-POST, 5% non-grpc-web over HTTP/1.x, 10% non-grpc-web over HTTP/2) x request content-type (4 grpc-web / 6 others incl. absent) x accept (4 grpc-web types) x request gRPC stream (0-4 frames of size 0, 1-16, <=300, <=20KiB, or raw bytes; binary as is, text as ONE padded base64 run) x request chunking (sizes 0,1,2-5,<=100,<=9000 plus targeted cuts inside a frame prefix / inside a base64 quantum) x response stream (0-6 frames, flag 0/1) x response chunking (same, targeted cuts inside prefixes) x trailers (grpc-status, percent-encoded Unicode grpc-message, 0-5 further entries from a small name pool so that names repeat, values with ':' / inner spaces / obs-text / empty, -bin as unpadded base64; or empty map) or trailers-only (12%) x Pending patterns of both bodies and of the inner future x is_end_stream reporting (never / exact with a consumer that stops there / exact with a consumer that drains). Oracle: own table for 405/400/pass-through (identical method, URI, headers, body bytes, status, trailers); inner service sees content-type application/grpc, same URI/metadata and a body whose bytes equal the original gRPC stream, ending cleanly; response content-type matches the accept mode, body (text: per-quantum base64 decode) parses into the original message frames in order then exactly one frame with flag 0x80, last, whose name:value block lists every inner trailer (per name the same ordered values); trailers-only: zero messages and the trailers in the headers or in one trailers frame. Non-trivial: a chunk boundary strictly inside a 5-byte frame prefix (either direction) or inside a base64 quantum of a text request, or >=2 trailers; distinct = distinct serialised case. Bodies that report is_end_stream exactly also report an exact size_hint of the DATA bytes left (0 for a trailers-only body that still has trailers to give). The caller's grpc-accept-encoding (gzip / identity / absent) must reach the inner service unchanged."
    }
    fn assumptions() -> Vec<String> {
        vec![
            "a grpc-web-text request body is one padded base64 run of the whole gRPC body (what browsers send)".into(),
            "trailer values have no leading/trailing whitespace (HTTP strips it); header names are lower-case".into(),
            "non-grpc-web requests over HTTP/0.9 and HTTP/3 are not judged (the statement names HTTP/1 and HTTP/2 only)".into(),
            "accept is one of the four grpc-web content-types".into(),
        ]
    }
    fn cases(t: Tier) -> u64 {
        match t {
            Tier::Quick => 120_000,
            Tier::Thorough => 3_600_000,
        }
    }
    fn fixed_cases(_t: Tier) -> Vec<Case> {
        fixed_cases()
    }
    fn fixed_is_exhaustive() -> Option<&'static str> {
        Some("(method in POST,GET,PUT,DELETE,HEAD,OPTIONS,PATCH,CONNECT,TRACE,FOO) x (HTTP/1.0,1.1,2 and, for grpc-web content-types, 0.9 and 3) x (4 grpc-web content-types, application/grpc, application/grpc+proto, application/json, text/plain, application/octet-stream, absent) enumerated completely with a canned exchange; POST x 4 content-types x 4 accepts x {HTTP/1.1, HTTP/2} x {trailers, trailers-only}")
    }
    fn from_bytes(data: &[u8]) -> Option<Case> {
        from_bytes(data)
    }
    fn fuzz(t: Tier) -> Option<FuzzSpec> {
        match t {
            Tier::Quick => None,
            Tier::Thorough => Some(FuzzSpec { target: "c16_web_request", runs: 2_000_000, max_len: 2048 }),
        }
    }
}
