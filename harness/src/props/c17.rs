//! C17 – the grpc-web client layer recovers messages and full trailers under any chunking.
//!
//! `tonic_web::GrpcWebClientService` is wrapped around a scripted inner tower service. The inner
//! service records the request it is handed and answers with a scripted grpc-web response body
//! (`ScriptBody`: DATA chunks with `Pending`s, optional body error, busy-loop trip-wire). The body
//! bytes come from the harness' own grpc-web encoder (`wire::frame` + `wire::encode_trailer_block`),
//! optionally mutated / truncated, and are judged against a reference parse written here.
use crate::infra::blob::{blob_len, hex, Blob};
use crate::infra::codec_drv::{cut, drive_decode, DecEv};
use crate::infra::driver::{block_on_budget, poll_budget};
use crate::infra::gen;
use crate::infra::mock::{drain_body, Recorded};
use crate::infra::runner::*;
use crate::infra::script::{BodyProbe, BodyStep, ScriptBody, SegBody, POLL_AFTER_END_TRIP};
use crate::infra::wire;
use crate::svc::vt;
use crate::{bail, ensure};
use bytes::Bytes;
use http::{HeaderMap, HeaderValue, Request, Response};
use http_body::Body;
use proptest::prelude::*;
use serde::{Deserialize, Serialize};
use std::future::Future;
use std::panic::{catch_unwind, resume_unwind, AssertUnwindSafe};
use std::pin::Pin;
use std::sync::atomic::Ordering;
use std::sync::{Arc, Mutex};
use std::task::{Context, Poll};
use tonic::{Code, Status};
use tower_service::Service;

// ------------------------------------------------------------------ case

#[derive(Clone, Debug, Serialize, Deserialize, PartialEq, Eq)]
pub struct Tr {
    pub n: String,
    pub v: String,
}

#[derive(Clone, Debug, Serialize, Deserialize, PartialEq, Eq)]
pub enum Base {
    /// the whole body in one chunk
    One,
    /// one chunk per frame (what a tonic server emits)
    Frames,
    /// one chunk per frame, but the trailers frame rides in the chunk of the last message
    FramesJoint,
    /// all message frames in one chunk, the trailers frame in its own
    MsgsThenTrailers,
    /// one byte at a time
    Bytes,
    /// sequential chunk sizes (0 = empty DATA frame), rest in one chunk
    Sizes(Vec<u16>),
}

#[derive(Clone, Debug, Serialize, Deserialize, PartialEq, Eq)]
pub enum Cut {
    /// boundary 1 + off%4 bytes into the 5-byte header of frame `sel` (in body order)
    Header(u16, u8),
    /// boundary inside the payload of frame `sel` (before payload byte pick(pos))
    Payload(u16, u16),
    /// boundary 1 + off%4 bytes into the header of the trailers frame
    TrHeader(u8),
    /// boundary inside the payload of the trailers frame
    TrPayload(u16),
    /// boundary at an absolute offset
    At(u32),
}

#[derive(Clone, Debug, Serialize, Deserialize, PartialEq, Eq)]
pub enum LineMut {
    /// drop the colon (and value) of the line
    NoColon,
    /// put this byte into the middle of the name
    BadName(u8),
    /// put this byte into the middle of the value
    BadValue(u8),
    /// the last line of the block is not terminated by CRLF
    NoFinalCrlf,
    /// an empty line after this line
    EmptyLine,
}

#[derive(Clone, Debug, Serialize, Deserialize, PartialEq, Eq)]
pub enum Mutation {
    /// set the flag byte of frame `sel` (body order, trailers frame included)
    Flag(u16, u8),
    /// add `delta` to the declared length of frame `sel`
    Len(u16, i32),
    /// set the declared length of frame `sel`
    LenAbs(u16, u32),
    /// put the trailers frame before message `sel` instead of last
    MoveTrailers(u16),
    /// bytes appended after the last frame
    Append(Blob),
    /// malformation of trailer line `sel`
    Line(u16, LineMut),
    /// xor the byte at `sel` with `v`
    Corrupt(u16, u8),
}

#[derive(Clone, Copy, Debug, Serialize, Deserialize, PartialEq, Eq)]
pub enum Mode {
    /// poll the body returned by GrpcWebClientService directly
    Body,
    /// additionally run the same exchange through a generated client: server-streaming call
    Stream,
    /// additionally: unary call
    Unary,
}

#[derive(Clone, Debug, Serialize, Deserialize)]
pub struct Case {
    pub mode: Mode,
    /// message frames (flag, payload)
    pub msgs: Vec<(u8, Blob)>,
    /// trailer lines of the trailers frame; None = the body has no trailers frame
    pub trailers: Option<Vec<Tr>>,
    /// `name: value` instead of `name:value`
    pub space: bool,
    pub muts: Vec<Mutation>,
    /// raw bytes replacing the whole body
    pub raw: Option<Blob>,
    /// the body is cut off after this many bytes
    pub trunc: Option<u32>,
    pub base: Base,
    pub cuts: Vec<Cut>,
    /// empty chunks inserted at these chunk positions
    pub empties: Vec<u16>,
    /// cycled: spurious Pendings before each chunk (and before the end)
    pub pend: Vec<u8>,
    /// inner body error (instead of a clean end) before chunk pick(sel, chunks+1)
    pub body_err: Option<u16>,
    /// response content-type: false `application/grpc-web+proto`, true `application/grpc-web`
    pub plain_ct: bool,
    /// 0: as `plain_ct` says; otherwise another legitimate spelling of a grpc-web content-type (RESP_CTS)
    #[serde(default)]
    pub ct: u8,
    /// every DATA chunk of the inner body is handed over as a two-segment `Buf` (bytes::buf::Chain), split after
    /// len * seg / 256 bytes (0: the first segment is empty)
    #[serde(default)]
    pub seg: u8,
}

/// other spellings of a grpc-web response content-type: open format suffix, media-type parameters,
/// case-insensitive type names
const RESP_CTS: &[&str] = &["application/grpc-web+json", "application/grpc-web+proto; charset=utf-8", "Application/GRPC-Web+Proto", "application/grpc-web+thrift", "application/grpc-web;q=1"];

impl Case {
    pub fn simple(msgs: Vec<(u8, Blob)>, trailers: Option<Vec<Tr>>) -> Case {
        Case {
            mode: Mode::Body,
            msgs,
            trailers,
            space: false,
            muts: vec![],
            raw: None,
            trunc: None,
            base: Base::Frames,
            cuts: vec![],
            empties: vec![],
            pend: vec![],
            body_err: None,
            plain_ct: false,
            ct: 0,
            seg: 0,
        }
    }
}

pub fn tr(n: &str, v: &str) -> Tr {
    Tr { n: n.into(), v: v.into() }
}

// ------------------------------------------------------------------ the independent grpc-web encoder

/// physical frame as built: (offset, payload length, is the trailers frame)
#[derive(Clone, Copy, Debug)]
pub struct Fr {
    pub off: usize,
    pub len: usize,
    pub trailers: bool,
}

pub struct Built {
    pub bytes: Vec<u8>,
    /// length before truncation
    pub full_len: usize,
    pub frames: Vec<Fr>,
}

fn trailer_block(c: &Case, t: &[Tr]) -> Vec<u8> {
    let plain: Vec<(String, Vec<u8>)> = t.iter().map(|x| (x.n.clone(), x.v.as_bytes().to_vec())).collect();
    let has_line_mut = c.muts.iter().any(|m| matches!(m, Mutation::Line(..)));
    if !has_line_mut {
        return wire::encode_trailer_block(&plain, c.space);
    }
    // line-wise build so that single lines can be malformed
    let mut lines: Vec<Vec<u8>> = plain.iter().map(|(n, v)| wire::encode_trailer_block(&[(n.clone(), v.clone())], c.space)).collect();
    let mut no_final_crlf = false;
    for m in &c.muts {
        if let Mutation::Line(sel, lm) = m {
            if lines.is_empty() {
                if matches!(lm, LineMut::EmptyLine) {
                    lines.push(b"\r\n".to_vec());
                }
                continue;
            }
            let i = gen::pick(*sel, lines.len());
            let colon = lines[i].iter().position(|b| *b == b':');
            match lm {
                LineMut::NoColon => {
                    if let Some(p) = colon {
                        let mut l = lines[i][..p].to_vec();
                        l.extend_from_slice(b"\r\n");
                        lines[i] = l;
                    }
                }
                LineMut::BadName(b) => {
                    if let Some(p) = colon {
                        lines[i].insert(p / 2, *b);
                    }
                }
                LineMut::BadValue(b) => {
                    if let Some(p) = colon {
                        let end = lines[i].len() - 2;
                        let at = p + 1 + (end - (p + 1)) / 2;
                        // never at the very start/end of the value (keeps whitespace questions out)
                        let at = if c.space && at == p + 1 { (at + 1).min(end) } else { at };
                        lines[i].insert(at, *b);
                    }
                }
                LineMut::NoFinalCrlf => no_final_crlf = true,
                LineMut::EmptyLine => lines[i].extend_from_slice(b"\r\n"),
            }
        }
    }
    let mut out = lines.concat();
    if no_final_crlf && out.ends_with(b"\r\n") {
        out.truncate(out.len() - 2);
    }
    out
}

pub fn build(c: &Case) -> Built {
    if let Some(r) = &c.raw {
        let mut bytes = r.bytes();
        let full_len = bytes.len();
        if let Some(t) = c.trunc {
            bytes.truncate((t as usize).min(full_len));
        }
        // frames of raw bodies: the reference parse of the bytes
        let (fr, _) = wire::parse_frames(&bytes);
        let frames = fr.iter().map(|f| Fr { off: f.off, len: f.len, trailers: f.flag == 0x80 }).collect();
        return Built { bytes, full_len, frames };
    }
    let mut parts: Vec<(Vec<u8>, bool)> = c.msgs.iter().map(|(f, p)| (wire::frame(*f, &p.bytes()), false)).collect();
    if let Some(t) = &c.trailers {
        let tf = (wire::frame(0x80, &trailer_block(c, t)), true);
        let mut at = parts.len();
        for m in &c.muts {
            if let Mutation::MoveTrailers(sel) = m {
                at = gen::pick(*sel, parts.len().max(1)).min(parts.len());
            }
        }
        parts.insert(at, tf);
    }
    for m in &c.muts {
        if parts.is_empty() {
            break;
        }
        match m {
            Mutation::Flag(s, v) => {
                let i = gen::pick(*s, parts.len());
                parts[i].0[0] = *v;
            }
            Mutation::Len(s, d) => {
                let i = gen::pick(*s, parts.len());
                let f = &mut parts[i].0;
                let l = u32::from_be_bytes([f[1], f[2], f[3], f[4]]);
                let n = (l as i64 + *d as i64).clamp(0, u32::MAX as i64) as u32;
                f[1..5].copy_from_slice(&n.to_be_bytes());
            }
            Mutation::LenAbs(s, d) => {
                let i = gen::pick(*s, parts.len());
                parts[i].0[1..5].copy_from_slice(&d.to_be_bytes());
            }
            _ => {}
        }
    }
    let mut bytes = vec![];
    let mut frames = vec![];
    for (p, is_tr) in &parts {
        frames.push(Fr { off: bytes.len(), len: p.len() - 5, trailers: *is_tr });
        bytes.extend_from_slice(p);
    }
    for m in &c.muts {
        match m {
            Mutation::Append(b) => bytes.extend(b.bytes()),
            Mutation::Corrupt(s, v) if !bytes.is_empty() => {
                let i = gen::pick(*s, bytes.len());
                bytes[i] ^= *v;
            }
            _ => {}
        }
    }
    let full_len = bytes.len();
    if let Some(t) = c.trunc {
        bytes.truncate((t as usize).min(full_len));
    }
    Built { bytes, full_len, frames }
}

pub fn chunks_of(c: &Case, b: &Built) -> Vec<Vec<u8>> {
    let body = &b.bytes;
    let mut pos: Vec<usize> = vec![];
    let trf = b.frames.iter().find(|f| f.trailers).copied();
    for cu in &c.cuts {
        match cu {
            Cut::Header(sel, off) => {
                if !b.frames.is_empty() {
                    let f = b.frames[gen::pick(*sel, b.frames.len())];
                    pos.push(f.off + 1 + (*off as usize % 4));
                }
            }
            Cut::Payload(sel, p) => {
                if !b.frames.is_empty() {
                    let f = b.frames[gen::pick(*sel, b.frames.len())];
                    if f.len > 0 {
                        pos.push(f.off + 5 + gen::pick(*p, f.len));
                    }
                }
            }
            Cut::TrHeader(off) => {
                if let Some(f) = trf {
                    pos.push(f.off + 1 + (*off as usize % 4));
                }
            }
            Cut::TrPayload(p) => {
                if let Some(f) = trf {
                    if f.len > 0 {
                        pos.push(f.off + 5 + gen::pick(*p, f.len));
                    }
                }
            }
            Cut::At(p) => pos.push(*p as usize),
        }
    }
    let mut chunks = match &c.base {
        Base::One => cut(body, &[], &pos),
        Base::Frames => {
            pos.extend(b.frames.iter().map(|f| f.off));
            cut(body, &[], &pos)
        }
        Base::FramesJoint => {
            pos.extend(b.frames.iter().filter(|f| !f.trailers).map(|f| f.off));
            cut(body, &[], &pos)
        }
        Base::MsgsThenTrailers => {
            if let Some(f) = trf {
                pos.push(f.off);
                pos.push(f.off + 5 + f.len);
            }
            cut(body, &[], &pos)
        }
        Base::Bytes => (0..body.len()).map(|i| vec![body[i]]).collect(),
        Base::Sizes(s) => cut(body, s, &pos),
    };
    for e in &c.empties {
        let i = gen::pick(*e, chunks.len() + 1);
        chunks.insert(i, vec![]);
    }
    chunks
}

// ------------------------------------------------------------------ reference parse (the oracle's view of the bytes)

#[derive(Clone, Debug, PartialEq, Eq)]
pub enum BlockClass {
    /// parses: ordered (lower-cased name, value) list
    Ok(Vec<(String, Vec<u8>)>),
    /// definitely malformed: an error is required
    Bad(&'static str),
    /// questionable but arguably acceptable (missing final CRLF, empty line, odd whitespace, bare CR)
    Lenient(&'static str),
}

fn is_tchar(b: u8) -> bool {
    b.is_ascii_alphanumeric() || b"!#$%&'*+-.^_`|~".contains(&b)
}

/// Trailer block of a grpc-web trailers frame, written from the grpc-web protocol text ("trailers
/// are encoded as a HTTP/1 headers block"): CRLF-terminated `name:value` lines, the value being
/// everything after the first colon minus optional surrounding whitespace.
pub fn classify_block(b: &[u8]) -> BlockClass {
    let mut out = vec![];
    let mut bad: Option<&'static str> = None;
    let mut lenient: Option<&'static str> = None;
    let mut rest = b;
    while !rest.is_empty() {
        let Some(p) = rest.windows(2).position(|w| w == b"\r\n") else {
            lenient.get_or_insert("no-final-crlf");
            break;
        };
        let line = &rest[..p];
        rest = &rest[p + 2..];
        if line.is_empty() {
            lenient.get_or_insert("empty-line");
            continue;
        }
        let Some(c) = line.iter().position(|x| *x == b':') else {
            bad.get_or_insert("line-without-colon");
            continue;
        };
        let name = &line[..c];
        if name.is_empty() || !name.iter().all(|x| is_tchar(*x)) {
            bad.get_or_insert("invalid-name");
            continue;
        }
        let mut v = &line[c + 1..];
        if let [b' ', r @ ..] = v {
            v = r;
        }
        if matches!(v.first(), Some(b' ' | b'\t')) || matches!(v.last(), Some(b' ' | b'\t')) {
            lenient.get_or_insert("value-whitespace");
        }
        if v.contains(&b'\r') {
            lenient.get_or_insert("bare-cr");
        } else if !wire::is_legal_header_value(v) {
            bad.get_or_insert("invalid-value");
            continue;
        }
        out.push((String::from_utf8_lossy(name).to_ascii_lowercase(), v.to_vec()));
    }
    if let Some(l) = lenient {
        return BlockClass::Lenient(l);
    }
    if let Some(x) = bad {
        return BlockClass::Bad(x);
    }
    BlockClass::Ok(out)
}

#[derive(Clone, Debug, PartialEq, Eq)]
pub enum Stop {
    /// the body ends at a frame boundary without a trailers frame
    NoTrailers,
    /// 1..=4 bytes left
    CutHeader,
    /// a message frame whose payload is shorter than declared
    CutMessage,
    /// a trailers frame whose payload is shorter than declared
    CutTrailers,
    /// frame flag that is neither a message (0, 1) nor uncompressed trailers (0x80)
    BadFlag(u8),
    /// a complete trailers frame: [start, end) in the body; `rest` bytes follow it
    Trailers { start: usize, end: usize, rest: usize, block: BlockClass },
}

#[derive(Clone, Debug)]
pub struct Ref {
    /// end of the maximal prefix of complete message frames
    pub msgs_end: usize,
    pub payloads: Vec<(u8, Vec<u8>)>,
    pub stop: Stop,
}

pub fn reference(b: &[u8]) -> Ref {
    let mut off = 0usize;
    let mut payloads = vec![];
    loop {
        let rest = &b[off..];
        if rest.is_empty() {
            return Ref { msgs_end: off, payloads, stop: Stop::NoTrailers };
        }
        if rest.len() < 5 {
            return Ref { msgs_end: off, payloads, stop: Stop::CutHeader };
        }
        let flag = rest[0];
        let len = u32::from_be_bytes([rest[1], rest[2], rest[3], rest[4]]) as usize;
        if flag != 0 && flag != 1 && flag != 0x80 {
            return Ref { msgs_end: off, payloads, stop: Stop::BadFlag(flag) };
        }
        if rest.len() - 5 < len {
            return Ref { msgs_end: off, payloads, stop: if flag == 0x80 { Stop::CutTrailers } else { Stop::CutMessage } };
        }
        if flag == 0x80 {
            let end = off + 5 + len;
            return Ref {
                msgs_end: off,
                payloads,
                stop: Stop::Trailers { start: off, end, rest: b.len() - end, block: classify_block(&rest[5..5 + len]) },
            };
        }
        payloads.push((flag, rest[5..5 + len].to_vec()));
        off += 5 + len;
    }
}

/// what the statement requires of the outcome
#[derive(Clone, Debug, PartialEq, Eq)]
pub enum Class {
    /// messages then a complete, parseable trailers frame, nothing behind it
    WellFormed(Vec<(String, Vec<u8>)>),
    /// complete frames, no trailers frame: clean end or error, both tolerated
    NoTrailers,
    /// cut off inside a frame: an error is required
    Cut(&'static str),
    /// definitely malformed: an error is required (or, for a bad flag, handing the bytes on)
    Malformed(&'static str),
    /// the statement does not pin the outcome (bytes after the trailers frame, flag 0x81,
    /// questionable trailer blocks): only totality and the prefix rule are judged
    Unpinned(&'static str),
}

pub fn classify(r: &Ref) -> Class {
    match &r.stop {
        Stop::NoTrailers => Class::NoTrailers,
        Stop::CutHeader => Class::Cut("in-frame-header"),
        Stop::CutMessage => Class::Cut("in-message-payload"),
        Stop::CutTrailers => Class::Cut("in-trailers-payload"),
        Stop::BadFlag(0x81) => Class::Unpinned("compressed-trailers-flag"),
        Stop::BadFlag(_) => Class::Malformed("bad-flag"),
        Stop::Trailers { rest, block, .. } => {
            if *rest > 0 {
                Class::Unpinned("bytes-after-trailers")
            } else {
                match block {
                    BlockClass::Ok(t) => Class::WellFormed(t.clone()),
                    BlockClass::Bad(k) => Class::Malformed(k),
                    BlockClass::Lenient(k) => Class::Unpinned(k),
                }
            }
        }
    }
}

fn class_name(c: &Class) -> &'static str {
    match c {
        Class::WellFormed(_) => "well-formed",
        Class::NoTrailers => "no-trailers-frame",
        Class::Cut(w) => match *w {
            "in-frame-header" => "cut-in-frame-header",
            "in-message-payload" => "cut-in-message-payload",
            _ => "cut-in-trailers-payload",
        },
        Class::Malformed(k) => k,
        Class::Unpinned(k) => k,
    }
}

/// name -> ordered values
fn multimap(t: &[(String, Vec<u8>)]) -> Vec<(String, Vec<Vec<u8>>)> {
    let mut out: Vec<(String, Vec<Vec<u8>>)> = vec![];
    for (n, v) in t {
        if let Some(x) = out.iter_mut().find(|x| x.0 == *n) {
            x.1.push(v.clone());
        } else {
            out.push((n.clone(), vec![v.clone()]));
        }
    }
    out
}

fn lossy(v: &[Vec<u8>]) -> Vec<String> {
    v.iter().map(|x| String::from_utf8_lossy(x).into_owned()).collect()
}

// ------------------------------------------------------------------ scripted inner service

type StdErr = Box<dyn std::error::Error + Send + Sync>;

/// tower service for any request body type: drains (and records) the request, then answers with
/// the one scripted response.
#[derive(Clone)]
struct Inner {
    log: Arc<Mutex<Vec<Recorded>>>,
    resp: Arc<Mutex<Option<Response<SegBody>>>>,
}

impl<B> Service<Request<B>> for Inner
where
    B: Body + 'static,
    B::Error: Into<StdErr>,
{
    type Response = Response<SegBody>;
    type Error = Status;
    type Future = Pin<Box<dyn Future<Output = Result<Response<SegBody>, Status>>>>;
    fn poll_ready(&mut self, _: &mut Context<'_>) -> Poll<Result<(), Status>> {
        Poll::Ready(Ok(()))
    }
    fn call(&mut self, req: Request<B>) -> Self::Future {
        let log = self.log.clone();
        let resp = self.resp.clone();
        Box::pin(async move {
            let (parts, body) = req.into_parts();
            let (frames, trailers, body_error) = drain_body(body).await;
            log.lock().unwrap().push(Recorded {
                method: parts.method,
                uri: parts.uri,
                version: parts.version,
                headers: parts.headers,
                frames,
                trailers,
                body_error,
            });
            match resp.lock().unwrap().take() {
                Some(r) => Ok(r),
                None => Err(Status::internal("harness: inner service called twice")),
            }
        })
    }
}

struct Script {
    steps: Vec<BodyStep>,
    /// bytes handed out after `i` steps were consumed
    cum: Vec<usize>,
    /// index of the injected error step
    err_step: Option<usize>,
    /// bytes the inner body hands out in total
    delivered: Vec<u8>,
    chunks: Vec<Vec<u8>>,
}

fn script(c: &Case, chunks_all: &[Vec<u8>]) -> Script {
    let err_at = c.body_err.map(|s| gen::pick(s, chunks_all.len() + 1));
    let mut steps = vec![];
    let mut cum = vec![0usize];
    let mut delivered = vec![];
    let mut chunks = vec![];
    let mut err_step = None;
    let mut pi = 0usize;
    let pends = |steps: &mut Vec<BodyStep>, cum: &mut Vec<usize>, pi: &mut usize, total: usize| {
        if !c.pend.is_empty() {
            for _ in 0..c.pend[*pi % c.pend.len()].min(3) {
                steps.push(BodyStep::Pending);
                cum.push(total);
            }
            *pi += 1;
        }
    };
    for (i, ch) in chunks_all.iter().enumerate() {
        if err_at == Some(i) {
            break;
        }
        pends(&mut steps, &mut cum, &mut pi, delivered.len());
        steps.push(BodyStep::Data(Bytes::from(ch.clone())));
        delivered.extend_from_slice(ch);
        chunks.push(ch.clone());
        cum.push(delivered.len());
    }
    pends(&mut steps, &mut cum, &mut pi, delivered.len());
    if err_at.is_some() {
        err_step = Some(steps.len());
        steps.push(BodyStep::Err(Status::new(Code::Unavailable, "injected body error")));
        cum.push(delivered.len());
    }
    Script { steps, cum, err_step, delivered, chunks }
}

fn inner_for(c: &Case, sc: &Script) -> (Inner, BodyProbe) {
    let mut body = ScriptBody::new(sc.steps.clone());
    // half of the inner bodies say exactly when they have ended (hyper's do); what the layer still has buffered then
    // (e.g. the trailers frame that came with the last chunk) must still come out
    body.eos = c.seg % 2 == 0 && c.ct % 2 == 0;
    let probe = body.probe.clone();
    let mut resp = Response::new(SegBody::new(body, c.seg));
    let ct = match c.ct {
        0 => if c.plain_ct { "application/grpc-web" } else { "application/grpc-web+proto" },
        k => RESP_CTS[(k as usize - 1) % RESP_CTS.len()],
    };
    resp.headers_mut().insert("content-type", HeaderValue::from_static(ct));
    (Inner { log: Default::default(), resp: Arc::new(Mutex::new(Some(resp))) }, probe)
}

// ------------------------------------------------------------------ observation: the body, frame by frame

#[derive(Debug)]
enum EvK {
    Data(Vec<u8>),
    Trailers(HeaderMap),
    Err(Code, String),
    End,
    Stuck,
    /// the scripted body's trip-wire fired: it was polled > 1000 times after its end inside one poll
    Busy,
    /// more frames than the input can explain
    Flood,
}
#[derive(Debug)]
struct Ev {
    k: EvK,
    /// inner-body polls so far (= scripted steps consumed, capped)
    inner_polls: usize,
}

const REQ_BODY: &[u8] = b"\x00\x00\x00\x00\x03abc";

struct BodyObs {
    evs: Vec<Ev>,
    polls_after_end: usize,
    rec: Option<Recorded>,
    resp_headers: HeaderMap,
}

fn observe_body(c: &Case, sc: &Script) -> Result<BodyObs, Failure> {
    let (inner, probe) = inner_for(c, sc);
    let log = inner.log.clone();
    let mut svc = tonic_web::GrpcWebClientService::new(inner);
    // the request a tonic client would send, with a scripted body split inside the frame header
    let req_body = ScriptBody::new(vec![
        BodyStep::Data(Bytes::from_static(&REQ_BODY[..2])),
        BodyStep::Pending,
        BodyStep::Data(Bytes::from_static(&REQ_BODY[2..])),
    ]);
    let mut req = Request::new(req_body);
    *req.method_mut() = http::Method::POST;
    *req.version_mut() = http::Version::HTTP_2;
    *req.uri_mut() = "http://h.test/vt.Raw/ServerStream".parse().unwrap();
    req.headers_mut().insert("content-type", HeaderValue::from_static("application/grpc"));
    req.headers_mut().insert("te", HeaderValue::from_static("trailers"));
    req.headers_mut().append("x-user", HeaderValue::from_static("a:b"));
    req.headers_mut().append("x-user", HeaderValue::from_static("c"));
    match poll_budget(4, |cx| <tonic_web::GrpcWebClientService<Inner> as Service<Request<ScriptBody>>>::poll_ready(&mut svc, cx)) {
        Ok(Ok(())) => {}
        _ => bail!("C17/not-ready", "GrpcWebClientService::poll_ready is not ready although the inner service is"),
    }
    let mut fut = Box::pin(svc.call(req));
    let resp = match poll_budget(16, |cx| fut.as_mut().poll(cx)) {
        Err(_) => bail!("C17/response-future-stuck", "response future did not complete within the poll budget"),
        Ok(Err(e)) => bail!("C17/response-future-error", "response future failed: {e:?}"),
        Ok(Ok(r)) => r,
    };
    drop(fut);
    let rec = log.lock().unwrap().pop();
    let (parts, body) = resp.into_parts();
    let mut body = Box::pin(body);
    let budget = sc.steps.len() + 8;
    // every frame handed out consumes at least a 5-byte frame header of the input (a body may hold many frames per
    // chunk, e.g. further data/trailers frames behind the first trailers frame)
    let max_events = sc.chunks.len() + sc.chunks.iter().map(|c| c.len()).sum::<usize>() / 5 + 8;
    let mut evs: Vec<Ev> = vec![];
    let mut after_end = 0usize;
    loop {
        let r = catch_unwind(AssertUnwindSafe(|| poll_budget(budget, |cx| body.as_mut().poll_frame(cx))));
        let ip = probe.polls.load(Ordering::Relaxed);
        let k = match r {
            Err(p) => {
                if probe.polls_after_end.load(Ordering::Relaxed) > POLL_AFTER_END_TRIP {
                    EvK::Busy
                } else {
                    resume_unwind(p)
                }
            }
            Ok(Err(_)) => EvK::Stuck,
            Ok(Ok(None)) => EvK::End,
            Ok(Ok(Some(Err(s)))) => EvK::Err(s.code(), s.message().to_string()),
            Ok(Ok(Some(Ok(f)))) => {
                if f.is_data() {
                    EvK::Data(f.into_data().unwrap().to_vec())
                } else {
                    EvK::Trailers(f.into_trailers().unwrap())
                }
            }
        };
        let stop = matches!(k, EvK::Err(..) | EvK::Stuck | EvK::Busy);
        let end = matches!(k, EvK::End);
        evs.push(Ev { k, inner_polls: ip });
        if stop {
            break;
        }
        if end || after_end > 0 {
            // the end must be the end: two more polls
            after_end += 1;
            if after_end > 2 {
                break;
            }
        }
        if evs.len() > max_events + 3 {
            evs.push(Ev { k: EvK::Flood, inner_polls: ip });
            break;
        }
    }
    Ok(BodyObs { evs, polls_after_end: probe.polls_after_end.load(Ordering::Relaxed), rec, resp_headers: parts.headers })
}

// ------------------------------------------------------------------ oracle: the body

struct Facts<'a> {
    class: &'a Class,
    r: &'a Ref,
    sc: &'a Script,
    /// chunk boundaries strictly inside the delivered bytes
    bounds: Vec<usize>,
    /// the delivered bytes contain a (complete or cut-off) trailers frame after the messages
    has_tr_frame: bool,
    /// end of that trailers frame within the delivered bytes
    tr_extent: usize,
    /// a chunk holds the last byte of the last message frame and byte 4 of the trailers header
    joint: bool,
    /// a chunk boundary inside the trailers frame, at or behind the end of its header
    tr_split: bool,
}

/// Input predicate that explains a failure observed when `got` bytes had been received: the
/// receiver has seen a complete trailers header but not the whole frame in one piece, or a message
/// and the trailers header arrived in one chunk.
fn cause(f: &Facts, got: usize) -> Option<&'static str> {
    let t0 = f.r.msgs_end;
    if f.has_tr_frame && f.bounds.iter().any(|p| *p >= t0 + 5 && *p < f.tr_extent && *p <= got) {
        return Some("boundary-inside-trailers-frame");
    }
    if f.joint && got >= t0 + 5 {
        return Some("message-and-trailers-in-one-chunk");
    }
    None
}

fn consumed_bytes(sc: &Script, inner_polls: usize) -> usize {
    sc.cum[inner_polls.min(sc.cum.len() - 1)]
}
fn consumed_steps(sc: &Script, inner_polls: usize) -> usize {
    inner_polls.min(sc.steps.len())
}

fn first_trailer_diff(exp: &[(String, Vec<u8>)], got: &HeaderMap) -> Option<(&'static str, String)> {
    let mm = multimap(exp);
    for (name, vals) in &mm {
        let g: Vec<Vec<u8>> = got.get_all(name.as_str()).iter().map(|v| v.as_bytes().to_vec()).collect();
        if g == *vals {
            continue;
        }
        let kind = if g.is_empty() {
            "missing"
        } else if vals.len() > 1 && g.len() != vals.len() {
            "repeated-name"
        } else if vals.iter().zip(g.iter()).any(|(e, a)| e != a && e.contains(&b':')) {
            "value-contains-colon"
        } else {
            "value"
        };
        return Some((kind, format!("trailer {name:?}: expected values {:?}, found {:?}", lossy(vals), lossy(&g))));
    }
    let extra: Vec<String> = got.keys().filter(|k| !mm.iter().any(|x| x.0 == k.as_str())).map(|k| k.to_string()).collect();
    if !extra.is_empty() {
        return Some(("extra", format!("trailers contain names that were not sent: {extra:?}")));
    }
    None
}

/// every illegal value byte of the block sits behind the second colon of its line
fn bad_value_bytes_only_behind_second_colon(block: &[u8]) -> bool {
    let mut any = false;
    let mut rest = block;
    while !rest.is_empty() {
        let (line, next) = match rest.windows(2).position(|w| w == b"\r\n") {
            Some(p) => (&rest[..p], &rest[p + 2..]),
            None => (rest, &rest[rest.len()..]),
        };
        rest = next;
        let Some(c1) = line.iter().position(|b| *b == b':') else { continue };
        let v = &line[c1 + 1..];
        let c2 = v.iter().position(|b| *b == b':');
        for (i, b) in v.iter().enumerate() {
            if !wire::is_legal_header_value(&[*b]) {
                any = true;
                if c2.map(|c| i < c).unwrap_or(true) {
                    return false;
                }
            }
        }
    }
    any
}

fn judge_body(f: &Facts, obs: &BodyObs) -> Result<(), Failure> {
    let cname = class_name(f.class);
    let body = &f.sc.delivered;
    let inner_err = f.sc.err_step.is_some();
    let totality_only = matches!(f.class, Class::Unpinned("bytes-after-trailers"));
    let unpinned = matches!(f.class, Class::Unpinned(_));
    let msgs = &body[..f.r.msgs_end];
    // bytes that may legitimately come out as DATA: the messages, or (no trailers frame) the body
    let allowed: &[u8] = if f.has_tr_frame { msgs } else { &body[..] };
    let mut emitted: Vec<u8> = vec![];
    let mut trailers_seen = false;
    let mut ended = false;
    let mut end_before_inner_end = false;
    let describe = || -> String {
        obs.evs
            .iter()
            .map(|e| match &e.k {
                EvK::Data(d) => format!("Data({})", d.len()),
                EvK::Trailers(t) => format!("Trailers({} entries)", t.len()),
                EvK::Err(c, m) => format!("Err({c:?}, {m:?})"),
                EvK::End => "None".into(),
                EvK::Stuck => "Stuck".into(),
                EvK::Busy => "BusyLoop".into(),
                EvK::Flood => "Flood".into(),
            })
            .collect::<Vec<_>>()
            .join(" ")
    };
    let chunk_lens = || f.sc.chunks.iter().map(|c| c.len()).collect::<Vec<_>>();
    for (i, e) in obs.evs.iter().enumerate() {
        let steps_done = consumed_steps(f.sc, e.inner_polls);
        let inner_ended = steps_done >= f.sc.steps.len();
        let got_bytes = consumed_bytes(f.sc, e.inner_polls);
        let why = cause(f, got_bytes);
        match &e.k {
            EvK::Busy => bail!(
                // the loop itself is always the same one (buffered bytes that look like an incomplete
                // frame once the inner body has ended); the predicate says how the buffer got there
                format!("C17/busy-loop/{}", if matches!(f.class, Class::Cut("in-message-payload") | Class::Unpinned("bytes-after-trailers")) { cname } else { why.unwrap_or(cname) }),
                "one poll_frame call polled the inner body more than {POLL_AFTER_END_TRIP} times after it had ended ({cname} body, {} bytes in chunks {:?}; frames so far: {})",
                body.len(),
                chunk_lens(),
                describe()
            ),
            EvK::Stuck => bail!(format!("C17/does-not-complete/{}", why.unwrap_or(cname)), "body did not produce a frame within the poll budget; frames so far: {}", describe()),
            EvK::Flood => bail!(format!("C17/frame-flood/{}", why.unwrap_or(cname)), "more frames than the input can explain (chunks + bytes/5 + 8): {}", describe()),
            _ if totality_only => {}
            _ if ended => {
                ensure!(
                    matches!(e.k, EvK::End),
                    format!("C17/end-not-sticky/{}", if end_before_inner_end { "none-before-the-inner-body-ended" } else { "other" }),
                    "frame {i} after the end of the body: {}",
                    describe()
                );
            }
            EvK::Data(d) => {
                ensure!(!trailers_seen || unpinned, "C17/data-after-trailers", "DATA after the trailers: {}", describe());
                emitted.extend_from_slice(d);
                ensure!(
                    allowed.starts_with(&emitted),
                    format!("C17/data-not-a-prefix/{}", why.unwrap_or(cname)),
                    "DATA frames so far ({} bytes) are not a prefix of the message bytes of the body ({} bytes): {}",
                    emitted.len(),
                    allowed.len(),
                    describe()
                );
                ensure!(emitted.len() <= got_bytes, "C17/data-from-the-future", "{} bytes emitted after only {} were received", emitted.len(), got_bytes);
            }
            EvK::Trailers(t) => {
                ensure!(!trailers_seen || unpinned, "C17/two-trailers-frames", "second trailers frame: {}", describe());
                trailers_seen = true;
                if unpinned {
                    continue;
                }
                if !f.has_tr_frame {
                    bail!(format!("C17/trailers-invented/{cname}"), "trailers {t:?} although the body has no trailers frame: {}", describe());
                }
                if got_bytes < f.tr_extent {
                    bail!(
                        "C17/trailers-incomplete/boundary-inside-trailers-frame",
                        "trailers {t:?} surfaced when only {got_bytes} of the {} bytes up to the end of the trailers frame had arrived ({cname} body, chunks {:?})",
                        f.tr_extent,
                        chunk_lens()
                    );
                }
                match f.class {
                    Class::WellFormed(exp) => {
                        ensure!(
                            emitted == msgs,
                            format!("C17/trailers-before-data/{}", why.unwrap_or("other")),
                            "trailers surfaced after {} of {} message bytes: {}",
                            emitted.len(),
                            msgs.len(),
                            describe()
                        );
                        if let Some((kind, text)) = first_trailer_diff(exp, t) {
                            bail!(format!("C17/trailers-content/{kind}"), "{text}; block {:?}", String::from_utf8_lossy(&body[f.r.msgs_end + 5..f.tr_extent]));
                        }
                    }
                    Class::Malformed(k) => bail!(
                        format!(
                            "C17/malformed-trailers-accepted/{k}{}",
                            if *k == "invalid-value" && bad_value_bytes_only_behind_second_colon(&body[f.r.msgs_end + 5..f.tr_extent]) { "-behind-second-colon" } else { "" }
                        ),
                        "malformed trailer block ({k}) {:?} surfaced as trailers {t:?}",
                        String::from_utf8_lossy(&body[f.r.msgs_end + 5..f.tr_extent])
                    ),
                    Class::Cut(_) => bail!(
                        "C17/truncated-clean-end/in-trailers-payload",
                        "the trailers frame is cut off inside its payload ({} of the declared bytes present), yet trailers {t:?} were surfaced instead of an error",
                        body.len() - f.r.msgs_end - 5
                    ),
                    _ => {}
                }
            }
            EvK::Err(code, msg) => {
                // the injected inner error, once reached, explains any error
                if inner_err && steps_done > f.sc.err_step.unwrap() {
                    return Ok(());
                }
                match f.class {
                    Class::WellFormed(_) => bail!(
                        format!("C17/error-on-valid-body/{}", why.unwrap_or("other")),
                        "well-formed body ({} bytes, chunks {:?}) gave Err({code:?}, {msg:?}): {}",
                        body.len(),
                        chunk_lens(),
                        describe()
                    ),
                    Class::NoTrailers if body.is_empty() => bail!("C17/error-on-empty-body", "empty body gave Err({code:?}, {msg:?})"),
                    _ => return Ok(()),
                }
            }
            EvK::End => {
                ended = true;
                end_before_inner_end = !inner_ended;
                let rem = got_bytes - emitted.len().min(got_bytes);
                // an end before the inner body ended, without a trailers frame that could justify it
                let complete_trailers_in = matches!(&f.r.stop, Stop::Trailers { end, .. } if got_bytes >= *end);
                if !inner_ended && !trailers_seen && !complete_trailers_in {
                    let last_empty = steps_done > 0 && matches!(&f.sc.steps[steps_done - 1], BodyStep::Data(d) if d.is_empty());
                    let w = if let Some(w) = why {
                        w
                    } else if (1..=4).contains(&rem) {
                        "partial-frame-header-buffered"
                    } else if rem == 0 && last_empty {
                        "empty-chunk"
                    } else {
                        "other"
                    };
                    bail!(
                        format!("C17/premature-end/{w}"),
                        "None after {steps_done} of {} scripted steps ({got_bytes} of {} bytes received, {} emitted; chunks {:?}): {}",
                        f.sc.steps.len(),
                        body.len(),
                        emitted.len(),
                        chunk_lens(),
                        describe()
                    );
                }
                if unpinned {
                    break;
                }
                if inner_err && !complete_trailers_in {
                    bail!("C17/inner-error-swallowed", "the inner body fails, the outer body ends cleanly: {}", describe());
                }
                match f.class {
                    Class::WellFormed(exp) => {
                        if !trailers_seen && !(exp.is_empty() && emitted == msgs) {
                            if emitted == msgs {
                                bail!(
                                    format!("C17/trailers-lost/{}", why.unwrap_or("other")),
                                    "all {} message bytes surfaced, then None: the trailers {:?} never surfaced (chunks {:?}): {}",
                                    msgs.len(),
                                    exp.iter().map(|(n, v)| format!("{n}:{}", String::from_utf8_lossy(v))).collect::<Vec<_>>(),
                                    chunk_lens(),
                                    describe()
                                );
                            }
                            bail!(
                                format!("C17/premature-end/{}", why.unwrap_or("other")),
                                "None after {} of {} message bytes and no trailers: {}",
                                emitted.len(),
                                msgs.len(),
                                describe()
                            );
                        }
                        ensure!(emitted == msgs, "C17/data-lost/well-formed", "{} of {} message bytes surfaced: {}", emitted.len(), msgs.len(), describe());
                    }
                    Class::NoTrailers => {
                        ensure!(emitted == *body, "C17/data-lost/no-trailers-frame", "{} of {} bytes surfaced before the clean end", emitted.len(), body.len());
                    }
                    Class::Cut(w) => {
                        let w2 = if *w == "in-trailers-payload" { why.unwrap_or(w) } else { w };
                        bail!(
                            format!("C17/truncated-clean-end/{w2}"),
                            "body of {} bytes is cut off {w} ({} bytes of an incomplete frame at offset {}), yet it ended cleanly (chunks {:?}): {}",
                            body.len(),
                            body.len() - f.r.msgs_end,
                            f.r.msgs_end,
                            chunk_lens(),
                            describe()
                        );
                    }
                    Class::Malformed(k) => {
                        // a bad flag may be handed on as DATA for the gRPC decoder to reject
                        let handed_on = *k == "bad-flag" && emitted == *body;
                        ensure!(
                            handed_on,
                            format!("C17/malformed-clean-end/{}", why.unwrap_or(k)),
                            "malformed body ({k}) ended cleanly (chunks {:?}): {}",
                            chunk_lens(),
                            describe()
                        );
                    }
                    Class::Unpinned(_) => {}
                }
            }
        }
    }
    // Each poll of the outer body may look at the inner one once more (a consumer that keeps polling after a
    // trailers frame, as tonic's Streaming does, makes that many); what must not happen is a loop inside one poll.
    // ---- a complete message is not held back: whenever the bytes received so far end exactly at the end of a
    // message frame (everything buffered is complete messages), those messages have been handed out before the
    // inner body is asked for more - a caller waiting for that message before it sends anything else (ping-pong)
    // would otherwise wait forever. Judged for well-formed bodies without an injected error.
    if matches!(f.class, Class::WellFormed(_)) && !inner_err {
        let mut ends = vec![];
        let mut off = 0usize;
        for (_, p) in &f.r.payloads {
            off += 5 + p.len();
            ends.push(off);
        }
        let mut out_by_polls: Vec<(usize, usize)> = vec![];
        let mut total = 0usize;
        for e in &obs.evs {
            if let EvK::Data(d) = &e.k {
                total += d.len();
                out_by_polls.push((e.inner_polls, total));
            }
        }
        for q in 1..f.sc.cum.len() {
            let dq = f.sc.cum[q];
            if dq == f.sc.cum[q - 1] || dq == 0 || dq > f.r.msgs_end || !ends.contains(&dq) {
                continue;
            }
            let got = out_by_polls.iter().filter(|(p, _)| *p <= q).map(|(_, t)| *t).max().unwrap_or(0);
            ensure!(
                got >= dq,
                "C17/complete-message-held-back",
                "after {q} polls of the inner body exactly {dq} bytes (= whole message frames) had arrived, but only {got} bytes of DATA had been handed out when the inner body was polled again (chunks {:?}): {}",
                chunk_lens(),
                describe()
            );
        }
    }
    ensure!(
        obs.polls_after_end <= 8 + obs.evs.len(),
        format!("C17/inner-polled-after-end/{cname}"),
        "inner body polled {} times after it had ended: {}",
        obs.polls_after_end,
        describe()
    );
    Ok(())
}

fn judge_request(obs: &BodyObs) -> Result<(), Failure> {
    let Some(rec) = &obs.rec else { bail!("C17/request-not-forwarded", "the inner service was not called") };
    let ct: Vec<&[u8]> = rec.headers.get_all("content-type").iter().map(|v| v.as_bytes()).collect();
    ensure!(
        ct.len() == 1 && (ct[0] == b"application/grpc-web" || ct[0] == b"application/grpc-web+proto"),
        "C17/request-content-type",
        "inner service saw content-type {:?}",
        ct.iter().map(|v| String::from_utf8_lossy(v).into_owned()).collect::<Vec<_>>()
    );
    ensure!(rec.method == http::Method::POST, "C17/request-method", "inner service saw method {}", rec.method);
    ensure!(rec.uri == "http://h.test/vt.Raw/ServerStream", "C17/request-uri", "inner service saw URI {}", rec.uri);
    let xu: Vec<&[u8]> = rec.headers.get_all("x-user").iter().map(|v| v.as_bytes()).collect();
    ensure!(xu == vec![&b"a:b"[..], &b"c"[..]], "C17/request-metadata", "x-user values changed: {:?}", rec.headers.get_all("x-user").iter().collect::<Vec<_>>());
    ensure!(rec.body_error.is_none(), "C17/request-body-error", "request body failed: {:?}", rec.body_error);
    ensure!(rec.trailers.is_empty(), "C17/request-body-trailers", "request body grew trailers: {:?}", rec.trailers);
    ensure!(rec.body() == REQ_BODY, "C17/request-bytes", "request body bytes changed: {:?}", rec.body());
    Ok(())
}

// ------------------------------------------------------------------ observation + oracle: the caller's view

#[derive(Debug)]
enum CallEnd {
    /// stream: None after the messages; unary: Ok(response)
    Ok,
    Err(Code, String),
    Stuck,
    Busy,
}
#[derive(Debug)]
struct ClientObs {
    items: Vec<Vec<u8>>,
    end: CallEnd,
    /// trailing metadata of a stream that ended cleanly
    trailers: Option<HeaderMap>,
}

fn guarded<T>(probe: &BodyProbe, f: impl FnOnce() -> T) -> Result<T, CallEnd> {
    match catch_unwind(AssertUnwindSafe(f)) {
        Ok(v) => Ok(v),
        Err(p) => {
            if probe.polls_after_end.load(Ordering::Relaxed) > POLL_AFTER_END_TRIP {
                Err(CallEnd::Busy)
            } else {
                resume_unwind(p)
            }
        }
    }
}

fn observe_client(c: &Case, sc: &Script) -> ClientObs {
    let (inner, probe) = inner_for(c, sc);
    let mut client = vt::raw_client::RawClient::new(tonic_web::GrpcWebClientService::new(inner));
    let budget = sc.steps.len() + 64;
    let mut obs = ClientObs { items: vec![], end: CallEnd::Ok, trailers: None };
    if c.mode == Mode::Unary {
        let r = guarded(&probe, || block_on_budget(budget, client.unary(tonic::Request::new(b"abc".to_vec()))));
        obs.end = match r {
            Err(e) => e,
            Ok(Err(_)) => CallEnd::Stuck,
            Ok(Ok(Err(s))) => CallEnd::Err(s.code(), s.message().to_string()),
            Ok(Ok(Ok(resp))) => {
                obs.trailers = Some(resp.metadata().clone().into_headers());
                obs.items.push(resp.into_inner());
                CallEnd::Ok
            }
        };
        return obs;
    }
    let r = guarded(&probe, || block_on_budget(budget, client.server_stream(tonic::Request::new(b"abc".to_vec()))));
    let mut st = match r {
        Err(e) => {
            obs.end = e;
            return obs;
        }
        Ok(Err(_)) => {
            obs.end = CallEnd::Stuck;
            return obs;
        }
        Ok(Ok(Err(s))) => {
            obs.end = CallEnd::Err(s.code(), s.message().to_string());
            return obs;
        }
        Ok(Ok(Ok(resp))) => resp.into_inner(),
    };
    let evs = match guarded(&probe, || drive_decode(&mut st, budget, 0)) {
        Err(e) => {
            obs.end = e;
            return obs;
        }
        Ok(v) => v,
    };
    for e in evs {
        match e {
            DecEv::Item(m) => obs.items.push(m),
            DecEv::Err(s) => obs.end = CallEnd::Err(s.code(), s.message().to_string()),
            DecEv::End => obs.end = CallEnd::Ok,
            DecEv::Stuck => obs.end = CallEnd::Stuck,
        }
    }
    if matches!(obs.end, CallEnd::Ok) {
        match guarded(&probe, || block_on_budget(budget, st.trailers())) {
            Ok(Ok(Ok(Some(md)))) => obs.trailers = Some(md.into_headers()),
            Ok(Ok(Ok(None))) => {}
            Ok(Ok(Err(s))) => obs.end = CallEnd::Err(s.code(), s.message().to_string()),
            Ok(Err(_)) => obs.end = CallEnd::Stuck,
            Err(e) => obs.end = e,
        }
    }
    obs
}

/// (code, message) announced by a well-formed trailer list; None when the list does not pin it
fn announced_status(t: &[(String, Vec<u8>)]) -> Option<(i32, Option<String>)> {
    let st: Vec<&Vec<u8>> = t.iter().filter(|x| x.0 == "grpc-status").map(|x| &x.1).collect();
    if st.len() != 1 {
        return None;
    }
    let s = std::str::from_utf8(st[0]).ok()?;
    if s.is_empty() || s.len() > 2 || !s.bytes().all(|b| b.is_ascii_digit()) || (s.len() == 2 && s.starts_with('0')) {
        return None;
    }
    let code: i32 = s.parse().ok()?;
    if code > 16 {
        return None;
    }
    let msgs: Vec<&Vec<u8>> = t.iter().filter(|x| x.0 == "grpc-message").map(|x| &x.1).collect();
    // only a strictly percent-encoded UTF-8 message pins what the caller must see (C04 covers the rest)
    let msg = match msgs.len() {
        0 => Some(String::new()),
        1 if wire::is_strict_percent_encoded(msgs[0]) => Some(String::from_utf8(wire::percent_decode(msgs[0])).ok()?),
        _ => return None,
    };
    Some((code, msg))
}

fn judge_client(c: &Case, f: &Facts, obs: &ClientObs, o: &mut Outcome) -> Result<(), Failure> {
    let cname = class_name(f.class);
    match obs.end {
        CallEnd::Busy => bail!(format!("C17/client/busy-loop/{cname}"), "the call polled the ended inner body more than {POLL_AFTER_END_TRIP} times in one poll"),
        CallEnd::Stuck => bail!(format!("C17/client/does-not-complete/{cname}"), "the call did not complete within the poll budget"),
        _ => {}
    }
    if f.r.payloads.iter().any(|p| p.0 != 0) {
        o.label("client_flag1_not_judged");
        return Ok(());
    }
    let complete_trailers = matches!(f.r.stop, Stop::Trailers { .. });
    let must_fail = matches!(f.class, Class::Cut(_)) || (f.sc.err_step.is_some() && !complete_trailers);
    if must_fail {
        let w = if let Class::Cut(w) = f.class { w } else { "inner-body-error" };
        ensure!(
            matches!(obs.end, CallEnd::Err(..)),
            format!("C17/client/truncated-call-succeeds/{w}"),
            "response body cut off ({w}) but the {:?} call ended without an error after {} messages",
            c.mode,
            obs.items.len()
        );
        return Ok(());
    }
    let Class::WellFormed(exp) = f.class else { return Ok(()) };
    if f.sc.err_step.is_some() {
        return Ok(());
    }
    let Some((code, msg)) = announced_status(exp) else {
        o.label("client_status_not_pinned");
        return Ok(());
    };
    let want: Vec<&Vec<u8>> = f.r.payloads.iter().map(|p| &p.1).collect();
    let status_ok = |e: &CallEnd| -> bool {
        match e {
            CallEnd::Err(c2, m2) => *c2 == Code::from_i32(code) && msg.as_ref().map(|m| m == m2).unwrap_or(true),
            _ => false,
        }
    };
    if c.mode == Mode::Unary {
        if want.len() > 1 {
            o.label("client_unary_cardinality_not_judged");
            return Ok(());
        }
        if code != 0 {
            ensure!(
                status_ok(&obs.end),
                "C17/client/status-altered",
                "server status ({code}, {msg:?}); the unary call returned {:?}",
                obs.end
            );
        } else if want.len() == 1 {
            ensure!(matches!(obs.end, CallEnd::Ok), "C17/client/ok-call-fails", "server status OK with one message; the unary call returned {:?}", obs.end);
            ensure!(obs.items.len() == 1 && obs.items[0] == *want[0], "C17/client/messages", "unary response payload differs");
        } else {
            ensure!(matches!(obs.end, CallEnd::Err(..)), "C17/client/unary-without-message", "OK status without a message; the unary call returned {:?}", obs.end);
        }
        return Ok(());
    }
    let n = obs.items.len();
    ensure!(
        n <= want.len() && obs.items.iter().zip(want.iter()).all(|(a, b)| a == *b),
        "C17/client/messages",
        "the stream yielded {n} messages that are not the first of the {} sent",
        want.len()
    );
    if code == 0 {
        ensure!(matches!(obs.end, CallEnd::Ok), "C17/client/ok-call-fails", "server status OK; the stream ended with {:?} after {n} messages", obs.end);
        ensure!(n == want.len(), "C17/client/messages-lost", "{n} of {} messages before the clean end", want.len());
        let md: Vec<(String, Vec<u8>)> = exp.iter().filter(|x| !x.0.starts_with("grpc-")).cloned().collect();
        if !md.is_empty() {
            let got = obs.trailers.clone().unwrap_or_default();
            let mut got_md = HeaderMap::new();
            for (k, v) in got.iter().filter(|(k, _)| !k.as_str().starts_with("grpc-")) {
                got_md.append(k.clone(), v.clone());
            }
            if let Some((kind, text)) = first_trailer_diff(&md, &got_md) {
                bail!(format!("C17/client/trailing-metadata/{kind}"), "Streaming::trailers(): {text}");
            }
        }
    } else {
        ensure!(
            !matches!(obs.end, CallEnd::Ok),
            "C17/client/error-status-lost",
            "server status ({code}, {msg:?}); the stream ended cleanly after {n} messages"
        );
        ensure!(status_ok(&obs.end), "C17/client/status-altered", "server status ({code}, {msg:?}); the stream ended with {:?}", obs.end);
        ensure!(n == want.len(), "C17/client/messages-lost", "{n} of {} messages before the status", want.len());
    }
    Ok(())
}

// ------------------------------------------------------------------ run

fn bounds_of(chunks: &[Vec<u8>]) -> Vec<usize> {
    let total: usize = chunks.iter().map(|c| c.len()).sum();
    let mut pos = 0;
    let mut out = vec![];
    for c in chunks {
        pos += c.len();
        if pos > 0 && pos < total && !c.is_empty() {
            out.push(pos);
        }
    }
    out
}

pub fn run(c: &Case, o: &mut Outcome) -> Result<(), Failure> {
    let built = build(c);
    let chunks_all = chunks_of(c, &built);
    let sc = script(c, &chunks_all);
    let r = reference(&sc.delivered);
    let class = classify(&r);
    let bounds = bounds_of(&sc.chunks);
    let body = &sc.delivered;

    // ---- input predicates
    // frame starts of the reference parse: complete message frames, then the stopping frame
    let mut starts: Vec<usize> = vec![];
    {
        let mut off = 0;
        for p in &r.payloads {
            starts.push(off);
            off += 5 + p.1.len();
        }
        if off < body.len() {
            starts.push(off);
        }
    }
    let cut_in_header = bounds.iter().any(|p| starts.iter().any(|s| *p > *s && *p < *s + 5));
    let t0 = r.msgs_end;
    let has_tr_frame = matches!(r.stop, Stop::Trailers { .. } | Stop::CutTrailers);
    let tr_extent = match &r.stop {
        Stop::Trailers { end, .. } => *end,
        _ => body.len(),
    };
    let cut_in_tr_header = has_tr_frame && bounds.iter().any(|p| *p > t0 && *p < t0 + 5);
    let tr_split = has_tr_frame && bounds.iter().any(|p| *p >= t0 + 5 && *p < tr_extent);
    let joint = has_tr_frame && !r.payloads.is_empty() && body.len() >= t0 + 5 && !bounds.iter().any(|p| *p >= t0 && *p <= t0 + 4);
    let truncated = built.bytes.len() < built.full_len;
    let facts = Facts { class: &class, r: &r, sc: &sc, bounds: bounds.clone(), has_tr_frame, tr_extent, joint, tr_split };

    // ---- labels
    o.label(match c.mode {
        Mode::Body => "mode_body",
        Mode::Stream => "mode_client_stream",
        Mode::Unary => "mode_client_unary",
    });
    o.label(match &class {
        Class::WellFormed(_) => "class_well_formed",
        Class::NoTrailers => "class_no_trailers_frame",
        Class::Cut("in-frame-header") => "class_cut_in_frame_header",
        Class::Cut("in-message-payload") => "class_cut_in_message_payload",
        Class::Cut(_) => "class_cut_in_trailers_payload",
        Class::Malformed("bad-flag") => "class_bad_flag",
        Class::Malformed("line-without-colon") => "class_trailer_line_without_colon",
        Class::Malformed("invalid-name") => "class_trailer_invalid_name",
        Class::Malformed(_) => "class_trailer_invalid_value",
        Class::Unpinned("bytes-after-trailers") => "class_unpinned_bytes_after_trailers",
        Class::Unpinned("compressed-trailers-flag") => "class_unpinned_flag_0x81",
        Class::Unpinned(_) => "class_unpinned_questionable_block",
    });
    o.label_if(truncated, "truncated");
    o.label_if(c.raw.is_some(), "raw_bytes");
    o.label_if(c.ct != 0, "response_content_type_other_spelling");
    o.label_if(c.seg != 0 && sc.chunks.iter().any(|ch| ch.len() >= 2 && ch.len() * c.seg as usize / 256 > 0), "data_in_two_buf_segments");
    o.label_if(!c.muts.is_empty(), "mutated");
    o.label_if(sc.err_step.is_some(), "inner_body_error");
    o.label_if(cut_in_header, "cut_in_frame_header");
    o.label_if(cut_in_tr_header, "cut_in_trailers_header");
    o.label_if(tr_split, "cut_in_trailers_payload");
    o.label_if(joint, "message_and_trailers_in_one_chunk");
    o.label_if(sc.chunks.len() == 1, "one_chunk");
    o.label_if(!body.is_empty() && sc.chunks.iter().all(|c| c.len() == 1), "byte_at_a_time");
    o.label_if(sc.chunks.iter().any(|c| c.is_empty()), "empty_chunk");
    o.label_if(sc.steps.iter().any(|s| matches!(s, BodyStep::Pending)), "body_pending");
    o.label_if(r.payloads.is_empty(), "zero_messages");
    o.label_if(r.payloads.len() >= 2, "messages>=2");
    o.label_if(r.payloads.iter().any(|p| p.0 == 1), "compressed_flag");
    o.label_if(r.payloads.iter().any(|p| p.1.len() > 8192), "message>8KiB");
    if let Class::WellFormed(t) = &class {
        let mm = multimap(t);
        o.label_if(mm.iter().any(|x| x.1.len() > 1), "trailer_repeated_name");
        o.label_if(t.iter().any(|x| x.1.contains(&b':')), "trailer_value_colon");
        o.label_if(t.iter().any(|x| x.1.contains(&b' ')), "trailer_value_space");
        o.label_if(t.iter().any(|x| x.0.ends_with("-bin")), "trailer_bin");
        o.label_if(t.iter().any(|x| x.0 == "grpc-message" && x.1.contains(&b'%')), "trailer_pct_message");
        o.label_if(t.iter().any(|x| x.0 == "grpc-status" && x.1 != b"0"), "status_not_ok");
        o.label_if(t.is_empty(), "trailers_empty_block");
        o.label_if(c.space && !t.is_empty(), "space_after_colon");
        o.label_if(c.trailers.as_ref().map(|v| v.iter().any(|x| x.n.bytes().any(|b| b.is_ascii_uppercase()))).unwrap_or(false), "trailer_mixed_case_name");
    }
    o.nontrivial = (!r.payloads.is_empty() && (cut_in_header || cut_in_tr_header || tr_split)) || truncated || matches!(class, Class::Cut(_));

    // ---- the body as the layer returns it
    let obs = observe_body(c, &sc)?;
    let verdict = judge_body(&facts, &obs);
    if c.mode == Mode::Body {
        verdict?;
        judge_request(&obs)?;
        let _ = &obs.resp_headers;
        return Ok(());
    }
    // ---- the same exchange through a generated client
    let co = observe_client(c, &sc);
    if let Err(mut f) = verdict {
        f.detail.push_str(&format!(
            " || caller ({:?} call): {} messages, then {:?}{}",
            c.mode,
            co.items.len(),
            co.end,
            match &co.trailers {
                Some(t) => format!(", trailing metadata {:?}", t),
                None => String::new(),
            }
        ));
        return Err(f);
    }
    judge_request(&obs)?;
    judge_client(c, &facts, &co, o)
}

// ------------------------------------------------------------------ generator

/// percent-encoding of a grpc-message as the gRPC spec describes it (generator side)
pub fn pct_encode(s: &str) -> String {
    let mut out = String::new();
    for &c in s.as_bytes() {
        if (0x20..=0x7e).contains(&c) && c != b'%' {
            out.push(c as char);
        } else {
            out.push_str(&format!("%{:02X}", c));
        }
    }
    // a value must not start or end with a space
    if out.starts_with(' ') {
        out.replace_range(0..1, "%20");
    }
    if out.ends_with(' ') {
        let n = out.len();
        out.replace_range(n - 1..n, "%20");
    }
    out
}

const NAMES: &[&str] = &["x-a", "X-A", "k", "K", "trace-id", "Trace-Id", "k-bin", "K-Bin", "zz-top", "a.b", "x-bin"];
const COLON_VALUES: &[&str] = &["a:b", "http://h:80/p?q=1", "12:34:56", ":lead", "trail:", "::", "x: y", "a b: c d", "k:v:w"];

fn tr_entry() -> BoxedStrategy<Tr> {
    proptest::sample::select(NAMES)
        .prop_flat_map(|n| {
            let v: BoxedStrategy<String> = if n.to_ascii_lowercase().ends_with("-bin") {
                (proptest::collection::vec(any::<u8>(), 0..=12), any::<bool>()).prop_map(|(b, pad)| wire::b64_encode(&b, pad)).boxed()
            } else {
                prop_oneof![
                    3 => "[a-z0-9]{0,8}".prop_map(|s| s),
                    4 => proptest::sample::select(COLON_VALUES).prop_map(|s| s.to_string()),
                    2 => "[!-~]{1,5}( [!-~]{1,5}){1,2}".prop_map(|s| s),
                    1 => Just(String::new()),
                    1 => Just("é:ü".to_string()),
                    // blanks at the end (and, behind the optional separator space, at the start) belong to the value
                    1 => "[a-z]{1,4}[ \t]{1,2}".prop_map(|s| s),
                ]
                .boxed()
            };
            v.prop_map(move |v| Tr { n: n.to_string(), v })
        })
        .boxed()
}

fn trailer_list() -> BoxedStrategy<Vec<Tr>> {
    let status = prop_oneof![
        4 => Just(Some(0u8)),
        5 => (1u8..=16).prop_map(Some),
        1 => Just(None),
    ];
    let message = prop_oneof![
        1 => Just(None),
        1 => gen::unicode_string(10).prop_map(|m| Some(pct_encode(&m))),
    ];
    (status, message, proptest::collection::vec(tr_entry(), 0..=5), any::<bool>(), any::<bool>())
        .prop_map(|(st, msg, extra, first, upper)| {
            let mut head = vec![];
            if let Some(s) = st {
                head.push(Tr { n: if upper { "Grpc-Status".into() } else { "grpc-status".into() }, v: s.to_string() });
            }
            if let Some(m) = msg {
                head.push(Tr { n: "grpc-message".into(), v: m });
            }
            if first {
                head.extend(extra);
                head
            } else {
                let mut v = extra;
                v.extend(head);
                v
            }
        })
        .boxed()
}

fn messages() -> BoxedStrategy<Vec<(u8, Blob)>> {
    let len = prop_oneof![
        2 => Just(0u32),
        6 => 1u32..=16,
        4 => 0u32..=300,
        1 => 8100u32..=9000,
    ];
    proptest::collection::vec((prop_oneof![9 => Just(0u8), 1 => Just(1u8)], blob_len(len)), 0..=5).boxed()
}

fn chunking() -> BoxedStrategy<(Base, Vec<Cut>)> {
    let any_cut = prop_oneof![
        (any::<u16>(), any::<u8>()).prop_map(|(s, o)| Cut::Header(s, o)),
        (any::<u16>(), any::<u16>()).prop_map(|(s, p)| Cut::Payload(s, p)),
        any::<u8>().prop_map(Cut::TrHeader),
        any::<u16>().prop_map(Cut::TrPayload),
        (0u32..400).prop_map(Cut::At),
    ];
    prop_oneof![
        2 => Just((Base::One, vec![])),
        2 => any::<u16>().prop_map(|p| (Base::One, vec![Cut::TrPayload(p)])),
        2 => any::<u8>().prop_map(|o| (Base::One, vec![Cut::TrHeader(o)])),
        2 => Just((Base::Frames, vec![])),
        2 => (any::<u16>(), any::<u8>()).prop_map(|(s, o)| (Base::Frames, vec![Cut::Header(s, o)])),
        2 => any::<u8>().prop_map(|o| (Base::Frames, vec![Cut::TrHeader(o)])),
        2 => any::<u16>().prop_map(|p| (Base::Frames, vec![Cut::TrPayload(p)])),
        2 => proptest::collection::vec(any_cut.clone(), 0..=1).prop_map(|c| (Base::FramesJoint, c)),
        1 => Just((Base::MsgsThenTrailers, vec![])),
        2 => Just((Base::Bytes, vec![])),
        5 => (gen::chunk_sizes(24), proptest::collection::vec(any_cut, 0..=3)).prop_map(|(s, c)| (Base::Sizes(s), c)),
    ]
    .boxed()
}

fn mutation() -> BoxedStrategy<Mutation> {
    let line = prop_oneof![
        3 => Just(LineMut::NoColon),
        3 => prop_oneof![Just(0u8), Just(b'('), Just(b'@'), Just(0xc3u8), Just(b' ')].prop_map(LineMut::BadName),
        3 => prop_oneof![Just(0u8), Just(0x7fu8), Just(0x0au8), Just(0x01u8)].prop_map(LineMut::BadValue),
        1 => Just(LineMut::NoFinalCrlf),
        1 => Just(LineMut::EmptyLine),
    ];
    prop_oneof![
        4 => (any::<u16>(), prop_oneof![Just(2u8), Just(3u8), Just(0x40u8), Just(0x81u8), Just(0x82u8), Just(0xffu8), Just(0x80u8), Just(0u8), any::<u8>()]).prop_map(|(s, v)| Mutation::Flag(s, v)),
        3 => (any::<u16>(), prop_oneof![Just(1i32), Just(-1i32), -6i32..=6, Just(256), Just(65536)]).prop_map(|(s, d)| Mutation::Len(s, d)),
        1 => (any::<u16>(), prop_oneof![Just(u32::MAX), Just(0x8000_0000u32), Just(0x0100_0000u32), any::<u32>()]).prop_map(|(s, d)| Mutation::LenAbs(s, d)),
        2 => any::<u16>().prop_map(Mutation::MoveTrailers),
        3 => prop_oneof![
            crate::infra::blob::small_bytes(9),
            Just(Blob::of(b"\r\n")),
            Just(Blob::of(&wire::frame(0, b"late"))),
            Just(Blob::of(&wire::frame(0x80, b"grpc-status:0\r\n"))),
        ]
        .prop_map(Mutation::Append),
        6 => (any::<u16>(), line).prop_map(|(s, l)| Mutation::Line(s, l)),
        2 => (any::<u16>(), 1u8..=255).prop_map(|(s, v)| Mutation::Corrupt(s, v)),
    ]
    .boxed()
}

fn complete() -> BoxedStrategy<Case> {
    (
        prop_oneof![6 => Just(Mode::Body), 3 => Just(Mode::Stream), 1 => Just(Mode::Unary)],
        messages(),
        prop_oneof![12 => trailer_list().prop_map(Some), 1 => Just(None)],
        proptest::bool::weighted(0.3),
        chunking(),
        prop_oneof![4 => Just(vec![]), 1 => proptest::collection::vec(any::<u16>(), 1..=2)],
        gen::pend_pattern(4),
        proptest::option::weighted(0.04, any::<u16>()),
        any::<bool>(),
        prop_oneof![3 => Just(0u8), 1 => 1u8..=5],
        prop_oneof![2 => Just(0u8), 3 => any::<u8>()],
    )
        .prop_map(|(mode, mut msgs, trailers, space, (base, cuts), empties, pend, body_err, plain_ct, ct, seg)| {
            if mode != Mode::Body {
                for m in msgs.iter_mut() {
                    m.0 = 0;
                }
            }
            if mode == Mode::Unary {
                msgs.truncate(2);
            }
            Case { mode, msgs, trailers, space, muts: vec![], raw: None, trunc: None, base, cuts, empties, pend, body_err, plain_ct, ct, seg }
        })
        .boxed()
}

fn truncated() -> BoxedStrategy<Case> {
    complete()
        .prop_flat_map(|c| {
            let b = build(&c);
            let len = b.full_len as u32;
            let starts: Vec<u32> = b.frames.iter().map(|f| f.off as u32).collect();
            let near_start: BoxedStrategy<u32> = if starts.is_empty() {
                Just(0u32).boxed()
            } else {
                (proptest::sample::select(starts), 0u32..=7).prop_map(|(s, d)| s + d).boxed()
            };
            let off = prop_oneof![
                3 => 0..=len,
                3 => near_start,
                2 => (0u32..=8).prop_map(move |d| len.saturating_sub(d)),
            ];
            (Just(c), off).prop_map(move |(mut c, t)| {
                c.trunc = Some(t.min(len));
                c
            })
        })
        .boxed()
}

fn malformed() -> BoxedStrategy<Case> {
    (complete(), proptest::collection::vec(mutation(), 1..=2))
        .prop_map(|(mut c, muts)| {
            c.muts = muts;
            c
        })
        .boxed()
}

fn raw() -> BoxedStrategy<Case> {
    let byte = prop_oneof![3 => Just(0u8), 1 => Just(1u8), 2 => Just(0x80u8), 2 => 0u8..=16, 1 => Just(b':'), 1 => Just(b'\r'), 1 => Just(b'\n'), 2 => any::<u8>()];
    (complete(), proptest::collection::vec(byte, 0..=40))
        .prop_map(|(mut c, r)| {
            c.msgs = vec![];
            c.trailers = None;
            c.raw = Some(Blob::Hex(hex(&r)));
            c
        })
        .boxed()
}

pub fn strategy() -> BoxedStrategy<Case> {
    prop_oneof![
        9 => complete(),
        6 => truncated(),
        4 => malformed(),
        1 => raw(),
    ]
    .boxed()
}

// ------------------------------------------------------------------ enumerated part

fn hand_picked() -> Vec<Case> {
    let m = |b: &[u8]| (0u8, Blob::of(b));
    let ok = || tr("grpc-status", "0");
    let mut v = vec![
        Case::simple(vec![], Some(vec![ok()])),
        Case::simple(vec![m(b"abc")], Some(vec![ok()])),
        Case::simple(vec![m(b"")], Some(vec![ok()])),
        Case::simple(vec![m(b"one"), m(b"second")], Some(vec![ok(), tr("grpc-message", "ok")])),
        Case::simple(vec![m(b"abc")], Some(vec![tr("grpc-status", "13"), tr("grpc-message", "boom%20bang")])),
        Case::simple(vec![m(b"abc")], Some(vec![ok(), tr("x-url", "http://h:80/")])),
        Case::simple(vec![m(b"abc")], Some(vec![tr("k", "1"), tr("k", "2"), ok()])),
        Case::simple(vec![m(b"abc")], Some(vec![tr("Grpc-Status", "0"), tr("X-A", "v")])),
        Case::simple(vec![m(b"abc")], Some(vec![ok(), tr("k-bin", "AQID")])),
        Case::simple(vec![m(b""), m(b"x"), m(b"twenty bytes payload.")], Some(vec![ok()])),
        Case::simple(vec![(1u8, Blob::of(b"zz"))], Some(vec![ok()])),
        Case::simple(vec![m(b"abc")], Some(vec![tr("x-a", "1"), tr("grpc-status", "5"), tr("grpc-message", "nf")])),
        Case::simple(vec![m(b"abc")], Some(vec![])),
        Case::simple(vec![m(b"ab"), m(b"cd")], None),
        Case::simple(vec![m(b"\x80\x00\x00\x00\x01:\x80\x00\x00\x00\x00")], Some(vec![ok()])),
        Case::simple(vec![(0u8, Blob::Rep(300, 7))], Some(vec![ok()])),
        Case::simple(vec![m(b"abc")], Some(vec![tr("grpc-status", "16"), tr("grpc-message", "%E4%BD%A0%E5%A5%BD: no")])),
        Case::simple(vec![m(b"abc")], Some(vec![ok(), tr("x-a", "a b c")])),
    ];
    // optional space after the colon
    let mut s1 = Case::simple(vec![m(b"abc")], Some(vec![ok()]));
    s1.space = true;
    let mut s2 = Case::simple(vec![m(b"abc")], Some(vec![ok(), tr("x-url", "http://h:80/"), tr("x-a", "a b: c")]));
    s2.space = true;
    v.push(s1);
    v.push(s2);
    v
}

pub fn fixed_cases() -> Vec<Case> {
    let mut v = vec![];
    let bodies = hand_picked();
    for (bi, b) in bodies.iter().enumerate() {
        let len = build(b).full_len as u32;
        // truncation at every byte offset x chunkings (x the caller's view)
        for k in 0..len {
            for base in [Base::One, Base::Frames, Base::Bytes] {
                let mut c = b.clone();
                c.trunc = Some(k);
                c.base = base;
                v.push(c);
            }
            let mut c = b.clone();
            c.trunc = Some(k);
            c.mode = if b.msgs.len() <= 1 && bi % 2 == 1 { Mode::Unary } else { Mode::Stream };
            c.pend = vec![0, 1];
            v.push(c);
        }
        // the complete body: every split into two chunks, as a body and through a client
        for mode in [Mode::Body, Mode::Stream] {
            if mode == Mode::Stream && b.msgs.iter().any(|x| x.0 != 0) {
                continue;
            }
            for base in [Base::One, Base::Frames, Base::FramesJoint, Base::MsgsThenTrailers, Base::Bytes] {
                let mut c = b.clone();
                c.base = base;
                c.mode = mode;
                v.push(c);
            }
            for p in 1..len {
                let mut c = b.clone();
                c.base = Base::One;
                c.cuts = vec![Cut::At(p)];
                c.mode = mode;
                v.push(c);
            }
        }
        // an empty chunk at every position of the per-frame chunking
        for e in 0..=(b.msgs.len() + 1) {
            let mut c = b.clone();
            let n = chunks_of(&c, &build(&c)).len() + 1;
            c.empties = vec![(((e.min(n - 1)) * 65536 + n - 1) / n).min(65535) as u16];
            v.push(c);
        }
    }
    // every split into three chunks of two short bodies
    for b in [&bodies[1], &bodies[6]] {
        let len = build(b).full_len as u32;
        for p in 1..len {
            for q in p + 1..len {
                let mut c = b.clone();
                c.base = Base::One;
                c.cuts = vec![Cut::At(p), Cut::At(q)];
                v.push(c);
            }
        }
    }
    v
}

// ------------------------------------------------------------------ fuzz decoding

/// Fuzz target `c17_web_client`. Layout: [flags][n][n size bytes][pend x2][body bytes...]:
/// a chunk plan and the raw response body.
pub fn from_bytes(data: &[u8]) -> Option<Case> {
    use arbitrary::Unstructured;
    let mut u = Unstructured::new(data);
    let flags: u8 = u.arbitrary().ok()?;
    let n = u.int_in_range(0usize..=16).ok()?;
    let mut sizes = vec![];
    for _ in 0..n {
        let b: u8 = u.arbitrary().ok()?;
        sizes.push(if b < 224 { (b % 8) as u16 } else { (b as u16 - 223) * 29 });
    }
    let pend: Vec<u8> = (0..2).map(|_| u.int_in_range(0u8..=2).unwrap_or(0)).collect();
    let body_err = if flags & 0x18 == 0x18 { Some(u.arbitrary().unwrap_or(0)) } else { None };
    let body = u.take_rest();
    let mut c = Case::simple(vec![], None);
    c.mode = match flags & 3 {
        0 | 1 => Mode::Body,
        2 => Mode::Stream,
        _ => Mode::Unary,
    };
    c.plain_ct = flags & 4 != 0;
    c.seg = if flags & 0x80 != 0 { 0x55 } else { 0 };
    c.base = if flags & 0x60 == 0x60 { Base::Bytes } else if flags & 0x60 == 0x40 { Base::One } else { Base::Sizes(sizes) };
    c.pend = pend;
    c.body_err = body_err;
    c.raw = Some(Blob::of(body));
    Some(c)
}

pub struct C17;
impl Prop for C17 {
    const ID: &'static str = "C17";
    type Case = Case;
    fn strategy() -> BoxedStrategy<Case> {
        strategy()
    }
    fn run(c: &Case, o: &mut Outcome) -> Result<(), Failure> {
        run(c, o)
    }
    fn rule() -> &'static str {
        "proptest + enumeration: tonic_web::GrpcWebClientService over a scripted inner tower service whose response body is built by the harness' own grpc-web encoder: 0-5 message frames (flag 0, 10% flag 1; payload 0, 1-16, <=300, 8-9 KiB) + one trailers frame (flag 0x80) whose block lists grpc-status 0..16 (or none), percent-encoded Unicode grpc-message, 0-5 entries from a small name pool (so names repeat; mixed-case variants; -bin values as padded/unpadded base64; values with ':' / inner spaces / empty / obs-text), with or without one space after the colon, status first or last; or no trailers frame. Families: 45% complete bodies, 30% truncated at a byte offset (uniform / near frame starts / near the end), 20% mutated (flag byte, declared length +-delta / absolute, trailers frame not last, bytes appended after the trailers, trailer line without colon / invalid name byte / invalid value byte / no final CRLF / empty line, xor of a byte), 5% raw bytes. Chunking (stratified): one chunk; one chunk + cut inside the trailers header / payload; per frame; per frame + cut inside a frame header / the trailers header / the trailers payload; per frame with the trailers glued to the last message; messages | trailers; byte at a time; random sizes (0,1,2-5,<=100,<=9000) + targeted cuts; empty chunks inserted; Pending pattern; 4% inner body error before some chunk. Every DATA chunk is handed over as a two-segment Buf (bytes::buf::Chain) split at a generated position (40%: first segment empty); the response content-type is application/grpc-web[+proto] or (25%) another spelling (+json, +thrift, parameters, mixed case). Modes: body polled directly (60%), the same exchange through a generated client as a server-streaming (30%) or unary (10%) call. Oracle (reference parse of the delivered bytes, written here): totality (no panic, poll budget, scripted body polled <= 8 times after its end, trip-wire at 1000 = busy loop), DATA so far always a prefix of the message bytes and never more than received, no None before the inner body ended unless a complete trailers frame arrived, None sticky; well-formed body: DATA == message frames' bytes exactly, then exactly one trailers frame whose map equals the expected ordered multimap (names lower-cased, full values, all repeats, nothing extra), then None, no Err; cut inside a frame header / message payload / trailers payload: an Err before any None and no trailers surfaced; bad flag bits: Err or the bytes handed on; trailer line without colon / invalid name / invalid value byte: Err; inner body error: Err. Caller's view: messages equal the payloads in order, then None + trailing metadata (status 0) or Err(code, percent-decoded message); a cut-off body never yields a successful call. Request side: the inner service sees exactly one content-type application/grpc-web[+proto], same method/URI/metadata and unchanged body bytes. Non-trivial: >=1 message and a chunk boundary strictly inside a frame header or inside the trailers frame, or a truncation; distinct = distinct serialised case. Trailer values may end in blanks. No-hold-back clause for well-formed bodies: when the bytes received so far are exactly whole message frames, they have been handed out before the inner body is polled again. Half of the inner bodies report is_end_stream exactly."
    }
    fn assumptions() -> Vec<String> {
        vec![
            "the client layer speaks binary grpc-web only (it always asks for application/grpc-web and never base64-decodes), so text-mode responses are not generated".into(),
            "a body that ends after whole message frames without any trailers frame is not 'cut off inside a frame': a clean end (with all message bytes) and an error are both accepted".into(),
            "unpinned, judged for totality and the prefix rule only: bytes after a complete trailers frame (incl. a trailers frame that is not last), flag 0x81 (compressed trailers), trailer blocks with an empty line, a last line without CRLF, a bare CR or extra whitespace around a value".into(),
            "generated trailer values never start or end with a space/tab; at most one space follows the colon".into(),
            "a trailers frame with an empty block may surface as an empty trailers map or not at all".into(),
            "x-grpc-web / accept request headers are not demanded (the statement does not name them)".into(),
            "caller's view is judged only for uncompressed message frames and a single canonical grpc-status value".into(),
        ]
    }
    fn cases(t: Tier) -> u64 {
        match t {
            Tier::Quick => 240_000,
            Tier::Thorough => 7_200_000,
        }
    }
    fn fixed_cases(_t: Tier) -> Vec<Case> {
        fixed_cases()
    }
    fn fixed_is_exhaustive() -> Option<&'static str> {
        Some("20 hand-picked bodies (0-3 messages; statuses 0/5/13/16; colon values, repeated names, mixed-case names, -bin, space after colon, empty block, no trailers frame, payload that looks like a trailers header, 300-byte payload): truncation at EVERY byte offset x {one chunk, per frame, byte at a time} as a body and once through a generated client; every split of the complete body into two chunks (body and client); five canonical chunkings; an empty chunk at every position; every split into three chunks of two short bodies")
    }
    fn from_bytes(data: &[u8]) -> Option<Case> {
        from_bytes(data)
    }
    fn fuzz(t: Tier) -> Option<FuzzSpec> {
        match t {
            Tier::Quick => None,
            Tier::Thorough => Some(FuzzSpec { target: "c17_web_client", runs: 2_000_000, max_len: 512 }),
        }
    }
    fn max_shrink_iters() -> u32 {
        3000
    }
}
