//! C02 – client observes exactly the messages, metadata and status the server produced (and vice versa),
//! over real hyper/h2 on both ends of an in-memory pipe with generated fragmentation.
use crate::infra::blob::{small_bytes, Blob};
use crate::infra::gen;
use crate::infra::handler::{CallLog, ErrKind, HandlerScript, PendOnce, RespMsg, Shared, StatusSpec, TestMsg};
use crate::infra::md::{self, MdEntry};
use crate::infra::net::Net;
use crate::infra::rt;
use crate::infra::runner::*;
use crate::svc::{vt, Msg};
use crate::{bail, ensure};
use proptest::prelude::*;
use serde::{Deserialize, Serialize};
use std::time::Duration;
use tonic::{Code, Request, Status};

#[derive(Clone, Copy, Debug, Serialize, Deserialize, PartialEq, Eq)]
pub enum Shape {
    Unary,
    ClientStream,
    ServerStream,
    Bidi,
}

#[derive(Clone, Debug, Serialize, Deserialize)]
pub struct Case {
    pub shape: Shape,
    pub prost: bool,
    pub script: HandlerScript,
    pub req_md: Vec<MdEntry>,
    /// request messages with spurious Pendings before each
    pub req_msgs: Vec<(Blob, u8)>,
    pub c2s: Vec<u8>,
    pub s2c: Vec<u8>,
    pub rt_seed: u64,
    /// further calls multiplexed concurrently on the same connection
    #[serde(default)]
    pub others: Vec<Other>,
    /// compression enabled (send + accept) on both peers
    #[serde(default)]
    pub comp: Option<crate::infra::wire::Enc>,
}

#[derive(Clone, Debug, Serialize, Deserialize)]
pub struct Other {
    pub shape: Shape,
    pub script: HandlerScript,
    pub req_msgs: Vec<(Blob, u8)>,
}

pub fn pipe_schedule() -> BoxedStrategy<Vec<u8>> {
    prop_oneof![
        2 => Just(vec![]),
        3 => proptest::collection::vec(prop_oneof![1 => Just(0u8), 4 => 1u8..=8, 3 => 9u8..=200, 2 => 201u8..=255], 1..12),
        1 => Just(vec![1u8]),
        1 => Just(vec![3u8]),
    ]
    .boxed()
}

pub fn wire_blob(allow_big: bool) -> BoxedStrategy<Blob> {
    if allow_big {
        prop_oneof![
            8 => small_bytes(40),
            3 => (0u32..=2000, any::<u32>()).prop_map(|(n, s)| Blob::Rnd(n, s)),
            1 => (16_000u32..=48 * 1024, any::<u8>()).prop_map(|(n, k)| Blob::Rep(n, k)),
            1 => (16_000u32..=40 * 1024, any::<u32>()).prop_map(|(n, s)| Blob::Rnd(n, s)),
            // larger than two yield thresholds and than the default 64 KiB stream window
            1 => (66_000u32..=130_000, any::<u8>()).prop_map(|(n, k)| Blob::Rep(n, k)),
        ]
        .boxed()
    } else {
        prop_oneof![8 => small_bytes(40), 2 => (0u32..=2000, any::<u32>()).prop_map(|(n, s)| Blob::Rnd(n, s))].boxed()
    }
}

pub fn status_spec() -> BoxedStrategy<StatusSpec> {
    (
        1i32..=16,
        prop_oneof![1 => Just(String::new()), 4 => gen::unicode_string(16)],
        prop_oneof![2 => Just(Blob::Hex(String::new())), 3 => small_bytes(24)],
        md::entries(4, true, false),
    )
        .prop_map(|(code, message, details, md)| StatusSpec { code, message, details, md })
        .boxed()
}

pub fn handler_script(streaming_response: bool) -> BoxedStrategy<HandlerScript> {
    let n = if streaming_response { 0usize..=6 } else { 1usize..=1 };
    (
        md::entries(4, true, false),
        proptest::collection::vec((wire_blob(true), prop_oneof![4 => Just(0u8), 1 => 1u8..=2], prop_oneof![5 => Just(0u32), 1 => 1u32..=50]), n),
        proptest::option::weighted(0.5, status_spec()),
        prop_oneof![Just(ErrKind::Handler), Just(ErrKind::StreamItem), Just(ErrKind::StreamItem)],
        prop_oneof![4 => Just(0u32), 1 => 1u32..=30],
        any::<bool>(),
    )
        .prop_map(|(initial_md, msgs, outcome, ek, latency_ms, drain_first)| HandlerScript {
            initial_md,
            msgs: msgs.into_iter().map(|(data, pend, delay_ms)| RespMsg { data, pend, delay_ms }).collect(),
            err_kind: outcome.as_ref().map(|_| ek),
            outcome,
            latency_ms,
            disable_compression: false,
            drain_first,
        })
        .boxed()
}

fn other() -> BoxedStrategy<Other> {
    prop_oneof![Just(Shape::Unary), Just(Shape::ClientStream), Just(Shape::ServerStream), Just(Shape::Bidi)]
        .prop_flat_map(|shape| {
            let streaming_resp = matches!(shape, Shape::ServerStream | Shape::Bidi);
            let streaming_req = matches!(shape, Shape::ClientStream | Shape::Bidi);
            let nreq = if streaming_req { 0usize..=4 } else { 1usize..=1 };
            (handler_script(streaming_resp), proptest::collection::vec((wire_blob(true), prop_oneof![4 => Just(0u8), 1 => 1u8..=2]), nreq)).prop_map(move |(script, req_msgs)| Other { shape, script, req_msgs })
        })
        .boxed()
}

pub fn strategy() -> BoxedStrategy<Case> {
    (prop_oneof![Just(Shape::Unary), Just(Shape::ClientStream), Just(Shape::ServerStream), Just(Shape::Bidi)], any::<bool>())
        .prop_flat_map(|(shape, prost)| {
            let streaming_resp = matches!(shape, Shape::ServerStream | Shape::Bidi);
            let streaming_req = matches!(shape, Shape::ClientStream | Shape::Bidi);
            let nreq = if streaming_req { 0usize..=6 } else { 1usize..=1 };
            (
                handler_script(streaming_resp),
                md::entries(4, true, false),
                proptest::collection::vec((wire_blob(true), prop_oneof![4 => Just(0u8), 1 => 1u8..=2]), nreq),
                pipe_schedule(),
                pipe_schedule(),
                any::<u64>(),
                prop_oneof![3 => Just(vec![]).boxed(), 1 => proptest::collection::vec(other(), 1..=3).boxed()],
                prop_oneof![3 => Just(None).boxed(), 1 => gen::enc().prop_map(Some).boxed()],
            )
                .prop_map(move |(script, req_md, req_msgs, c2s, s2c, rt_seed, others, comp)| Case { shape, prost, script, req_md, req_msgs, c2s, s2c, rt_seed, others, comp })
        })
        .boxed()
}

/// What the client observed.
#[derive(Debug, Default)]
pub struct Observed {
    pub call_err: Option<Status>,
    pub initial_md: Option<http::HeaderMap>,
    pub msgs: Vec<Vec<u8>>,
    pub stream_err: Option<Status>,
    pub clean_end: bool,
    pub extra_after_end: Vec<String>,
}

fn req_stream<M: TestMsg>(msgs: Vec<(Vec<u8>, u8)>) -> impl tokio_stream::Stream<Item = M> + Send + 'static {
    async_stream::stream! {
        for (m, pend) in msgs {
            for _ in 0..pend { PendOnce(false).await; }
            yield M::from_bytes(m);
        }
    }
}

fn with_md<T>(msg: T, mdv: &[MdEntry]) -> Request<T> {
    let mut r = Request::new(msg);
    *r.metadata_mut() = md::build_map(mdv);
    r
}

macro_rules! client_calls {
    ($fname:ident, $fname2:ident, $client:ty, $msg:ty) => {
        pub async fn $fname(ch: tonic::transport::Channel, shape: Shape, req_md: &[MdEntry], msgs: Vec<(Vec<u8>, u8)>) -> Observed {
            $fname2(ch, shape, req_md, msgs, None).await
        }
        pub async fn $fname2(ch: tonic::transport::Channel, shape: Shape, req_md: &[MdEntry], msgs: Vec<(Vec<u8>, u8)>, comp: Option<crate::infra::wire::Enc>) -> Observed {
            let mut client = <$client>::new(ch);
            if let Some(e) = comp {
                client = client.send_compressed(e.tonic()).accept_compressed(e.tonic());
            }
            let mut ob = Observed::default();
            match shape {
                Shape::Unary | Shape::ClientStream => {
                    let r = if shape == Shape::Unary {
                        let m = msgs.first().map(|m| m.0.clone()).unwrap_or_default();
                        client.unary(with_md(<$msg as TestMsg>::from_bytes(m), req_md)).await
                    } else {
                        client.client_stream(with_md(req_stream::<$msg>(msgs), req_md)).await
                    };
                    match r {
                        Ok(resp) => {
                            ob.initial_md = Some(resp.metadata().clone().into_headers());
                            ob.msgs.push(TestMsg::to_bytes(resp.get_ref()));
                            ob.clean_end = true;
                        }
                        Err(s) => ob.call_err = Some(s),
                    }
                }
                Shape::ServerStream | Shape::Bidi => {
                    let r = if shape == Shape::ServerStream {
                        let m = msgs.first().map(|m| m.0.clone()).unwrap_or_default();
                        client.server_stream(with_md(<$msg as TestMsg>::from_bytes(m), req_md)).await
                    } else {
                        client.bidi(with_md(req_stream::<$msg>(msgs), req_md)).await
                    };
                    match r {
                        Err(s) => ob.call_err = Some(s),
                        Ok(resp) => {
                            ob.initial_md = Some(resp.metadata().clone().into_headers());
                            let mut st = resp.into_inner();
                            loop {
                                match st.message().await {
                                    Ok(Some(m)) => ob.msgs.push(TestMsg::to_bytes(&m)),
                                    Ok(None) => {
                                        ob.clean_end = true;
                                        break;
                                    }
                                    Err(s) => {
                                        ob.stream_err = Some(s);
                                        break;
                                    }
                                }
                            }
                            // the outcome is final
                            for _ in 0..2 {
                                match st.message().await {
                                    Ok(None) => {}
                                    other => ob.extra_after_end.push(format!("{other:?}")),
                                }
                            }
                        }
                    }
                }
            }
            ob
        }
    };
}
client_calls!(calls_raw, calls_raw_comp, vt::raw_client::RawClient<tonic::transport::Channel>, Vec<u8>);
client_calls!(calls_prost, calls_prost_comp, vt::test_client::TestClient<tonic::transport::Channel>, Msg);

pub fn check_status(got: &Status, want: &StatusSpec, tag: &str) -> Result<(), Failure> {
    ensure!(got.code() == Code::from_i32(want.code), "C02/status-code", "{tag}: code {:?}, handler produced {}", got.code(), want.code);
    ensure!(got.message() == want.message, "C02/status-message", "{tag}: message {:?}, handler produced {:?}", got.message(), want.message);
    ensure!(got.details() == &want.details.bytes()[..], "C02/status-details", "{tag}: details differ");
    if let Err(e) = md::check_present(&got.metadata().clone().into_headers(), &want.md, None) {
        bail!("C02/status-metadata", "{tag}: {e}");
    }
    Ok(())
}

/// Judges what the client observed against the handler script (the reference model).
pub fn judge_client(shape: Shape, script: &HandlerScript, ob: &Observed) -> Result<(), Failure> {
    let streaming_resp = matches!(shape, Shape::ServerStream | Shape::Bidi);
    ensure!(ob.extra_after_end.is_empty(), "C02/outcome-not-final", "after the outcome the stream yielded {:?}", ob.extra_after_end);
    let handler_err = script.outcome.is_some() && (!streaming_resp || script.err_kind == Some(ErrKind::Handler));
    if handler_err {
        let want = script.outcome.as_ref().unwrap();
        match &ob.call_err {
            Some(s) => check_status(s, want, "trailers-only error")?,
            None => bail!("C02/error-reported-as-success", "handler failed with code {} but the call returned Ok (messages {})", want.code, ob.msgs.len()),
        }
        return Ok(());
    }
    if let Some(s) = &ob.call_err {
        bail!("C02/success-reported-as-error", "handler produced a response but the call failed: {s:?}");
    }
    let init = ob.initial_md.as_ref().expect("initial metadata recorded");
    if let Err(e) = md::check_present(init, &script.initial_md, None) {
        bail!("C02/initial-metadata", "{e}");
    }
    let want_msgs: Vec<Vec<u8>> = if streaming_resp { script.msgs.iter().map(|m| m.data.bytes()).collect() } else { vec![script.msgs.first().map(|m| m.data.bytes()).unwrap_or_default()] };
    for (i, m) in ob.msgs.iter().enumerate() {
        ensure!(i < want_msgs.len(), "C02/extra-response-message", "client received {} messages, handler sent {}", ob.msgs.len(), want_msgs.len());
        ensure!(*m == want_msgs[i], "C02/response-message-altered", "response message {i} differs ({} vs {} bytes)", m.len(), want_msgs[i].len());
    }
    ensure!(ob.msgs.len() == want_msgs.len(), "C02/response-messages-lost", "client received {} of {} messages (stream error: {:?}, clean end: {})", ob.msgs.len(), want_msgs.len(), ob.stream_err, ob.clean_end);
    match (&script.outcome, &ob.stream_err) {
        (Some(want), Some(got)) => check_status(got, want, "status after messages")?,
        (Some(want), None) => bail!("C02/error-reported-as-success", "handler ended the stream with code {} but the client saw a clean end", want.code),
        (None, Some(got)) => bail!("C02/success-reported-as-error", "handler ended OK but the client saw {got:?}"),
        (None, None) => ensure!(ob.clean_end, "C02/no-outcome", "neither end nor error observed"),
    }
    Ok(())
}

/// Judges what the handler saw against what the caller sent.
pub fn judge_server(shape: Shape, script: &HandlerScript, log: &[CallLog], req_md: &[MdEntry], req_msgs: &[Vec<u8>]) -> Result<(), Failure> {
    ensure!(log.len() == 1, "C02/handler-invocations", "handler ran {} times for one call", log.len());
    let l = &log[0];
    let want_method = match shape {
        Shape::Unary => "Unary",
        Shape::ClientStream => "ClientStream",
        Shape::ServerStream => "ServerStream",
        Shape::Bidi => "Bidi",
    };
    ensure!(l.method == want_method, "C02/wrong-method-dispatched", "{} ran for {want_method}", l.method);
    if let Err(e) = md::check_present(&l.metadata, req_md, None) {
        bail!("C02/request-metadata", "{e}");
    }
    // a handler that fails before reading its request stream need not have seen all messages
    let early_error = shape == Shape::Bidi && script.outcome.is_some() && script.err_kind == Some(ErrKind::Handler);
    if !early_error {
        ensure!(l.req_error.is_none(), "C02/request-stream-error", "handler saw a request-stream error: {:?}", l.req_error);
        ensure!(l.req_ended, "C02/request-stream-not-ended", "handler never saw the end of the request stream");
        ensure!(l.msgs.len() == req_msgs.len(), "C02/request-messages-count", "handler received {} messages, caller sent {}", l.msgs.len(), req_msgs.len());
        for (i, (g, w)) in l.msgs.iter().zip(req_msgs.iter()).enumerate() {
            ensure!(g == w, "C02/request-message-altered", "request message {i} differs");
        }
    }
    Ok(())
}

pub fn run(c: &Case, o: &mut Outcome) -> Result<(), Failure> {
    let mut scripts = vec![c.script.clone()];
    scripts.extend(c.others.iter().map(|x| x.script.clone()));
    let sh = Shared::new(scripts);
    let streaming_resp = matches!(c.shape, Shape::ServerStream | Shape::Bidi);
    let k = c.script.msgs.len();
    let small_reads = c.c2s.iter().chain(c.s2c.iter()).any(|s| (1..9).contains(s));
    o.label(match c.shape {
        Shape::Unary => "unary",
        Shape::ClientStream => "client_stream",
        Shape::ServerStream => "server_stream",
        Shape::Bidi => "bidi",
    });
    o.label_if(c.script.outcome.is_some(), "outcome_error");
    o.label_if(c.script.outcome.is_none(), "outcome_ok");
    o.label_if(c.script.outcome.is_some() && (c.script.err_kind == Some(ErrKind::Handler) || !streaming_resp), "error_trailers_only");
    o.label_if(c.script.outcome.is_some() && streaming_resp && c.script.err_kind == Some(ErrKind::StreamItem) && k == 0, "error_as_first_stream_item");
    o.label_if(c.script.outcome.is_some() && streaming_resp && c.script.err_kind == Some(ErrKind::StreamItem) && k >= 1, "error_after_messages");
    o.label_if(c.script.outcome.as_ref().map(|s| s.md.iter().any(|e| e.is_bin())).unwrap_or(false), "binary_status_metadata");
    o.label_if(c.script.outcome.as_ref().map(|s| !s.message.is_ascii()).unwrap_or(false), "unicode_message");
    o.label_if(small_reads, "reads_inside_frame_header");
    o.label_if(c.req_msgs.iter().any(|m| m.0.len() > 16384) || c.script.msgs.iter().any(|m| m.data.len() > 16384), "message_over_one_h2_frame");
    o.label_if(c.prost, "prost");
    o.label_if(!c.others.is_empty(), "multiplexed_calls");
    o.label_if(c.comp.is_some(), "compression_enabled");
    let err_rich = c.script.outcome.as_ref().map(|s| s.details.len() > 0 && !s.md.is_empty()).unwrap_or(false);
    o.nontrivial = (c.script.outcome.is_some() && streaming_resp && c.script.err_kind == Some(ErrKind::StreamItem) && k >= 1) || err_rich || (k >= 2 && small_reads);

    let (net, incoming) = Net::new(vec![(c.c2s.clone(), c.s2c.clone())]);
    let req_msgs: Vec<(Vec<u8>, u8)> = c.req_msgs.iter().map(|(b, p)| (b.bytes(), *p)).collect();
    let sent: Vec<Vec<u8>> = req_msgs.iter().map(|m| m.0.clone()).collect();
    let shape = c.shape;
    let prost = c.prost;
    let req_md = c.req_md.clone();
    let sh2 = sh.clone();
    let others = c.others.clone();
    let comp = c.comp;
    let rt_seed_for_knobs = c.rt_seed;
    let net_for_knobs = net.clone();
    o.label_if(rt_seed_for_knobs % 8 == 3, "transient_accept_error_before_the_connection");
    o.label_if(rt_seed_for_knobs % 4 == 0, "server_concurrency_limit_per_connection");
    let res = rt::run_virtual(c.rt_seed, Duration::from_secs(3600), async move {
        let server = tonic::transport::Server::builder();
        let mut server = server;
        // a transient accept error (ECONNABORTED-like) before the client connects: the server keeps accepting
        if rt_seed_for_knobs % 8 == 3 {
            net_for_knobs.inject_accept_error(std::io::ErrorKind::ConnectionAborted);
        }
        // a per-connection concurrency limit puts a readiness-dependent layer into the server stack
        if rt_seed_for_knobs % 4 == 0 {
            server = server.concurrency_limit_per_connection(1 + (rt_seed_for_knobs / 4 % 3) as usize);
        }
        let router = if prost {
            let mut s = vt::test_server::TestServer::new(sh2.clone());
            if let Some(e) = comp {
                s = s.send_compressed(e.tonic()).accept_compressed(e.tonic());
            }
            server.add_service(s)
        } else {
            let mut s = vt::raw_server::RawServer::new(sh2.clone());
            if let Some(e) = comp {
                s = s.send_compressed(e.tonic()).accept_compressed(e.tonic());
            }
            server.add_service(s)
        };
        let srv = tokio::spawn(async move { router.serve_with_incoming(incoming).await });
        // the endpoint URI may carry a path (and a trailing slash): only scheme and authority matter for requests
        let ep_uri = ["http://pipe.test", "http://pipe.test/", "http://pipe.test/grpc", "http://pipe.test/a/b/"][(rt_seed_for_knobs / 8 % 4) as usize];
        let ch = match tonic::transport::Endpoint::from_static(ep_uri).connect_with_connector(net.connector()).await {
            Ok(ch) => ch,
            Err(e) => return Err(format!("connect failed: {e:?}")),
        };
        // the other calls run concurrently on the same channel (same HTTP/2 connection)
        let mut tasks = vec![];
        for (i, x) in others.iter().enumerate() {
            let ch2 = ch.clone();
            let md = vec![MdEntry { name: "x-script".into(), val: crate::infra::blob::hex((i + 1).to_string().as_bytes()) }];
            let msgs: Vec<(Vec<u8>, u8)> = x.req_msgs.iter().map(|(b, p)| (b.bytes(), *p)).collect();
            let sh = x.shape;
            tasks.push(tokio::spawn(async move { if prost { calls_prost_comp(ch2, sh, &md, msgs, comp).await } else { calls_raw_comp(ch2, sh, &md, msgs, comp).await } }));
        }
        let ob = if prost { calls_prost_comp(ch, shape, &req_md, req_msgs, comp).await } else { calls_raw_comp(ch, shape, &req_md, req_msgs, comp).await };
        let mut obs_others = vec![];
        for t in tasks {
            match t.await {
                Ok(o) => obs_others.push(o),
                Err(e) => return Err(format!("concurrent call task failed: {e}")),
            }
        }
        rt::quiesce().await;
        srv.abort();
        Ok((ob, obs_others))
    });
    let ob = match res {
        Err(_) => bail!("C02/call-never-completes", "the call did not complete (virtual-time watchdog: nothing left to run)"),
        Ok(Err(e)) => bail!("C02/connect", "{e}"),
        Ok(Ok(ob)) => ob,
    };
    let (ob, obs_others) = ob;
    judge_client(c.shape, &c.script, &ob)?;
    let log = sh.log.lock().unwrap().clone();
    let main_log: Vec<CallLog> = log.iter().filter(|l| l.script == 0).cloned().collect();
    judge_server(c.shape, &c.script, &main_log, &c.req_md, &sent)?;
    for (i, (x, obx)) in c.others.iter().zip(obs_others.iter()).enumerate() {
        let tag = |mut f: Failure| {
            f.detail = format!("multiplexed call {}: {}", i + 1, f.detail);
            f
        };
        judge_client(x.shape, &x.script, obx).map_err(tag)?;
        let xl: Vec<CallLog> = log.iter().filter(|l| l.script == i + 1).cloned().collect();
        let sent_x: Vec<Vec<u8>> = if matches!(x.shape, Shape::ClientStream | Shape::Bidi) { x.req_msgs.iter().map(|m| m.0.bytes()).collect() } else { vec![x.req_msgs.first().map(|m| m.0.bytes()).unwrap_or_default()] };
        judge_server(x.shape, &x.script, &xl, &[], &sent_x).map_err(tag)?;
    }
    Ok(())
}

pub struct C02;
impl Prop for C02 {
    const ID: &'static str = "C02";
    type Case = Case;
    fn strategy() -> BoxedStrategy<Case> {
        strategy()
    }
    fn run(c: &Case, o: &mut Outcome) -> Result<(), Failure> {
        run(c, o)
    }
    fn rule() -> &'static str {
        "proptest over complete client<->server scenarios: generated (tonic-build of the working tree) services vt.Raw / vt.Test (prost) x four call shapes x handler script (initial metadata; 0-6 response messages with Pending/virtual-delay patterns; OK or Status(code 1-16, Unicode message, details, ASCII/binary metadata) returned by the handler itself or as a stream item after the messages) x caller metadata and 0-6 request messages x pipe fragmentation schedules in both directions (0 = spurious Pending, 1-8 byte reads, larger reads) x scheduler seed; real tonic Channel and Server over hyper/h2 on an in-memory pipe, single-threaded runtime, paused clock. Oracle: the script is the reference model for what the client must observe (messages, order, outcome, code/message/details, every metadata entry), the caller's request for what the handler must observe; virtual-time watchdog for completion. Non-trivial: error after >=1 message, or error with details and metadata, or >=2 messages with reads shorter than an h2 frame header; distinct = distinct serialised case. A quarter of the cases configure Server::concurrency_limit_per_connection(1..3); handler streams of scripts with an even number of messages report their exact length. An eighth of the cases inject a transient accept error before the client connects; endpoint URIs may carry a path; pipe directions may take short writes."
    }
    fn assumptions() -> Vec<String> {
        vec![
            "metadata comparison is 'every attached entry present with the same ordered values' (transport and framework add headers)".into(),
            "handler error statuses never carry Code::Ok; user metadata names avoid HTTP/2 connection-specific headers".into(),
            "a bidi handler that fails before reading its request stream need not have seen the request messages".into(),
        ]
    }
    fn cases(t: Tier) -> u64 {
        match t {
            Tier::Quick => 24_000,
            Tier::Thorough => 200_000,
        }
    }
    fn max_shrink_iters() -> u32 {
        600
    }
}
