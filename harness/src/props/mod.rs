pub mod c01;
