pub mod c01;
pub mod c04;
