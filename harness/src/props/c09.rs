//! C09 – deadlines: faithful grpc-timeout encoding (a), exact parsing of conformant values and ignoring
//! of malformed ones (b), shortest-deadline enforcement in virtual time over the in-memory pipe (c).
use crate::infra::blob::{hex, unhex, Blob};
use crate::infra::handler::{ErrKind, HandlerScript, RespMsg, Shared};
use crate::infra::md;
use crate::infra::net::Net;
use crate::infra::rt;
use crate::infra::runner::*;
use crate::infra::wire;
use crate::props::c02;
use crate::svc::vt;
use crate::{bail, ensure};
use proptest::prelude::*;
use serde::{Deserialize, Serialize};
use std::time::Duration;
use tonic::transport::verif_hooks::parse_grpc_timeout;
use tonic::{Code, Request};

// ------------------------------------------------------------------------------------------ case

/// A header value: printable ASCII is kept readable, anything else is hex.
#[derive(Clone, Debug, Serialize, Deserialize, PartialEq, Eq)]
pub enum Val {
    S(String),
    X(String),
}
impl Val {
    pub fn bytes(&self) -> Vec<u8> {
        match self {
            Val::S(s) => s.as_bytes().to_vec(),
            Val::X(h) => unhex(h),
        }
    }
    pub fn of(b: &[u8]) -> Val {
        if b.iter().all(|c| (0x20..=0x7e).contains(c)) {
            Val::S(String::from_utf8(b.to_vec()).unwrap())
        } else {
            Val::X(hex(b))
        }
    }
}

/// How the caller states its deadline on the request.
#[derive(Clone, Debug, Serialize, Deserialize, PartialEq, Eq)]
pub enum ReqTo {
    /// `Request::set_timeout(Duration::from_micros(us))`
    Set { us: u64 },
    /// raw `grpc-timeout` metadata entry (conformant or malformed)
    Raw { text: String },
}

#[derive(Clone, Debug, Serialize, Deserialize)]
pub struct Scen {
    pub stream: bool,
    pub req_to: Option<ReqTo>,
    /// `Endpoint::timeout`, microseconds
    pub ep_us: Option<u64>,
    /// `Server::timeout`, microseconds
    pub srv_us: Option<u64>,
    /// `script.latency_ms` is the handler latency l
    pub script: HandlerScript,
    pub req: Blob,
    pub c2s: Vec<u8>,
    pub s2c: Vec<u8>,
    pub rt_seed: u64,
    /// how the server builder is used besides `timeout`: bit 0 `.layer(Identity)` after `.timeout(..)`,
    /// bit 1 `.tcp_keepalive(Some(7 ms))` (another Option<Duration> knob that must not act as a deadline),
    /// bit 2 `.layer(Identity)` before `.timeout(..)`
    #[serde(default)]
    pub srv_cfg: u8,
    /// the executor is "busy" from l/2 until after the deadline (the virtual clock jumps over both the handler's
    /// completion time and the deadline in one step): a call whose handler finishes before the deadline is still
    /// unaffected, however late the runtime gets to look at it. Only used when Server::timeout is the only deadline.
    #[serde(default)]
    pub stall: bool,
}

#[derive(Clone, Debug, Serialize, Deserialize)]
pub enum Case {
    /// (a) `Request::set_timeout(Duration::new(secs, nanos))`
    Enc { secs: u64, nanos: u32 },
    /// (b) header map with these `grpc-timeout` values (0, 1 or 2), `mutant` = built as one edit of a valid value
    Parse { vals: Vec<Val>, mutant: bool },
    /// (c)
    Enforce(Scen),
    /// (c') the peer never answers: the caller's own side must cut the call off. `how`: 0 = Request::set_timeout,
    /// 1 = raw grpc-timeout header (milliseconds), 2 = Endpoint::timeout
    ClientOnly { to_ms: u32, how: u8, c2s: Vec<u8>, s2c: Vec<u8>, rt_seed: u64 },
}

// ------------------------------------------------------------------------------------------ tables (own)

/// unit letter, nanoseconds per unit (finest first) – transcribed from the gRPC HTTP/2 protocol document
pub const UNITS: [(u8, u128); 6] = [
    (b'n', 1),
    (b'u', 1_000),
    (b'm', 1_000_000),
    (b'S', 1_000_000_000),
    (b'M', 60_000_000_000),
    (b'H', 3_600_000_000_000),
];
pub const MAX_DIGITS_VALUE: u128 = 99_999_999;
/// 99 999 999 h 59 m 59.999999999 s: the largest duration whose hour count still has 8 digits
pub const MAX_NS: u128 = 100_000_000u128 * 3_600_000_000_000 - 1;
const NS_PER_S: u128 = 1_000_000_000;

fn unit_index(u: u8) -> Option<usize> {
    UNITS.iter().position(|x| x.0 == u)
}

fn from_ns(ns: u128) -> (u64, u32) {
    ((ns / NS_PER_S) as u64, (ns % NS_PER_S) as u32)
}

// ------------------------------------------------------------------------------------------ generators

fn enc_case() -> BoxedStrategy<Case> {
    let boundary = (
        0usize..6,
        prop_oneof![
            4 => Just(99_999_999u128),
            4 => Just(100_000_000u128),
            2 => Just(99_999_998u128),
            2 => Just(100_000_001u128),
            1 => Just(9_999_999u128),
            1 => Just(10_000_000u128),
            1 => Just(1u128),
            1 => Just(0u128),
        ],
        0u8..8,
        any::<u64>(),
        any::<bool>(),
    )
        .prop_map(|(ui, k, ek, r, neg)| {
            let u = UNITS[ui].1;
            let e = match ek {
                0 => 0,
                1 => 1,
                2 => u - 1,
                3 => u / 2,
                4 => r as u128 % u,
                5 => 999.min(u - 1),
                6 => 2.min(u - 1),
                _ => u.saturating_sub(2),
            };
            let base = k * u;
            let ns = if neg { base.saturating_sub(e) } else { base + e };
            let (secs, nanos) = from_ns(ns.min(MAX_NS));
            Case::Enc { secs, nanos }
        });
    let nanos = prop_oneof![
        2 => Just(0u32),
        1 => Just(1u32),
        1 => Just(999_999_999u32),
        1 => Just(999_999_000u32),
        1 => Just(999_000_000u32),
        1 => (0u32..1000).prop_map(|x| x * 1_000_000),
        1 => (0u32..1_000_000).prop_map(|x| x * 1_000),
        3 => 0u32..1_000_000_000,
    ];
    let random = (0u32..=39, any::<u64>(), nanos).prop_map(|(bits, r, nanos)| {
        let secs = if bits == 0 { 0 } else { r >> (64 - bits) };
        let secs = secs.min((MAX_NS / NS_PER_S) as u64);
        Case::Enc { secs, nanos }
    });
    let special = prop_oneof![
        Just(Case::Enc { secs: 0, nanos: 0 }),
        Just(Case::Enc { secs: 0, nanos: 1 }),
        Just(Case::Enc { secs: (MAX_NS / NS_PER_S) as u64, nanos: 999_999_999 }),
        Just(Case::Enc { secs: 30, nanos: 0 }),
    ];
    let over_max = (0u8..5, any::<u64>(), 0u32..1_000_000_000).prop_map(|(k, r, nanos)| {
        let first = (MAX_NS / NS_PER_S) as u64 + 1;
        let secs = match k {
            0 => first,
            1 => first + 1,
            2 => first + r % 1_000_000_000_000,
            3 => u64::MAX,
            _ => first.max(r),
        };
        Case::Enc { secs, nanos: if k == 0 { 0 } else { nanos } }
    });
    prop_oneof![20 => boundary, 16 => random, 2 => special, 1 => over_max].boxed()
}

/// class: 0 = min (10^(k-1)), 1 = max (10^k - 1), 2 = all zero, 3 = leading zeros, 4.. = pseudo-random digits
fn make_valid(ui: usize, k: usize, class: u8, r: u64) -> Vec<u8> {
    let mut digits: Vec<u8> = match class {
        0 => {
            let mut d = vec![b'0'; k];
            d[0] = b'1';
            d
        }
        1 => vec![b'9'; k],
        2 => vec![b'0'; k],
        _ => {
            let mut x = r | 1;
            (0..k)
                .map(|_| {
                    x ^= x << 13;
                    x ^= x >> 7;
                    x ^= x << 17;
                    b'0' + (x % 10) as u8
                })
                .collect()
        }
    };
    if class == 3 {
        // 1..k-1 leading zeros (k = 1: "0" is class 2 already; use a non-zero digit)
        let z = if k == 1 { 0 } else { 1 + (r as usize >> 8) % (k - 1) };
        for d in digits.iter_mut().take(z) {
            *d = b'0';
        }
        if digits[k - 1] == b'0' {
            digits[k - 1] = b'7';
        }
    }
    digits.push(UNITS[ui].0);
    digits
}

fn valid_text() -> BoxedStrategy<Vec<u8>> {
    (0usize..6, 1usize..=8, 0u8..7, any::<u64>()).prop_map(|(ui, k, c, r)| make_valid(ui, k, c, r)).boxed()
}

const MUT_CHARS: &[u8] = b"+-  \t.0123456789HMSmunhsUNeE_,xX:/\x00\x7f\x80\xb5\xff";

/// one edit of `s`: 0 insert, 1 delete, 2 replace, 3 flip the case of the unit, 4 duplicate the unit, 5 transpose
pub fn mutate(s: &[u8], op: u8, pos: u16, ch: u16) -> Vec<u8> {
    let mut v = s.to_vec();
    let c = MUT_CHARS[crate::infra::gen::pick(ch, MUT_CHARS.len())];
    match op % 6 {
        0 => {
            let p = crate::infra::gen::pick(pos, v.len() + 1);
            v.insert(p, c);
        }
        1 => {
            if !v.is_empty() {
                let p = crate::infra::gen::pick(pos, v.len());
                v.remove(p);
            }
        }
        2 => {
            if !v.is_empty() {
                let p = crate::infra::gen::pick(pos, v.len());
                v[p] = c;
            }
        }
        3 => {
            if let Some(l) = v.last_mut() {
                *l ^= 0x20;
            }
        }
        4 => {
            if let Some(l) = v.last().copied() {
                v.push(l);
            }
        }
        _ => {
            if v.len() >= 2 {
                let p = crate::infra::gen::pick(pos, v.len() - 1);
                v.swap(p, p + 1);
            }
        }
    }
    v
}

fn mutant_text() -> BoxedStrategy<Vec<u8>> {
    (valid_text(), 0u8..6, any::<u16>(), any::<u16>()).prop_map(|(s, op, pos, ch)| mutate(&s, op, pos, ch)).boxed()
}

fn arbitrary_text() -> BoxedStrategy<Vec<u8>> {
    let b = prop_oneof![
        6 => proptest::sample::select(&b"0123456789"[..]),
        3 => proptest::sample::select(&b"HMSmun"[..]),
        2 => proptest::sample::select(&b"+- .\t"[..]),
        2 => any::<u8>(),
    ];
    proptest::collection::vec(b, 0..=12).boxed()
}

/// a conformant value (or a bare number / bare unit) padded with blanks on either side, as a sloppy bridge might
/// forward it: not conformant, to be ignored
fn padded_text() -> BoxedStrategy<Vec<u8>> {
    let blank = || proptest::collection::vec(prop_oneof![3 => Just(b' '), 1 => Just(b'\t')], 0..=3);
    (blank(), valid_text(), 0u8..4, blank())
        .prop_map(|(l, mut v, cut, r)| {
            match cut {
                1 => {
                    v.pop();
                }
                2 => v = v.last().map(|u| vec![*u]).unwrap_or_default(),
                _ => {}
            }
            let mut out = l;
            out.extend(v);
            out.extend(r);
            out
        })
        .boxed()
}

fn any_text() -> BoxedStrategy<Vec<u8>> {
    prop_oneof![3 => valid_text(), 3 => mutant_text(), 1 => arbitrary_text()].boxed()
}

fn parse_case() -> BoxedStrategy<Case> {
    prop_oneof![
        6 => valid_text().prop_map(|s| Case::Parse { vals: vec![Val::of(&s)], mutant: false }),
        10 => mutant_text().prop_map(|s| Case::Parse { vals: vec![Val::of(&s)], mutant: true }),
        5 => arbitrary_text().prop_map(|s| Case::Parse { vals: vec![Val::of(&s)], mutant: false }),
        3 => padded_text().prop_map(|s| Case::Parse { vals: vec![Val::of(&s)], mutant: false }),
        2 => (any_text(), any_text()).prop_map(|(a, b)| Case::Parse { vals: vec![Val::of(&a), Val::of(&b)], mutant: false }),
    ]
    .boxed()
}

/// Malformed values usable as a raw header in a scenario (all legal ASCII metadata values). Values with a
/// leading '+' are left to family (b).
const RAW_MALFORMED: &[&str] = &["", "5", "S", "5s", "5 S", " 5S", "5S ", "-1S", "1.5S", "123456789m", "5SS", "0x5S", "5h", "m5", "10 m", "1e3m"];

#[derive(Clone, Copy, Debug)]
enum LatSel {
    Below(u32),
    Above(u32),
    FarBelow,
    FarAbove,
    Between,
}

/// Renders `us` microseconds as a conformant value in a unit chosen by `unit_sel` (truncating), zero-padded by `pad`.
fn raw_text(us: u64, unit_sel: u16, pad: u8) -> String {
    let ns = us as u128 * 1000;
    let mut cands: Vec<(u8, u128)> = vec![];
    for (u, per) in UNITS {
        let v = ns / per;
        if v <= MAX_DIGITS_VALUE && (v >= 1 || ns == 0) {
            cands.push((u, v));
        }
    }
    let (u, v) = cands[crate::infra::gen::pick(unit_sel, cands.len())];
    let digits = v.to_string();
    let width = (digits.len() + pad as usize).min(8);
    format!("{:0>width$}{}", digits, u as char, width = width)
}

fn base_us() -> BoxedStrategy<u64> {
    prop_oneof![
        5 => (3u64..=40).prop_map(|ms| ms * 1000),
        3 => (40u64..=2000).prop_map(|ms| ms * 1000),
        2 => 3_000u64..=60_000,
        2 => (2_000u64..=200_000).prop_map(|ms| ms * 1000),
        1 => Just(3_600_000_000u64),
        // a day and more: long deadlines are deadlines too (virtual time makes them cheap)
        1 => prop_oneof![Just(68_720_000_000u64), Just(86_400_000_000u64), Just(30 * 86_400_000_000u64)],
    ]
    .boxed()
}

fn gap_us() -> BoxedStrategy<u64> {
    prop_oneof![
        1 => Just(0u64),
        2 => Just(1_000u64),
        4 => (4u64..=30).prop_map(|ms| ms * 1000),
        2 => (30u64..=5000).prop_map(|ms| ms * 1000),
        1 => 1u64..=20_000,
        1 => Just(3_600_000_000u64),
    ]
    .boxed()
}

fn scen_script(stream: bool) -> BoxedStrategy<HandlerScript> {
    let n = if stream { 0usize..=4 } else { 1usize..=1 };
    (
        md::entries(3, true, false),
        proptest::collection::vec((c02::wire_blob(false), prop_oneof![4 => Just(0u8), 1 => 1u8..=2]), n),
        proptest::option::weighted(0.25, c02::status_spec()),
        prop_oneof![Just(ErrKind::Handler), Just(ErrKind::StreamItem)],
    )
        .prop_map(move |(initial_md, msgs, outcome, ek)| HandlerScript {
            initial_md,
            msgs: msgs.into_iter().map(|(data, pend)| RespMsg { data, pend, delay_ms: 0 }).collect(),
            err_kind: outcome.as_ref().map(|_| if stream { ek.clone() } else { ErrKind::Handler }),
            outcome,
            latency_ms: 0,
            disable_compression: false,
            drain_first: false,
        })
        .boxed()
}

/// effective timeouts (nanoseconds) by source: the oracle's reading of the configuration
pub fn effective(s: &Scen) -> [(&'static str, Option<u128>); 3] {
    let req = match &s.req_to {
        None => None,
        Some(ReqTo::Set { us }) => Some(*us as u128 * 1000),
        Some(ReqTo::Raw { text }) => wire::parse_timeout_spec(text.as_bytes()),
    };
    [("req", req), ("ep", s.ep_us.map(|u| u as u128 * 1000)), ("srv", s.srv_us.map(|u| u as u128 * 1000))]
}

fn shortest(s: &Scen) -> Option<(&'static str, u128)> {
    let mut best: Option<(&'static str, u128)> = None;
    for (w, v) in effective(s) {
        if let Some(v) = v {
            if best.map(|b| v < b.1).unwrap_or(true) {
                best = Some((w, v));
            }
        }
    }
    best
}

fn resolve_latency(s: &Scen, sel: LatSel, free: u32) -> u32 {
    const MS: u128 = 1_000_000;
    let Some((_, t)) = shortest(s) else { return free };
    let floor = (t / MS) as u64;
    let ceil = ((t + MS - 1) / MS) as u64;
    let above = |d: u32| (ceil + d.max(2) as u64).min(u32::MAX as u64) as u32;
    match sel {
        LatSel::Below(d) if floor >= 2 => floor.saturating_sub(d.max(2) as u64) as u32,
        LatSel::FarBelow if floor >= 2 => (floor / 10).min(floor - 2) as u32,
        LatSel::Below(d) => above(d),
        LatSel::FarBelow => above(2),
        LatSel::Above(d) => above(d),
        LatSel::FarAbove => (ceil * 3 + 1000).min(u32::MAX as u64) as u32,
        LatSel::Between => {
            // strictly between the shortest and the next longer timeout, >= 2 ms from both
            let mut vals: Vec<u128> = effective(s).iter().filter_map(|x| x.1).filter(|v| *v > t).collect();
            vals.sort();
            match vals.first() {
                Some(t2) if (*t2 / MS) as u64 >= ceil + 4 => ((ceil + (*t2 / MS) as u64) / 2) as u32,
                _ => above(2),
            }
        }
    }
}

fn enforce_case() -> BoxedStrategy<Case> {
    let lat = prop_oneof![
        5 => prop_oneof![3 => Just(2u32), 2 => Just(3u32), 1 => Just(5u32), 1 => Just(17u32), 1 => Just(100u32)].prop_map(LatSel::Below),
        5 => prop_oneof![3 => Just(2u32), 2 => Just(3u32), 1 => Just(5u32), 1 => Just(17u32), 1 => Just(100u32)].prop_map(LatSel::Above),
        1 => Just(LatSel::FarBelow),
        1 => Just(LatSel::FarAbove),
        3 => Just(LatSel::Between),
    ];
    let free = prop_oneof![2 => Just(0u32), 3 => 1u32..=50, 1 => Just(1000u32), 1 => Just(100_000u32)];
    (
        any::<bool>(),
        // request timeout kind: 0 none, 1 set_timeout, 2 raw conformant, 3 raw malformed, 4 raw zero
        prop_oneof![3 => Just(0u8), 4 => Just(1u8), 4 => Just(2u8), 1 => Just(3u8), 1 => Just(4u8)],
        proptest::bool::weighted(0.4),
        proptest::bool::weighted(0.6),
        (base_us(), gap_us(), gap_us(), 0u8..3),
        (any::<u16>(), prop_oneof![4 => Just(0u8), 1 => 1u8..=7], any::<u16>()),
        (lat, free),
        // configured timeouts that are effectively unbounded (Duration::MAX): 0 none, 1 endpoint, 2 server, 3 both
        prop_oneof![12 => Just(0u8), 1 => Just(1u8), 1 => Just(2u8), 1 => Just(3u8)],
        // a configured timeout of exactly zero: 0 none, 1 endpoint, 2 server; and the builder usage bits
        (prop_oneof![10 => Just(0u8), 1 => Just(1u8), 1 => Just(2u8)], prop_oneof![3 => Just(0u8), 2 => 0u8..8, 2 => (0u8..8).prop_map(|b| b | 0x10), 2 => (0u8..8).prop_map(|b| b | 0x20)]),
    )
        .prop_flat_map(|(stream, rk, ep, srv, (base, g1, g2, min_idx), (unit_sel, pad, mal_sel), (lat, free), huge, (zero, srv_cfg))| {
            (scen_script(stream), c02::wire_blob(false), c02::pipe_schedule(), c02::pipe_schedule(), any::<u64>()).prop_map(
                move |(script, req, c2s, s2c, rt_seed)| {
                    // offsets of the three sources (req, ep, srv); the source `min_idx` gets the base itself
                    let mut off = [g1, g2, g1 / 2 + g2];
                    off[min_idx as usize] = 0;
                    let req_to = match rk {
                        0 => None,
                        1 => Some(ReqTo::Set { us: base + off[0] }),
                        2 => Some(ReqTo::Raw { text: raw_text(base + off[0], unit_sel, pad) }),
                        3 => Some(ReqTo::Raw { text: RAW_MALFORMED[crate::infra::gen::pick(mal_sel, RAW_MALFORMED.len())].to_string() }),
                        _ => Some(ReqTo::Raw { text: raw_text(0, unit_sel, pad) }),
                    };
                    let mut s = Scen {
                        stream,
                        req_to,
                        ep_us: ep.then_some(base + off[1]),
                        srv_us: srv.then_some(base + off[2]),
                        script: script.clone(),
                        req: req.clone(),
                        c2s: c2s.clone(),
                        s2c: s2c.clone(),
                        rt_seed,
                        srv_cfg,
                        stall: srv_cfg & 0x10 != 0,
                    };
                    // set_timeout can only say what fits 8 digits and a unit: beyond 99999999 ms the header is in
                    // seconds and may denote up to a second less than asked for (family (a) judges that); the
                    // enforcement scenarios need the exact deadline, so such a caller timeout is given as a header
                    if let Some(ReqTo::Set { us }) = &s.req_to {
                        if *us > 99_999_999_000 {
                            s.req_to = Some(ReqTo::Raw { text: format!("{}S", us / 1_000_000) });
                        }
                    }
                    match zero {
                        1 => s.ep_us = Some(0),
                        2 => s.srv_us = Some(0),
                        _ => {}
                    }
                    // u64::MAX microseconds stands for Duration::MAX ("no timeout" spelled as a huge one)
                    if huge & 1 != 0 {
                        s.ep_us = Some(u64::MAX);
                    }
                    if huge & 2 != 0 {
                        s.srv_us = Some(u64::MAX);
                    }
                    s.script.latency_ms = resolve_latency(&s, lat, free);
                    Case::Enforce(s)
                },
            )
        })
        .boxed()
}

pub fn strategy() -> BoxedStrategy<Case> {
    let client_only = (1u32..=2000, 0u8..3, c02::pipe_schedule(), c02::pipe_schedule(), any::<u64>()).prop_map(|(to_ms, how, c2s, s2c, rt_seed)| Case::ClientOnly { to_ms, how, c2s, s2c, rt_seed });
    prop_oneof![80 => enc_case(), 80 => parse_case(), 4 => enforce_case(), 1 => client_only].boxed()
}

// ------------------------------------------------------------------------------------------ (a) encoding

fn run_enc(secs: u64, nanos: u32, o: &mut Outcome) -> Result<(), Failure> {
    let d = Duration::new(secs, nanos % 1_000_000_000);
    let d_ns = d.as_nanos();
    if d_ns > MAX_NS {
        // outside the statement's domain ("all durations up to the largest representable"): tonic panics here
        // with a deliberate `expect("duration is unrealistically large")`. Only a produced value is judged.
        o.label("enc_over_max");
        let r = std::panic::catch_unwind(|| {
            let mut r = Request::new(());
            r.set_timeout(d);
            r.metadata().get("grpc-timeout").map(|v| v.as_encoded_bytes().to_vec())
        });
        match r {
            Err(_) => o.label("enc_over_max_panics"),
            Ok(v) => {
                let v = v.unwrap_or_default();
                let ns = wire::parse_timeout_spec(&v);
                ensure!(ns.is_some(), "C09/encoded-value-not-conformant/over-max", "set_timeout({d:?}) wrote {:?}", String::from_utf8_lossy(&v));
                ensure!(ns.unwrap() <= d_ns, "C09/encoded-longer-than-requested/over-max", "set_timeout({d:?}) wrote {:?}", String::from_utf8_lossy(&v));
            }
        }
        return Ok(());
    }
    let mut r = Request::new(());
    // a timeout set earlier (a default applied by a wrapper) is replaced, not kept next to the new one
    if nanos % 2 == 1 {
        r.set_timeout(Duration::from_secs(3600));
        o.label("set_timeout_called_twice");
    }
    r.set_timeout(d);
    let all: Vec<Vec<u8>> = r.metadata().get_all("grpc-timeout").iter().map(|v| v.as_encoded_bytes().to_vec()).collect();
    ensure!(all.len() == 1, "C09/encoded-value-count", "set_timeout({d:?}) left {} grpc-timeout entries", all.len());
    let v = &all[0];
    let shown = String::from_utf8_lossy(v).to_string();
    // ^[0-9]{1,8}[HMSmun]$
    let shape_ok = v.len() >= 2 && v.len() <= 9 && v[..v.len() - 1].iter().all(|c| c.is_ascii_digit()) && unit_index(v[v.len() - 1]).is_some();
    ensure!(shape_ok, "C09/encoded-value-not-conformant", "set_timeout({d:?}) wrote {shown:?}, not [0-9]{{1,8}}[HMSmun]");
    let ui = unit_index(v[v.len() - 1]).unwrap();
    let unit_ns = UNITS[ui].1;
    let denoted = match wire::parse_timeout_spec(v) {
        Some(x) => x,
        None => bail!("C09/encoded-value-not-conformant", "set_timeout({d:?}) wrote {shown:?}"),
    };
    ensure!(denoted <= d_ns, "C09/encoded-longer-than-requested", "set_timeout({d:?}) wrote {shown:?} = {denoted} ns > {d_ns} ns");
    ensure!(
        d_ns - denoted < unit_ns,
        "C09/encoded-loses-a-whole-unit",
        "set_timeout({d:?}) wrote {shown:?}: loses {} ns, one unit is {unit_ns} ns",
        d_ns - denoted
    );
    // documented on set_timeout: "use the most precise unit possible"
    if ui > 0 {
        let finer = d_ns / UNITS[ui - 1].1;
        ensure!(
            finer > MAX_DIGITS_VALUE,
            "C09/encoded-unit-not-most-precise",
            "set_timeout({d:?}) wrote {shown:?} although {finer}{} has at most 8 digits",
            UNITS[ui - 1].0 as char
        );
    }
    // round trip through tonic's own parser
    let mut hm = http::HeaderMap::new();
    hm.insert("grpc-timeout", http::HeaderValue::from_bytes(v).expect("header value"));
    match parse_grpc_timeout(&hm) {
        Ok(Some(back)) => ensure!(back.as_nanos() == denoted, "C09/round-trip", "parse(encode({d:?})) = {back:?}, the value {shown:?} denotes {denoted} ns"),
        other => bail!("C09/round-trip", "parse(encode({d:?})) = {other:?} for the value {shown:?}"),
    }
    // same through into_http? not needed: the observation point is the metadata after set_timeout
    o.label(match UNITS[ui].0 {
        b'n' => "enc_unit_n",
        b'u' => "enc_unit_u",
        b'm' => "enc_unit_m",
        b'S' => "enc_unit_S",
        b'M' => "enc_unit_M",
        _ => "enc_unit_H",
    });
    o.label_if(d_ns == 0, "enc_zero");
    o.label_if(d_ns != denoted, "enc_truncated");
    o.label_if(v.len() == 9, "enc_8_digits");
    // within one (coarser) unit of a switch point 10^8 x finer unit, or of the maximum
    let mut near = MAX_NS - d_ns < UNITS[5].1;
    for i in 0..5 {
        let sw = 100_000_000 * UNITS[i].1;
        let w = UNITS[i + 1].1;
        if d_ns + w >= sw && d_ns <= sw + w {
            near = true;
        }
    }
    o.label_if(near, "enc_at_unit_switch");
    o.nontrivial = near;
    Ok(())
}

// ------------------------------------------------------------------------------------------ (b) parsing

fn malformed_class(v: &[u8]) -> &'static str {
    let n = v.len();
    let unit_ok = n >= 1 && unit_index(v[n - 1]).is_some();
    let body = if n >= 1 { &v[..n - 1] } else { v };
    if unit_ok && body.len() >= 2 && body[0] == b'+' && body[1..].iter().all(|c| c.is_ascii_digit()) {
        "leading-plus"
    } else if unit_ok && body.len() > 8 && body.iter().all(|c| c.is_ascii_digit()) {
        "too-many-digits"
    } else if unit_ok && body.is_empty() {
        "no-digits"
    } else if unit_ok {
        "non-digit-value"
    } else if !body.is_empty() && body.iter().all(|c| c.is_ascii_digit()) {
        "bad-unit"
    } else {
        "other"
    }
}

fn run_parse(vals: &[Val], mutant: bool, o: &mut Outcome) -> Result<(), Failure> {
    let raw: Vec<Vec<u8>> = vals.iter().map(|v| v.bytes()).collect();
    let mut hm = http::HeaderMap::new();
    for v in &raw {
        match http::HeaderValue::from_bytes(v) {
            Ok(hv) => {
                hm.append("grpc-timeout", hv);
            }
            Err(_) => {
                // such bytes cannot be carried by an http header value at all
                o.label("parse_not_a_header_value");
                return Ok(());
            }
        }
    }
    let got = parse_grpc_timeout(&hm);
    let specs: Vec<Option<u128>> = raw.iter().map(|v| wire::parse_timeout_spec(v)).collect();
    let show = |v: &[u8]| String::from_utf8_lossy(v).to_string();
    match raw.len() {
        0 => {
            o.label("parse_absent");
            ensure!(got == Ok(None), "C09/absent-header-not-none", "no grpc-timeout header but the parser returned {got:?}");
        }
        1 => {
            let v = &raw[0];
            match specs[0] {
                Some(ns) => {
                    let u = v[v.len() - 1] as char;
                    match got {
                        Ok(Some(d)) => ensure!(
                            d.as_nanos() == ns,
                            format!("C09/conformant-timeout-misparsed/unit-{u}"),
                            "{:?} denotes {ns} ns, parsed as {d:?}",
                            show(v)
                        ),
                        other => bail!(format!("C09/conformant-timeout-rejected/unit-{u}"), "{:?} denotes {ns} ns, parser returned {other:?}", show(v)),
                    }
                    o.label("parse_conformant");
                    o.label_if(v.len() == 9, "parse_8_digits");
                    o.label_if(v[0] == b'0' && v.len() > 2, "parse_leading_zeros");
                    o.label_if(mutant, "parse_mutant_still_conformant");
                }
                None => {
                    if let Ok(Some(d)) = got {
                        bail!(
                            format!("C09/malformed-timeout-accepted/{}", malformed_class(v)),
                            "{:?} (hex {}) is not [0-9]{{1,8}}[HMSmun] but was parsed as {d:?}",
                            show(v),
                            hex(v)
                        );
                    }
                    o.label("parse_malformed_ignored");
                    o.label_if(mutant, "parse_one_edit_from_valid");
                    o.label_if(!v.is_ascii(), "parse_non_ascii");
                    o.label_if(v.is_empty(), "parse_empty");
                }
            }
        }
        _ => {
            o.label("parse_repeated_header");
            let denoted: Vec<u128> = specs.iter().flatten().copied().collect();
            if let Ok(Some(d)) = got {
                if denoted.is_empty() {
                    bail!(
                        format!("C09/malformed-timeout-accepted/{}", malformed_class(&raw[0])),
                        "repeated header {:?}: no value is conformant but the parser returned {d:?}",
                        raw.iter().map(|v| show(v)).collect::<Vec<_>>()
                    );
                }
                if !denoted.contains(&d.as_nanos()) {
                    // a malformed member was taken for a duration: same clause as for a single value
                    if let Some(bad) = raw.iter().zip(specs.iter()).find(|x| x.1.is_none()).map(|x| x.0) {
                        bail!(
                            format!("C09/malformed-timeout-accepted/{}", malformed_class(bad)),
                            "repeated header {:?}: parser returned {d:?}, which no conformant member denotes",
                            raw.iter().map(|v| show(v)).collect::<Vec<_>>()
                        );
                    }
                }
                ensure!(
                    denoted.contains(&d.as_nanos()),
                    "C09/repeated-header-invented-duration",
                    "repeated header {:?}: parser returned {d:?}, which none of the values denotes",
                    raw.iter().map(|v| show(v)).collect::<Vec<_>>()
                );
            } else if denoted.len() == raw.len() && denoted.iter().all(|x| *x == denoted[0]) {
                bail!("C09/conformant-timeout-rejected/repeated", "all values of {:?} denote {} ns, parser returned {got:?}", raw.iter().map(|v| show(v)).collect::<Vec<_>>(), denoted[0]);
            }
        }
    }
    o.nontrivial = mutant || raw.len() >= 2;
    Ok(())
}

// ------------------------------------------------------------------------------------------ (c) enforcement

// ------------------------------------------------------------------------------------------ (c') silent peer

/// A raw h2 server (no tonic) that accepts the request and never answers. Whatever cuts the call off is the
/// caller's own side: Request::set_timeout / a raw grpc-timeout header / Endpoint::timeout.
fn run_client_only(to_ms: u32, how: u8, c2s: &[u8], s2c: &[u8], rt_seed: u64, o: &mut Outcome) -> Result<(), Failure> {
    use hyper_util::rt::TokioIo;
    o.label("enf_silent_peer");
    o.label(match how % 3 {
        0 => "silent_peer_set_timeout",
        1 => "silent_peer_raw_header",
        _ => "silent_peer_endpoint_timeout",
    });
    o.nontrivial = true;
    let (cend, send_, _h) = crate::infra::pipe::pipe(c2s.to_vec(), s2c.to_vec());
    let res = rt::run_virtual(rt_seed, Duration::from_secs(24 * 3600), async move {
        let srv = tokio::spawn(async move {
            let Ok(mut conn) = h2::server::handshake(send_).await else { return };
            let mut held = vec![];
            while let Some(Ok((req, respond))) = conn.accept().await {
                held.push((req, respond)); // never answered
            }
        });
        let cell = std::sync::Arc::new(std::sync::Mutex::new(Some(cend)));
        let connector = tower::service_fn(move |_u: http::Uri| {
            let cell = cell.clone();
            async move { cell.lock().unwrap().take().map(TokioIo::new).ok_or_else(|| std::io::Error::new(std::io::ErrorKind::Other, "single-use connector")) }
        });
        let mut ep = tonic::transport::Endpoint::from_static("http://pipe.test");
        if how % 3 == 2 {
            ep = ep.timeout(Duration::from_millis(to_ms as u64));
        }
        let ch = match ep.connect_with_connector(connector).await {
            Ok(ch) => ch,
            Err(e) => return Err(format!("connect: {e:?}")),
        };
        let mut client = vt::raw_client::RawClient::new(ch);
        let mut req = Request::new(b"ping".to_vec());
        match how % 3 {
            0 => req.set_timeout(Duration::from_millis(to_ms as u64)),
            1 => {
                req.metadata_mut().insert("grpc-timeout", format!("{to_ms}m").parse().unwrap());
            }
            _ => {}
        }
        let t0 = rt::virtual_ms().unwrap_or(0);
        let r = client.unary(req).await;
        let dt = rt::virtual_ms().unwrap_or(0) - t0;
        srv.abort();
        Ok((r.map(|_| ()).map_err(|s| (s.code(), s.message().to_string())), dt))
    });
    let (r, dt) = match res {
        Err(_) => bail!("C09/deadline-not-enforced/by-the-caller-side", "the peer never answers and the call with a {to_ms} ms deadline never resolved (virtual-time watchdog)"),
        Ok(Err(e)) => bail!("C09/silent-peer-setup", "{e}"),
        Ok(Ok(x)) => x,
    };
    match r {
        Ok(()) => bail!("C09/silent-peer-succeeded", "call succeeded although the peer never answered"),
        Err((code, msg)) => {
            ensure!(code == Code::Cancelled, "C09/timeout-status-code/caller-side", "deadline {to_ms} ms against a silent peer: {code:?} {msg:?}");
            ensure!(msg == "Timeout expired", "C09/timeout-status-message/caller-side", "deadline {to_ms} ms against a silent peer: message {msg:?}");
            ensure!(dt.abs_diff(to_ms as u64) <= 2, "C09/deadline-time/caller-side", "deadline {to_ms} ms against a silent peer: cut off after {dt} ms");
        }
    }
    Ok(())
}

async fn channel_with_timeout(net: &Net, ep: Option<Duration>) -> Result<tonic::transport::Channel, tonic::transport::Error> {
    let mut e = tonic::transport::Endpoint::from_static("http://pipe.test");
    if let Some(d) = ep {
        e = e.timeout(d);
    }
    // a connect timeout is about connecting (instant here), never about calls; set after `timeout`, always
    e = e.connect_timeout(Duration::from_millis(1));
    e.connect_with_connector(net.connector()).await
}

struct Timed {
    ob: c02::Observed,
    t0: u64,
    t_head: u64,
    t_end: u64,
}

async fn timed_call(ch: tonic::transport::Channel, stream: bool, req_to: Option<ReqTo>, msg: Vec<u8>) -> Timed {
    let mut client = vt::raw_client::RawClient::new(ch);
    let mut req = Request::new(msg);
    match &req_to {
        None => {}
        Some(ReqTo::Set { us }) => req.set_timeout(Duration::from_micros(*us)),
        Some(ReqTo::Raw { text }) => {
            let v = tonic::metadata::AsciiMetadataValue::try_from(text.as_str()).expect("ascii metadata value");
            req.metadata_mut().insert("grpc-timeout", v);
        }
    }
    let mut ob = c02::Observed::default();
    let t0 = rt::virtual_ms().unwrap_or(0);
    let t_head;
    if !stream {
        let r = client.unary(req).await;
        t_head = rt::virtual_ms().unwrap_or(0);
        match r {
            Ok(resp) => {
                ob.initial_md = Some(resp.metadata().clone().into_headers());
                ob.msgs.push(resp.into_inner());
                ob.clean_end = true;
            }
            Err(s) => ob.call_err = Some(s),
        }
    } else {
        let r = client.server_stream(req).await;
        t_head = rt::virtual_ms().unwrap_or(0);
        match r {
            Err(s) => ob.call_err = Some(s),
            Ok(resp) => {
                ob.initial_md = Some(resp.metadata().clone().into_headers());
                let mut st = resp.into_inner();
                loop {
                    match st.message().await {
                        Ok(Some(m)) => ob.msgs.push(m),
                        Ok(None) => {
                            ob.clean_end = true;
                            break;
                        }
                        Err(s) => {
                            ob.stream_err = Some(s);
                            break;
                        }
                    }
                }
            }
        }
    }
    let t_end = rt::virtual_ms().unwrap_or(0);
    Timed { ob, t0, t_head, t_end }
}

/// timer granularity (1 ms wheel, rounding at both ends)
const TOL_MS: u64 = 2;

fn run_enforce(s: &Scen, o: &mut Outcome) -> Result<(), Failure> {
    const MS: u128 = 1_000_000;
    let eff = effective(s);
    let t = shortest(s);
    let l_ms = s.script.latency_ms as u64;
    let l_ns = l_ms as u128 * MS;
    // ties and near-ties (|l - T| < 2 ms) are not judged (only reachable by shrinking / hand-written replays)
    if let Some((_, t)) = t {
        let diff = if l_ns > t { l_ns - t } else { t - l_ns };
        if diff < 2 * MS {
            o.label("enf_tie_not_judged");
            return Ok(());
        }
    }
    if let Some(ReqTo::Raw { text }) = &s.req_to {
        if tonic::metadata::AsciiMetadataValue::try_from(text.as_str()).is_err() {
            o.label("enf_unbuildable_header");
            return Ok(());
        }
    }
    let expect_cut = t.map(|(_, t)| l_ns > t).unwrap_or(false);
    let who = t.map(|x| x.0).unwrap_or("none");
    let present: Vec<u128> = eff.iter().filter_map(|x| x.1).collect();
    let distinct = present.iter().any(|v| *v != present[0]);

    o.label(if s.stream { "enf_server_stream" } else { "enf_unary" });
    o.label(match (&s.req_to, eff[0].1) {
        (None, _) => "enf_req_none",
        (Some(ReqTo::Set { .. }), _) => "enf_req_set_timeout",
        (Some(ReqTo::Raw { .. }), Some(_)) => "enf_req_raw_header",
        (Some(ReqTo::Raw { .. }), None) => "enf_req_raw_malformed",
    });
    o.label_if(s.ep_us.is_some(), "enf_endpoint_timeout");
    o.label_if(s.srv_us.is_some(), "enf_server_timeout");
    o.label_if(present.is_empty(), "enf_no_timeout");
    o.label_if(present.len() >= 2 && distinct, "enf_timeouts_differ");
    o.label_if(present.len() >= 2 && !distinct, "enf_timeouts_equal");
    o.label(match who {
        "req" => "enf_shortest_is_req",
        "ep" => "enf_shortest_is_endpoint",
        "srv" => "enf_shortest_is_server",
        _ => "enf_shortest_none",
    });
    o.label(if expect_cut { "enf_latency_over_deadline" } else { "enf_latency_under_deadline" });
    if let Some((_, t)) = t {
        let diff = if l_ns > t { l_ns - t } else { t - l_ns };
        o.label_if(diff <= 5 * MS, "enf_within_5ms_of_deadline");
        let between = expect_cut && present.iter().any(|v| *v > l_ns);
        o.label_if(between, "enf_latency_between_two_timeouts");
    }
    o.label_if(s.script.outcome.is_some(), "enf_handler_error_outcome");
    o.nontrivial = present.len() >= 2 && distinct;

    let sh = Shared::new(vec![s.script.clone()]);
    let (net, incoming) = Net::new(vec![(s.c2s.clone(), s.s2c.clone())]);
    let sh2 = sh.clone();
    let stream = s.stream;
    let req_to = s.req_to.clone();
    let dur = |u: u64| if u == u64::MAX { Duration::MAX } else { Duration::from_micros(u) };
    let ep = s.ep_us.map(dur);
    let srv_to = s.srv_us.map(dur);
    o.label_if(s.ep_us == Some(u64::MAX) || s.srv_us == Some(u64::MAX), "enf_configured_timeout_duration_max");
    let msg = s.req.bytes();
    let srv_cfg = s.srv_cfg;
    // (not together with the executor stall: the warm-up call would move the clock)
    let warm_up = s.srv_cfg & 0x20 != 0 && !s.stall;
    o.label_if(warm_up, "enf_second_call_on_the_channel");
    // (start, jump) in ms of the executor stall, if this scenario has one
    let stall: Option<(u64, u64)> = match (s.stall, t, &s.req_to, s.ep_us) {
        (true, Some(("srv", t_ns)), None, None) if !expect_cut && l_ms >= 2 && t_ns < 1_000_000_000u128 * MS => {
            let t_ms = ((t_ns + MS - 1) / MS) as u64;
            Some((l_ms / 2, t_ms - l_ms / 2 + 7))
        }
        _ => None,
    };
    o.label_if(stall.is_some(), "enf_executor_stalled_across_completion_and_deadline");
    o.label_if(srv_cfg & 5 != 0, "enf_server_builder_with_layer");
    o.label_if(srv_cfg & 2 != 0, "enf_server_tcp_keepalive_set");
    o.label_if(s.ep_us == Some(0) || s.srv_us == Some(0), "enf_configured_timeout_zero");
    let res = rt::run_virtual(s.rt_seed, Duration::from_secs(100_000_000), async move {
        let mut server = tonic::transport::Server::builder();
        if srv_cfg & 2 != 0 {
            server = server.tcp_keepalive(Some(Duration::from_millis(7)));
        }
        macro_rules! start {
            ($server:expr) => {{
                let mut server = $server;
                let router = server.add_service(vt::raw_server::RawServer::new(sh2.clone()));
                tokio::spawn(async move { router.serve_with_incoming(incoming).await })
            }};
        }
        let with_to = |s: tonic::transport::Server| match srv_to {
            Some(d) => s.timeout(d),
            None => s,
        };
        let srv = match srv_cfg & 5 {
            0 => start!(with_to(server)),
            1 => start!(with_to(server).layer(tower::layer::util::Identity::new())),
            4 => {
                let s = server.layer(tower::layer::util::Identity::new());
                start!(match srv_to {
                    Some(d) => s.timeout(d),
                    None => s,
                })
            }
            _ => {
                let s = server.layer(tower::layer::util::Identity::new());
                let s = match srv_to {
                    Some(d) => s.timeout(d),
                    None => s,
                };
                start!(s.layer(tower::layer::util::Identity::new()))
            }
        };
        let ch = match channel_with_timeout(&net, ep).await {
            Ok(ch) => ch,
            Err(e) => return Err(format!("connect failed: {e:?}")),
        };
        if let Some((at, jump)) = stall {
            tokio::spawn(async move {
                tokio::time::sleep(Duration::from_millis(at)).await;
                tokio::time::advance(Duration::from_millis(jump)).await;
            });
        }
        // the channel has a history: an earlier call with a much shorter deadline of its own (it is cut off or
        // not, which is not judged) must not leave anything behind for the call that is judged
        if warm_up {
            let mut client = vt::raw_client::RawClient::new(ch.clone());
            let mut req = Request::new(b"\x00warm-up call, not the one that is judged\x00".to_vec());
            req.set_timeout(Duration::from_millis(1));
            let _ = client.unary(req).await;
            rt::quiesce().await;
        }
        let t = timed_call(ch, stream, req_to, msg).await;
        rt::quiesce().await;
        srv.abort();
        Ok(t)
    });
    let td = match res {
        Err(_) => bail!("C09/call-never-completes", "the call did not complete (virtual-time watchdog)"),
        Ok(Err(e)) => bail!("C09/connect", "{e}"),
        Ok(Ok(t)) => t,
    };
    let ob = &td.ob;
    let head = td.t_head - td.t0;
    let total = td.t_end - td.t0;
    let first_err = ob.call_err.as_ref().or(if ob.msgs.is_empty() { ob.stream_err.as_ref() } else { None });
    let is_timeout_status = |st: &tonic::Status| st.code() == Code::Cancelled && st.message() == "Timeout expired";
    let cfg = format!(
        "timeouts req={:?} endpoint={:?}us server={:?}us, shortest {who}={:?} ns, latency {l_ms} ms",
        s.req_to,
        s.ep_us,
        s.srv_us,
        t.map(|x| x.1)
    );
    let mut log = sh.log.lock().unwrap().clone();
    // the warm-up call is not the call that is judged
    log.retain(|l| l.msgs.first().map(|m| m != b"\x00warm-up call, not the one that is judged\x00").unwrap_or(true));
    if expect_cut {
        let (_, t_ns) = t.unwrap();
        let st = match first_err {
            Some(st) => st,
            None => bail!(
                format!("C09/deadline-not-enforced/{who}"),
                "{cfg}: the call succeeded ({} messages) at +{head} ms instead of being cut off",
                ob.msgs.len()
            ),
        };
        if !is_timeout_status(st) {
            // did the handler's own outcome come through (i.e. the call ran to completion)?
            let own = s.script.outcome.as_ref().map(|w| st.code() == Code::from_i32(w.code) && st.message() == w.message).unwrap_or(false);
            if own && head + TOL_MS >= l_ms {
                bail!(format!("C09/deadline-not-enforced/{who}"), "{cfg}: the handler's own status arrived at +{head} ms instead of the cut-off");
            }
            ensure!(st.code() == Code::Cancelled, format!("C09/timeout-status-code/{who}"), "{cfg}: cut-off reported as {:?} {:?}, expected CANCELLED", st.code(), st.message());
            bail!(format!("C09/timeout-status-message/{who}"), "{cfg}: cut-off message {:?}, expected \"Timeout expired\"", st.message());
        }
        let lo = ((t_ns / MS) as u64).saturating_sub(TOL_MS);
        let hi = ((t_ns + MS - 1) / MS) as u64 + TOL_MS;
        ensure!(
            head >= lo && head <= hi,
            format!("C09/cut-off-time/{who}"),
            "{cfg}: cut off at +{head} ms, expected within [{lo}, {hi}] ms"
        );
    } else {
        if let Some(st) = first_err {
            let scripted = s.script.outcome.as_ref().map(|w| w.code == 1 && w.message == "Timeout expired").unwrap_or(false);
            if is_timeout_status(st) && !scripted {
                bail!(format!("C09/cut-off-before-deadline/{who}"), "{cfg}: CANCELLED 'Timeout expired' at +{head} ms although the handler finishes before every deadline");
            }
        }
        let shape = if s.stream { c02::Shape::ServerStream } else { c02::Shape::Unary };
        if let Err(f) = c02::judge_client(shape, &s.script, ob) {
            bail!("C09/result-affected-before-deadline", "{cfg}: {} – {}", f.sig, f.detail);
        }
        if let Err(f) = c02::judge_server(shape, &s.script, &log, &[], &[s.req.bytes()]) {
            bail!("C09/result-affected-before-deadline", "{cfg}: {} – {}", f.sig, f.detail);
        }
        let lo = l_ms.saturating_sub(TOL_MS);
        let hi = l_ms + TOL_MS;
        ensure!(
            stall.is_some() || head >= lo && head <= hi && total >= lo && total <= hi,
            "C09/completion-time",
            "{cfg}: response head at +{head} ms, call finished at +{total} ms, expected within [{lo}, {hi}] ms"
        );
    }
    // what the handler saw of the caller's deadline (set_timeout requires the header to reach the server)
    if let Some(l) = log.first() {
        match &s.req_to {
            Some(ReqTo::Raw { text }) => ensure!(
                l.has_timeout_header.as_deref() == Some(text.as_bytes()),
                "C09/timeout-header-not-transmitted",
                "{cfg}: handler saw grpc-timeout {:?}",
                l.has_timeout_header.as_ref().map(|v| String::from_utf8_lossy(v).to_string())
            ),
            Some(ReqTo::Set { us }) => {
                let seen = l.has_timeout_header.as_deref().and_then(wire::parse_timeout_spec);
                ensure!(
                    seen.map(|ns| ns <= *us as u128 * 1000).unwrap_or(false),
                    "C09/timeout-header-not-transmitted",
                    "{cfg}: handler saw grpc-timeout {:?}",
                    l.has_timeout_header.as_ref().map(|v| String::from_utf8_lossy(v).to_string())
                );
            }
            None => {}
        }
    }
    Ok(())
}

// ------------------------------------------------------------------------------------------ Prop

pub fn run(c: &Case, o: &mut Outcome) -> Result<(), Failure> {
    match c {
        Case::Enc { secs, nanos } => {
            o.label("family_encode");
            run_enc(*secs, *nanos, o)
        }
        Case::Parse { vals, mutant } => {
            o.label("family_parse");
            run_parse(vals, *mutant, o)
        }
        Case::ClientOnly { to_ms, how, c2s, s2c, rt_seed } => run_client_only(*to_ms, *how, c2s, s2c, *rt_seed, o),
        Case::Enforce(s) => {
            o.label("family_enforce");
            run_enforce(s, o)
        }
    }
}

fn fixed() -> Vec<Case> {
    let mut v = vec![];
    let one = |s: &[u8], mutant: bool| Case::Parse { vals: vec![Val::of(s)], mutant };
    // structure-exhaustive: unit x digit count x {min, max, zeros, leading zeros, 3 pseudo-random}
    for ui in 0..6 {
        for k in 1..=8usize {
            for class in 0u8..7 {
                let r = fnv64(&[ui as u8, k as u8, class]);
                v.push(one(&make_valid(ui, k, class, r), false));
            }
        }
    }
    v.push(Case::Parse { vals: vec![], mutant: false });
    // named mutations, for every unit
    for (u, _) in UNITS {
        let u = u as char;
        let low = (u as u8 ^ 0x20) as char;
        for m in [
            format!("+5{u}"),
            format!("+0{u}"),
            format!("+1234567{u}"),
            format!("+12345678{u}"),
            format!("-1{u}"),
            format!("-0{u}"),
            format!(" 5{u}"),
            format!("5 {u}"),
            format!("5{u} "),
            format!("\t5{u}"),
            format!("5{low}"),
            "5".to_string(),
            "12345678".to_string(),
            format!("{u}"),
            format!("{u}5"),
            format!("5{u}{u}"),
            format!("123456789{u}"),
            format!("000000001{u}"),
            format!("000000000{u}"),
            format!("1.5{u}"),
            format!("1e3{u}"),
            format!("0x10{u}"),
            format!("1_000{u}"),
            format!("5{u}S"),
        ] {
            v.push(one(m.as_bytes(), true));
        }
        v.push(one(&[b'5', 0, u as u8], true));
        v.push(one(&[b'5', u as u8, 0], true));
        v.push(one(&[b'5', 0xc2, 0xb5, u as u8], true)); // "5µ<unit>"
        v.push(one(&[0xef, 0xbc, 0x95, u as u8], true)); // fullwidth digit five
        v.push(one(&[b'5', 0xff], true));
        v.push(one(&[b'5', u as u8 | 0x80], true));
    }
    for m in ["", "+", "+S", "-", "5s", "5h", "5U", "5N", "5µ", "5us", "5ms", "5ns", "5 ms", "infinity", "S5", "١٢S"] {
        v.push(one(m.as_bytes(), true));
    }
    // two headers
    let two = |a: &str, b: &str| Case::Parse { vals: vec![Val::of(a.as_bytes()), Val::of(b.as_bytes())], mutant: false };
    for (a, b) in [("5S", "5S"), ("5S", "7M"), ("7M", "5S"), ("5S", "x"), ("x", "5S"), ("x", "y"), ("5S", ""), ("", "5S"), ("123456789S", "1S"), ("5s", "5S")] {
        v.push(two(a, b));
    }
    // encoder: every switch point +-1 ns and +-1 unit, zero, maximum
    for i in 0..6 {
        let sw = 100_000_000 * UNITS[i].1;
        for ns in [sw - 1, sw, sw + 1, sw - UNITS[i].1, sw - UNITS[i].1 - 1, sw + UNITS[i].1, sw + UNITS[i].1 - 1, sw - UNITS[i].1 + 1] {
            if ns <= MAX_NS {
                let (secs, nanos) = from_ns(ns);
                v.push(Case::Enc { secs, nanos });
            }
        }
    }
    v.push(Case::Enc { secs: 0, nanos: 0 });
    v.push(Case::Enc { secs: (MAX_NS / NS_PER_S) as u64, nanos: 999_999_999 });
    v
}

pub struct C09;
impl Prop for C09 {
    const ID: &'static str = "C09";
    type Case = Case;
    fn strategy() -> BoxedStrategy<Case> {
        strategy()
    }
    fn run(c: &Case, o: &mut Outcome) -> Result<(), Failure> {
        run(c, o)
    }
    fn rule() -> &'static str {
        "three families. (a) Request::set_timeout(d): d = k x unit + e for k in {99999998, 99999999, 10^8, 10^8+1, ...} around every point where the encoder must switch n->u->m->S->M->H, random (secs, nanos) with log-uniform seconds up to 99999999 h 59 m 59.999999999 s, zero, maximum; oracle: value matches [0-9]{1,8}[HMSmun], denotes (own u128 table) D' <= d with d - D' < one unit, finer unit would need > 8 digits (documented 'most precise unit'), tonic's parser maps it back to D'. (b) tonic's header parser (verif hook) on: every unit x 1..8 digits x {min, max, zeros, leading zeros, random} (enumerated), one-edit mutants of valid values (insert/delete/replace/transpose from an alphabet of signs, blanks, digits, units, wrong-case units, NUL, non-ASCII; 9 digits), arbitrary bytes, absent and repeated headers; oracle = independent grammar parser: conformant => exactly the denoted duration, malformed => never Ok(Some), never a panic. (c) real Channel + Server over the in-memory pipe on a paused clock: caller deadline (none | set_timeout | raw conformant header in any unit | raw malformed header) x Endpoint::timeout (none | e) x Server::timeout (none | s), values equal / 1 ms.. apart / far apart, unary and server-streaming vt.Raw handlers with scripted latency l at T-d, T+d (d in {2,3,5,17,100} ms), far below, far above and between the two shortest timeouts, T = min of the timeouts present, pipe fragmentation schedules, scheduler seed; oracle: l < T => exactly the scripted response/status (C02 judge) at virtual elapsed l +-2 ms; l > T => CANCELLED 'Timeout expired' at T +-2 ms; no timeout => completes at l. Non-trivial: (a) d within one unit of a unit switch, (b) one-edit mutant of a valid value or repeated header, (c) >= 2 timeouts present and different; distinct = distinct serialised case. Also: configured timeouts of Duration::MAX (no effect on calls). Also: configured timeouts of exactly zero, Server::layer(Identity) before/after Server::timeout, Server::tcp_keepalive set (must not act as a deadline). Executor-stall scenario: with Server::timeout as the only deadline the virtual clock jumps from l/2 past the deadline in one step; a handler that finished before the deadline still wins. Parse family also pads conformant values with blanks/tabs on either side (not conformant: ignored, never a panic); enforcement deadlines include 19.1 h, 24 h and 30 d. set_timeout is preceded by an earlier set_timeout in half of the encode cases; a quarter of the enforcement scenarios first make a warm-up call with a 1 ms deadline on the same channel; every enforcement channel has connect_timeout(1 ms)."
    }
    fn assumptions() -> Vec<String> {
        vec![
            "durations above 99999999 h 59 m 59.999999999 s are outside the statement: set_timeout panics there by a deliberate expect(); such cases are only labelled".into(),
            "ties |l - T| < 2 ms are not generated / not judged; time tolerance +-2 ms (1 ms timer wheel, rounding at both ends)".into(),
            "the deadline covers the handler's latency up to its response (tonic's timer races the response future); scripted streams add no further delay".into(),
            "repeated grpc-timeout headers: any duration denoted by one of the values, or none, is accepted".into(),
            "bytes that http::HeaderValue refuses (NUL, DEL, control characters) cannot reach the parser and are skipped".into(),
        ]
    }
    fn cases(t: Tier) -> u64 {
        match t {
            Tier::Quick => 3_000_000,
            Tier::Thorough => 90_000_000,
        }
    }
    fn fixed_cases(_t: Tier) -> Vec<Case> {
        fixed()
    }
    fn fixed_is_exhaustive() -> Option<&'static str> {
        Some("parser: 6 units x 1..8 digits x {10^(k-1), 10^k-1, all zeros, leading zeros, 3 pseudo-random} (336 values), the named mutation list x 6 units, absent header; encoder: all 6 switch points +-1 ns / +-1 unit, zero and the maximum")
    }
    fn from_bytes(data: &[u8]) -> Option<Case> {
        from_bytes(data)
    }
    fn fuzz(t: Tier) -> Option<FuzzSpec> {
        match t {
            Tier::Quick => None,
            Tier::Thorough => Some(FuzzSpec { target: "c09_timeout", runs: 1_000_000, max_len: 40 }),
        }
    }
    fn max_shrink_iters() -> u32 {
        2000
    }
}

/// fuzz target `c09_timeout`: byte 0 selects the family, the rest is the header value(s) / the duration
pub fn from_bytes(data: &[u8]) -> Option<Case> {
    let (sel, rest) = data.split_first()?;
    match sel % 8 {
        0 => {
            if rest.len() < 12 {
                return None;
            }
            let secs = u64::from_le_bytes(rest[..8].try_into().ok()?) % ((MAX_NS / NS_PER_S) as u64 + 1);
            let nanos = u32::from_le_bytes(rest[8..12].try_into().ok()?) % 1_000_000_000;
            Some(Case::Enc { secs, nanos })
        }
        1 => {
            let (cut, rest) = rest.split_first()?;
            let rest = &rest[..rest.len().min(24)];
            let cut = (*cut as usize) % (rest.len() + 1);
            Some(Case::Parse { vals: vec![Val::of(&rest[..cut]), Val::of(&rest[cut..])], mutant: false })
        }
        _ => Some(Case::Parse { vals: vec![Val::of(&rest[..rest.len().min(16)])], mutant: false }),
    }
}
