//! C04 – status <-> headers round trip; total header reading; HTTP and HTTP/2 mapping tables.
use crate::infra::blob::{hex, small_bytes, unhex, Blob};
use crate::infra::codec_drv::*;
use crate::infra::gen;
use crate::infra::md::{self, MdEntry};
use crate::infra::runner::*;
use crate::infra::script::{BodyStep, ScriptBody};
use crate::infra::wire;
use crate::svc::RawCodec;
use crate::{bail, ensure};
use bytes::Bytes;
use http::{HeaderMap, HeaderName, HeaderValue};
use proptest::prelude::*;
use serde::{Deserialize, Serialize};
use tonic::codec::{Codec, Streaming};
use tonic::{Code, Status};

#[derive(Clone, Debug, Serialize, Deserialize)]
pub enum Case {
    RoundTrip { code: i32, message: String, details: Blob, md: Vec<MdEntry>, via_http: bool, #[serde(default)] shadow: bool },
    /// raw (name, value-hex) pairs; invalid names/values are skipped when building the map
    Totality { headers: Vec<(String, String)> },
    HttpStatus { status: u16, trailer_status: Option<i32>, empty_data: bool },
    H2Reason { reason: u32, how: u8 },
    /// a Status buried `depth` levels deep in an error source chain, recovered by Status::from_error / try_from_error
    FromError { code: i32, message: String, details: Blob, md: Vec<MdEntry>, depth: u8 },
    /// HTTP status without grpc-status, seen through a generated client over the mock transport
    HttpStatusClient { status: u16, streaming: bool, body_bytes: bool },
}

fn status_value() -> BoxedStrategy<Vec<u8>> {
    prop_oneof![
        6 => (0u32..=16).prop_map(|c| c.to_string().into_bytes()),
        2 => prop_oneof![Just("17"), Just("99"), Just("-1"), Just(""), Just("abc"), Just(" 1"), Just("1 "), Just("01"), Just("007"), Just("1.0"), Just("+1"), Just("0x1"), Just("16 "), Just("256"), Just("4294967297")]
            .prop_map(|s| s.as_bytes().to_vec()),
        1 => proptest::collection::vec(prop_oneof![0x30u8..=0x39, 0x20u8..=0x7e, 0x80u8..=0xff], 0..4),
    ]
    .boxed()
}

fn message_value() -> BoxedStrategy<Vec<u8>> {
    let piece = prop_oneof![
        6 => "[ -~]{0,6}".prop_map(|s| s.into_bytes()),
        2 => Just(b"%".to_vec()),
        2 => "%[0-9a-fA-F]{2}".prop_map(|s| s.into_bytes()),
        2 => prop_oneof![Just("%zz"), Just("%4"), Just("%%"), Just("%c3%28"), Just("%ff"), Just("%c3%a9"), Just("%f0%9f%98%80"), Just("%80"), Just("%00"), Just("%e2%82")].prop_map(|s| s.as_bytes().to_vec()),
        1 => proptest::collection::vec(0x80u8..=0xff, 1..3),
    ];
    proptest::collection::vec(piece, 0..5).prop_map(|v| v.concat()).boxed()
}

fn details_value() -> BoxedStrategy<Vec<u8>> {
    let valid = (proptest::collection::vec(any::<u8>(), 0..12), any::<bool>()).prop_map(|(d, pad)| wire::b64_encode(&d, pad).into_bytes());
    prop_oneof![
        4 => valid.clone(),
        // mutate a valid one: drop / insert / replace a byte
        4 => (valid, any::<u16>(), 0u8..3, prop_oneof![Just(b'='), Just(b' '), Just(b'-'), Just(b'_'), Just(b'A'), Just(b'\t'), Just(b'!'), Just(0xe9u8), Just(b'/')])
            .prop_map(|(mut v, pos, op, byte)| {
                let p = gen::pick(pos, v.len() + 1);
                match op {
                    0 if !v.is_empty() => { v.remove(p.min(v.len() - 1)); }
                    1 => v.insert(p, byte),
                    _ if !v.is_empty() => { let q = p.min(v.len() - 1); v[q] = byte; }
                    _ => v.push(byte),
                }
                v
            }),
        2 => "[A-Za-z0-9+/=]{0,9}".prop_map(|s| s.into_bytes()),
        1 => proptest::collection::vec(prop_oneof![0x20u8..=0x7e, 0x80u8..=0xff], 0..8),
    ]
    .boxed()
}

pub fn strategy() -> BoxedStrategy<Case> {
    let rt = (
        0i32..=16,
        prop_oneof![1 => Just(String::new()), 6 => gen::unicode_string(24), 1 => gen::unicode_string(300)],
        prop_oneof![1 => Just(Blob::Hex(String::new())), 10 => small_bytes(40), 2 => (0u32..=200, any::<u32>()).prop_map(|(n, s)| Blob::Rnd(n, s)), 1 => (6_000u32..=20_000, any::<u32>()).prop_map(|(n, s)| Blob::Rnd(n, s))],
        md::entries(6, true, true),
        any::<bool>(),
        proptest::bool::weighted(0.15),
    )
        .prop_map(|(code, message, details, md, via_http, shadow)| Case::RoundTrip { code, message, details, md, via_http, shadow });
    let other = prop_oneof![
        3 => ("x[a-z-]{0,6}(-bin)?", proptest::collection::vec(prop_oneof![0x20u8..=0x7e, 0x80u8..=0xff, Just(b'\t')], 0..10)).prop_map(|(n, v)| (n, hex(&v))),
        1 => (Just("content-type".to_string()), Just(hex(b"application/grpc"))),
    ];
    let tot = (
        proptest::option::weighted(0.9, status_value()),
        proptest::option::weighted(0.6, message_value()),
        proptest::option::weighted(0.6, details_value()),
        proptest::collection::vec(other, 0..4),
        proptest::option::weighted(0.15, status_value()),
        any::<u8>(),
    )
        .prop_map(|(st, msg, det, others, st2, order)| {
            let mut h = vec![];
            if let Some(s) = st {
                h.push(("grpc-status".to_string(), hex(&s)));
            }
            if let Some(s) = st2 {
                h.push(("grpc-status".to_string(), hex(&s)));
            }
            if let Some(m) = msg {
                h.push(("grpc-message".to_string(), hex(&m)));
            }
            if let Some(d) = det {
                h.push(("grpc-status-details-bin".to_string(), hex(&d)));
            }
            h.extend(others);
            let k = (order as usize) % (h.len().max(1));
            h.rotate_left(k);
            Case::Totality { headers: h }
        });
    // trailer_status -1: a trailers block without any grpc-status (e.g. appended by a proxy)
    let http = (100u16..=599, proptest::option::weighted(0.5, prop_oneof![3 => 0i32..=16, 1 => Just(-1i32)]), any::<bool>())
        .prop_map(|(status, trailer_status, empty_data)| Case::HttpStatus { status, trailer_status, empty_data });
    let h2 = (prop_oneof![4 => 0u32..=13, 1 => 14u32..=300, 1 => any::<u32>()], 0u8..5).prop_map(|(reason, how)| Case::H2Reason { reason, how });
    let fromerr = (0i32..=16, gen::unicode_string(12), small_bytes(20), md::entries(4, true, true), 0u8..4).prop_map(|(code, message, details, md, depth)| Case::FromError { code, message, details, md, depth });
    let httpc = (100u16..=599, any::<bool>(), any::<bool>()).prop_map(|(status, streaming, body_bytes)| Case::HttpStatusClient { status, streaming, body_bytes });
    prop_oneof![10 => rt, 10 => tot, 2 => http, 1 => h2, 1 => httpc, 2 => fromerr].boxed()
}

fn code_of(i: i32) -> Code {
    Code::from_i32(i)
}

#[derive(PartialEq, Debug)]
enum B64Class {
    Valid(Vec<u8>),
    Invalid,
    Gray,
}
/// Classify a grpc-status-details-bin value: canonical base64 (padded or not) must decode; a byte
/// outside the alphabet or an impossible length must be refused; everything else (odd padding,
/// non-zero trailing bits) is left to the implementation.
fn classify_b64(v: &[u8]) -> B64Class {
    if v.iter().any(|c| !(c.is_ascii_alphanumeric() || *c == b'+' || *c == b'/' || *c == b'=')) {
        return B64Class::Invalid;
    }
    let pads = v.iter().rev().take_while(|c| **c == b'=').count();
    let body = &v[..v.len() - pads];
    if body.contains(&b'=') {
        return B64Class::Invalid;
    }
    if body.len() % 4 == 1 {
        return B64Class::Invalid;
    }
    let canonical_pad = pads == 0 || (pads <= 2 && (body.len() + pads) % 4 == 0);
    if !canonical_pad || !wire::b64_is_canonical(v) {
        return B64Class::Gray;
    }
    match wire::b64_decode(v) {
        Some(d) => B64Class::Valid(d),
        None => B64Class::Gray,
    }
}

fn run_roundtrip(code: i32, message: &str, details: &[u8], mdv: &[MdEntry], via_http: bool, shadow: bool, o: &mut Outcome) -> Result<(), Failure> {
    let needs_escape = message.bytes().any(|b| !(0x20..=0x7e).contains(&b) || b == b'%');
    let (bin3, rep, res) = md::label_md(mdv);
    o.label_if(needs_escape, "message_needs_escaping");
    o.label_if(message.is_empty(), "empty_message");
    o.label_if(details.len() % 3 != 0, "details_len_mod3");
    o.label_if(!mdv.is_empty(), "metadata");
    o.label_if(bin3, "md_bin_mod3");
    o.label_if(rep, "md_repeated");
    o.label_if(res, "md_reserved_name");
    o.label_if(message.chars().any(|c| (c as u32) > 0xffff), "message_4byte_utf8");
    o.label_if(via_http, "via_into_http");
    o.nontrivial = needs_escape || details.len() % 3 != 0 || !mdv.is_empty();

    let mut meta = md::build_map(mdv);
    // the metadata may itself carry an entry named like the details header (e.g. trailers of an upstream call
    // forwarded as metadata): the status' own details must win
    let shadow = shadow && !details.is_empty();
    if shadow {
        meta.insert_bin("grpc-status-details-bin", tonic::metadata::MetadataValue::from_bytes(b"forged details from metadata"));
        o.label("metadata_named_like_details_header");
    }
    let status = Status::with_details_and_metadata(code_of(code), message.to_string(), Bytes::copy_from_slice(details), meta);
    let headers: HeaderMap = if via_http {
        let resp = status.clone().into_http::<String>();
        ensure!(resp.status() == http::StatusCode::OK, "C04/into-http-status", "into_http status {}", resp.status());
        ensure!(
            resp.headers().get("content-type").map(|v| v.as_bytes() == b"application/grpc").unwrap_or(false),
            "C04/into-http-content-type",
            "into_http content-type {:?}",
            resp.headers().get("content-type")
        );
        resp.headers().clone()
    } else {
        let mut h = HeaderMap::new();
        if let Err(e) = status.add_header(&mut h) {
            bail!("C04/add-header-failed", "add_header failed for a valid status: {e:?}");
        }
        h
    };
    for (k, v) in headers.iter() {
        ensure!(wire::is_legal_header_value(v.as_bytes()), "C04/illegal-header-value", "header {k} has illegal value bytes {}", hex(v.as_bytes()));
    }
    // grpc-status
    let gs: Vec<_> = headers.get_all("grpc-status").iter().collect();
    ensure!(gs.len() == 1 && gs[0].as_bytes() == code.to_string().as_bytes(), "C04/grpc-status-value", "grpc-status values {gs:?} for code {code}");
    // grpc-message
    let gm: Vec<_> = headers.get_all("grpc-message").iter().collect();
    if message.is_empty() {
        ensure!(gm.is_empty() || (gm.len() == 1 && gm[0].is_empty()), "C04/grpc-message-empty", "grpc-message {gm:?} for an empty message");
    } else {
        ensure!(gm.len() == 1, "C04/grpc-message-count", "{} grpc-message headers", gm.len());
        let raw = gm[0].as_bytes();
        ensure!(wire::is_strict_percent_encoded(raw), "C04/grpc-message-not-percent-encoded", "grpc-message {:?} is not pure 0x20-0x7e with well-formed escapes", String::from_utf8_lossy(raw));
        let dec = wire::percent_decode(raw);
        ensure!(dec == message.as_bytes(), "C04/grpc-message-decodes-differently", "grpc-message {:?} independently decodes to {:?}, expected {:?}", String::from_utf8_lossy(raw), String::from_utf8_lossy(&dec), message);
    }
    // details
    let gd: Vec<_> = headers.get_all("grpc-status-details-bin").iter().collect();
    if details.is_empty() {
        ensure!(gd.is_empty() || (gd.len() == 1 && gd[0].is_empty()), "C04/details-empty", "details header {gd:?} for empty details");
    } else {
        ensure!(gd.len() == 1, "C04/details-count", "{} details headers", gd.len());
        let dec = wire::b64_decode(gd[0].as_bytes());
        ensure!(dec.as_deref() == Some(details), "C04/details-decodes-differently", "details header {:?} independently decodes to {:?}", gd[0], dec.map(|d| hex(&d)));
    }
    // metadata on the wire: every non-reserved entry present, reserved user entries absent
    let allowed: &[&str] = &["grpc-status", "grpc-message", "grpc-status-details-bin", "content-type"];
    if let Err(e) = md::check_present(&headers, mdv, Some(allowed)) {
        bail!("C04/metadata-on-wire", "{e}");
    }
    for r in wire::RESERVED_METADATA {
        let n = headers.get_all(r).iter().count();
        let max = match r {
            "grpc-status" | "grpc-message" => 1,
            "content-type" => via_http as usize,
            _ => 0,
        };
        ensure!(n <= max, "C04/reserved-name-emitted", "reserved header {r} appears {n} times (user metadata must not produce it)");
        if r == "content-type" && via_http {
            ensure!(headers.get("content-type").unwrap().as_bytes() == b"application/grpc", "C04/reserved-name-emitted", "content-type overwritten by user metadata");
        }
    }
    // read back
    let back = Status::from_header_map(&headers);
    let Some(back) = back else { bail!("C04/read-back-none", "from_header_map returned None for produced headers") };
    ensure!(back.code() == code_of(code), "C04/read-back-code", "code {:?} != {:?}", back.code(), code_of(code));
    ensure!(back.message() == message, "C04/read-back-message", "message {:?} != {:?}", back.message(), message);
    ensure!(back.details() == details, "C04/read-back-details", "details {} != {}", hex(back.details()), hex(details));
    let back_md = back.metadata().clone().into_headers();
    let extra: &[&str] = if via_http { &["content-type"] } else { &[] };
    if let Err(e) = md::check_present(&back_md, mdv, Some(extra)) {
        bail!("C04/read-back-metadata", "{e}");
    }
    // typed accessors restore binary values
    for (name, vals) in md::multimap(mdv) {
        if wire::RESERVED_METADATA.contains(&name.as_str()) || !name.ends_with("-bin") {
            continue;
        }
        let got: Vec<Vec<u8>> = back.metadata().get_all_bin(name.as_str()).iter().map(|v| v.to_bytes().map(|b| b.to_vec()).unwrap_or_default()).collect();
        ensure!(got == vals, "C04/read-back-binary-values", "binary key {name}: {:?} != {:?}", got, vals);
    }
    Ok(())
}

fn run_totality(raw: &[(String, String)], o: &mut Outcome) -> Result<(), Failure> {
    let mut h = HeaderMap::new();
    for (n, v) in raw {
        let (Ok(n), Ok(v)) = (HeaderName::from_bytes(n.as_bytes()), HeaderValue::from_bytes(&unhex(v))) else { continue };
        h.append(n, v);
    }
    let st = h.get("grpc-status").map(|v| v.as_bytes().to_vec());
    let msg = h.get("grpc-message").map(|v| v.as_bytes().to_vec());
    let det = h.get("grpc-status-details-bin").map(|v| v.as_bytes().to_vec());
    let got = Status::from_header_map(&h); // a panic is caught by the runner
    let Some(st) = st else {
        o.label("no_grpc_status");
        ensure!(got.is_none(), "C04/some-without-grpc-status", "from_header_map returned a status without grpc-status");
        return Ok(());
    };
    let Some(got) = got else { bail!("C04/none-with-grpc-status", "from_header_map returned None although grpc-status is present") };
    // field classification by the independent decoders
    let msg_dec = msg.as_ref().map(|m| String::from_utf8(wire::percent_decode(m)));
    let msg_ok = !matches!(msg_dec, Some(Err(_)));
    let det_class = det.as_ref().map(|d| classify_b64(d));
    let canonical: Option<i32> = std::str::from_utf8(&st).ok().and_then(|s| {
        if s.is_empty() || s.len() > 2 || !s.bytes().all(|b| b.is_ascii_digit()) || (s.len() == 2 && s.starts_with('0')) {
            None
        } else {
            s.parse::<i32>().ok().filter(|v| *v <= 16)
        }
    });
    let leading_zero_form = std::str::from_utf8(&st).map(|s| !s.is_empty() && s.bytes().all(|b| b.is_ascii_digit()) && s.trim_start_matches('0').parse::<i32>().map(|v| v <= 16).unwrap_or(s.bytes().all(|b| b == b'0'))).unwrap_or(false) && canonical.is_none();
    o.label_if(canonical.is_none(), "malformed_status");
    o.label_if(!msg_ok, "undecodable_message");
    o.label_if(matches!(det_class, Some(B64Class::Invalid)), "invalid_base64_details");
    o.label_if(matches!(det_class, Some(B64Class::Gray)), "gray_base64_details");
    o.label_if(matches!(det_class, Some(B64Class::Valid(_))), "valid_details");
    o.label_if(msg.as_ref().map(|m| m.contains(&b'%')).unwrap_or(false), "message_with_percent");
    o.nontrivial = canonical.is_none() || !msg_ok || matches!(det_class, Some(B64Class::Invalid) | Some(B64Class::Gray)) || msg.as_ref().map(|m| !wire::is_strict_percent_encoded(m)).unwrap_or(false);

    let undecodable = !msg_ok || matches!(det_class, Some(B64Class::Invalid));
    if undecodable {
        ensure!(got.code() != Code::Ok, "C04/undecodable-field-yields-ok", "a status with an undecodable field was read as OK (status {:?})", String::from_utf8_lossy(&st));
    }
    if msg_ok && !matches!(det_class, Some(B64Class::Invalid) | Some(B64Class::Gray)) {
        match canonical {
            Some(c) => ensure!(got.code() == code_of(c), "C04/canonical-code", "grpc-status {:?} read as {:?}", String::from_utf8_lossy(&st), got.code()),
            None if leading_zero_form => {}
            None => ensure!(got.code() == Code::Unknown, "C04/malformed-code-not-unknown", "grpc-status {:?} read as {:?}, expected Unknown", String::from_utf8_lossy(&st), got.code()),
        }
        let want_msg = msg_dec.map(|r| r.unwrap()).unwrap_or_default();
        ensure!(got.message() == want_msg, "C04/message-decode", "message {:?} != independent decode {:?}", got.message(), want_msg);
        if let Some(B64Class::Valid(d)) = &det_class {
            ensure!(got.details() == &d[..], "C04/details-decode", "details {} != independent decode {}", hex(got.details()), hex(d));
        }
        if det.is_none() {
            ensure!(got.details().is_empty(), "C04/details-invented", "details present without header");
        }
    }
    // whatever happens to the status fields, the peer's other headers stay available as metadata
    let mdh = got.metadata().clone().into_headers();
    for (k, _) in h.iter() {
        let k = k.as_str();
        if k == "grpc-status" || k == "grpc-message" || k == "grpc-status-details-bin" {
            continue;
        }
        let want = h.get_all(k).iter().count();
        let have = mdh.get_all(k).iter().count();
        ensure!(have == want, if undecodable { "C04/metadata-lost-with-undecodable-field" } else { "C04/metadata-lost-on-read" }, "header {k:?}: {have} of {want} values kept in the status metadata");
    }
    for k in ["grpc-status", "grpc-message", "grpc-status-details-bin"] {
        ensure!(!mdh.contains_key(k), "C04/status-header-in-metadata", "{k} left in status metadata");
    }
    Ok(())
}

fn run_http(status: u16, trailer_status: Option<i32>, empty_data: bool, o: &mut Outcome) -> Result<(), Failure> {
    let sc = http::StatusCode::from_u16(status).unwrap();
    let mut steps = vec![];
    if empty_data {
        steps.push(BodyStep::Data(Bytes::new()));
    }
    if let Some(t) = trailer_status {
        let mut h = HeaderMap::new();
        if t >= 0 {
            h.insert("grpc-status", HeaderValue::from_str(&t.to_string()).unwrap());
        } else {
            h.insert("x-proxy-upstream-time", HeaderValue::from_static("12"));
        }
        steps.push(BodyStep::Trailers(h));
    }
    o.label_if(trailer_status == Some(-1), "http_with_foreign_trailers_only");
    let body = ScriptBody::new(steps);
    let mut st: Streaming<Vec<u8>> = Streaming::new_response(RawCodec::default().decoder(), body, sc, None, None);
    let evs = drive_decode(&mut st, 64, 2);
    o.label_if(trailer_status.is_some(), "http_with_trailer");
    o.label_if(trailer_status.is_none(), "http_status_only");
    o.nontrivial = status != 200;
    let expect: Option<i32> = match trailer_status {
        Some(0) => None,
        Some(t) if t > 0 => Some(t),
        // no grpc-status anywhere: the HTTP status speaks
        _ if status == 200 => None,
        _ => Some(wire::http_status_to_code(status)),
    };
    match (&evs[0], expect) {
        (DecEv::End, None) => {}
        (DecEv::Err(s), Some(c)) => {
            ensure!(s.code() == code_of(c), "C04/http-status-table", "HTTP {status} trailer {trailer_status:?}: got {:?}, table says {:?}", s.code(), code_of(c));
        }
        (ev, e) => bail!("C04/http-status-outcome", "HTTP {status} trailer {trailer_status:?}: first event {ev:?}, expected code {e:?}"),
    }
    for ev in &evs[1..] {
        ensure!(matches!(ev, DecEv::End), "C04/http-status-not-final", "event after the outcome: {ev:?}");
    }
    Ok(())
}


/// The same table, seen by the caller of a generated client: the peer answers with a bare HTTP status
/// (no grpc-status anywhere), e.g. a proxy error page.
fn run_http_client(status: u16, streaming: bool, body_bytes: bool, o: &mut Outcome) -> Result<(), Failure> {
    use crate::infra::mock::{MockChannel, Reply};
    o.label("http_status_via_client");
    o.nontrivial = status != 200;
    let ch = MockChannel::new(move |_rec| {
        let mut headers = HeaderMap::new();
        headers.insert("content-type", HeaderValue::from_static("text/html"));
        let steps = if body_bytes && status != 200 { vec![BodyStep::Data(Bytes::from_static(b"<html>oops</html>"))] } else { vec![] };
        Reply { status, headers, steps }
    });
    let mut client = crate::svc::vt::raw_client::RawClient::new(ch);
    let res: Result<Result<usize, Status>, _> = crate::infra::driver::block_on_budget(512, async move {
        if streaming {
            let mut s = client.server_stream(b"q".to_vec()).await?.into_inner();
            let mut n = 0;
            while s.message().await?.is_some() {
                n += 1;
            }
            Ok(n)
        } else {
            client.unary(b"q".to_vec()).await.map(|_| 1)
        }
    });
    let Ok(res) = res else { bail!("C04/http-status-client-stuck", "client call did not complete") };
    if status == 200 {
        // 200 without grpc-status: a streaming call ends cleanly, a unary call has no message to return
        if streaming {
            ensure!(matches!(res, Ok(0)), "C04/http-200-without-status", "HTTP 200 with an empty body and no grpc-status: {res:?}");
        } else {
            ensure!(res.is_err(), "C04/http-200-without-status", "unary call succeeded without a response message");
        }
        return Ok(());
    }
    let want = code_of(wire::http_status_to_code(status));
    match res {
        Err(s) => {
            // an HTML body is not gRPC framing: the table still decides when the body is empty; with garbage
            // bytes the decoder may report its own INTERNAL error first
            if body_bytes {
                ensure!(s.code() == want || s.code() == Code::Internal, "C04/http-status-table/via-client", "HTTP {status} with a non-gRPC body surfaced as {:?}, table says {want:?}", s.code());
            } else {
                ensure!(s.code() == want, "C04/http-status-table/via-client", "HTTP {status} surfaced as {:?}, table says {want:?}", s.code());
            }
        }
        Ok(n) => bail!("C04/http-error-status-reported-ok", "HTTP {status} without grpc-status gave Ok({n})"),
    }
    Ok(())
}

/// A status that reaches tonic wrapped in other errors (tower layers box and wrap errors) must come out of
/// `Status::from_error` unchanged: code, message, details and every metadata entry.
fn run_from_error(code: i32, message: &str, details: &[u8], mdv: &[MdEntry], depth: u8, o: &mut Outcome) -> Result<(), Failure> {
    o.label("status_from_error_chain");
    o.label_if(depth > 0, "status_wrapped_in_other_errors");
    o.nontrivial = depth > 0 && (!mdv.is_empty() || !details.is_empty());
    let st = Status::with_details_and_metadata(code_of(code), message.to_string(), Bytes::copy_from_slice(details), md::build_map(mdv));
    let mut err: Box<dyn std::error::Error + Send + Sync> = Box::new(st);
    for _ in 0..depth {
        err = Box::new(Wrap(err));
    }
    let got = Status::from_error(err);
    ensure!(got.code() == code_of(code), "C04/from-error-code", "code {:?} != {:?} (depth {depth})", got.code(), code_of(code));
    ensure!(got.message() == message, "C04/from-error-message", "message {:?} != {:?}", got.message(), message);
    ensure!(got.details() == details, "C04/from-error-details", "details differ (depth {depth})");
    // reserved names are stored as they are in a Status (they are only stripped when written to headers)
    let have = got.metadata().clone().into_headers();
    for (name, vals) in md::multimap(mdv) {
        let g: Vec<Vec<u8>> = have.get_all(name.as_str()).iter().map(|v| v.as_bytes().to_vec()).collect();
        ensure!(g.len() == vals.len(), "C04/from-error-metadata", "status recovered from an error chain of depth {depth}: key {name:?} has {} values, expected {}", g.len(), vals.len());
    }
    Ok(())
}

#[derive(Debug)]
struct Wrap(Box<dyn std::error::Error + Send + Sync>);
impl std::fmt::Display for Wrap {
    fn fmt(&self, f: &mut std::fmt::Formatter<'_>) -> std::fmt::Result {
        write!(f, "wrap")
    }
}
impl std::error::Error for Wrap {
    fn source(&self) -> Option<&(dyn std::error::Error + 'static)> {
        Some(&*self.0)
    }
}

/// The reset as a client meets it: a raw HTTP/2 peer on the in-memory pipe answers the call with
/// RST_STREAM(reason), before any response headers or after headers and half a message; the error then
/// travels hyper::Error -> transport error -> Status (before headers) or through the response body.
/// A peer that answers with HEADERS (`content-length: 0`, stream left open), no DATA, and then the status in a
/// trailers block: an empty body says nothing about the trailers that follow it.
fn status_in_trailers_after_empty_body(code: i32) -> Result<Status, Failure> {
    use crate::infra::rt;
    use std::time::Duration;
    let (cend, send_, _h) = crate::infra::pipe::pipe(vec![], vec![]);
    let res = rt::run_virtual(code as u64, Duration::from_secs(3600), async move {
        let srv = tokio::spawn(async move {
            let Ok(mut conn) = h2::server::handshake(send_).await else { return };
            while let Some(Ok((_req, mut respond))) = conn.accept().await {
                let resp = http::Response::builder().status(200).header("content-type", "application/grpc").header("content-length", "0").body(()).unwrap();
                if let Ok(mut body) = respond.send_response(resp, false) {
                    let mut t = HeaderMap::new();
                    t.insert("grpc-status", HeaderValue::from_str(&code.to_string()).unwrap());
                    t.insert("grpc-message", HeaderValue::from_static("no%20such%20thing"));
                    t.insert("x-reason", HeaderValue::from_static("r1"));
                    let _ = body.send_trailers(t);
                }
            }
        });
        let cell = std::sync::Arc::new(std::sync::Mutex::new(Some(cend)));
        let connector = tower::service_fn(move |_u: http::Uri| {
            let cell = cell.clone();
            async move { cell.lock().unwrap().take().map(hyper_util::rt::TokioIo::new).ok_or_else(|| std::io::Error::new(std::io::ErrorKind::Other, "single-use connector")) }
        });
        let ch = tonic::transport::Endpoint::from_static("http://pipe.test").connect_with_connector(connector).await.map_err(|e| format!("connect: {e:?}"))?;
        let mut client = crate::svc::vt::raw_client::RawClient::new(ch);
        let r = client.unary(b"ping".to_vec()).await;
        srv.abort();
        Ok::<_, String>(r.map(|_| ()))
    });
    match res {
        Err(_) => bail!("C04/status-after-empty-body-never-resolves", "call never resolved"),
        Ok(Err(e)) => bail!("C04/h2-reset-setup", "{e}"),
        Ok(Ok(Ok(()))) => bail!("C04/status-after-empty-body", "a unary call answered without a message and with grpc-status {code} in the trailers succeeded"),
        Ok(Ok(Err(s))) => Ok(s),
    }
}

fn h2_reset_on_the_wire(reason: u32, after_headers: bool) -> Result<Status, Failure> {
    use crate::infra::rt;
    use std::time::Duration;
    let (cend, send_, _h) = crate::infra::pipe::pipe(vec![], vec![]);
    let res = rt::run_virtual(reason as u64, Duration::from_secs(3600), async move {
        let srv = tokio::spawn(async move {
            let Ok(mut conn) = h2::server::handshake(send_).await else { return };
            while let Some(Ok((_req, mut respond))) = conn.accept().await {
                if after_headers {
                    let resp = http::Response::builder().status(200).header("content-type", "application/grpc").body(()).unwrap();
                    if let Ok(mut body) = respond.send_response(resp, false) {
                        let _ = body.send_data(Bytes::from_static(&[0, 0, 0, 0, 9, b'x']), false);
                        body.send_reset(h2::Reason::from(reason));
                    }
                } else {
                    respond.send_reset(h2::Reason::from(reason));
                }
            }
        });
        let cell = std::sync::Arc::new(std::sync::Mutex::new(Some(cend)));
        let connector = tower::service_fn(move |_u: http::Uri| {
            let cell = cell.clone();
            async move { cell.lock().unwrap().take().map(hyper_util::rt::TokioIo::new).ok_or_else(|| std::io::Error::new(std::io::ErrorKind::Other, "single-use connector")) }
        });
        let ch = tonic::transport::Endpoint::from_static("http://pipe.test").connect_with_connector(connector).await.map_err(|e| format!("connect: {e:?}"))?;
        let mut client = crate::svc::vt::raw_client::RawClient::new(ch);
        let r = async {
            let mut s = client.server_stream(b"ping".to_vec()).await?.into_inner();
            while s.message().await?.is_some() {}
            Ok::<(), Status>(())
        }
        .await;
        srv.abort();
        Ok::<_, String>(r)
    });
    match res {
        Err(_) => bail!("C04/h2-reset-call-never-resolves", "call answered with RST_STREAM({reason}) never resolved"),
        Ok(Err(e)) => bail!("C04/h2-reset-setup", "{e}"),
        Ok(Ok(Ok(()))) => bail!("C04/h2-reason-ok", "call answered with RST_STREAM({reason}) (after headers: {after_headers}) succeeded"),
        Ok(Ok(Err(s))) => Ok(s),
    }
}

fn run_h2(reason: u32, how: u8, o: &mut Outcome) -> Result<(), Failure> {
    if how % 6 == 4 {
        // not a reset at all: family member "status in the trailers behind an empty, length-announced body"
        let code = (reason % 16) as i32 + 1;
        o.label("status_in_trailers_after_empty_sized_body");
        o.nontrivial = true;
        let st = status_in_trailers_after_empty_body(code)?;
        ensure!(st.code() == code_of(code) && st.message() == "no such thing", "C04/status-after-empty-body", "peer sent grpc-status {code} \"no such thing\" in the trailers behind an empty body (content-length: 0); the caller got {:?} {:?}", st.code(), st.message());
        ensure!(st.metadata().get("x-reason").map(|v| v.as_bytes() == b"r1").unwrap_or(false), "C04/status-after-empty-body", "trailing metadata lost: {:?}", st.metadata());
        return Ok(());
    }
    let mk = || h2::Error::from(h2::Reason::from(reason));
    let st: Status = match how % 4 {
        0 => Status::from(mk()),
        1 => Status::from_error(Box::new(mk())),
        2 => {
            o.label("h2_reset_on_the_wire_before_headers");
            h2_reset_on_the_wire(reason, false)?
        }
        _ => {
            o.label("h2_reset_on_the_wire_mid_stream");
            h2_reset_on_the_wire(reason, true)?
        }
    };
    o.label_if(reason <= 13, "h2_known_reason");
    o.label_if(reason > 13, "h2_unknown_reason");
    o.nontrivial = true;
    ensure!(st.code() != Code::Ok, "C04/h2-reason-ok", "h2 reason {reason} mapped to OK");
    if let Some(c) = wire::h2_reason_to_code(reason) {
        ensure!(st.code() == code_of(c), "C04/h2-table", "h2 reason {reason:#x} mapped to {:?}, gRPC table says {:?}", st.code(), code_of(c));
    }
    // and back: a status converted to an h2 error is CANCEL for Cancelled, never NO_ERROR
    let e: h2::Error = st.clone().into();
    ensure!(e.reason().is_some() && e.reason() != Some(h2::Reason::NO_ERROR), "C04/to-h2", "status -> h2 error has reason {:?}", e.reason());
    let _ = Wrap(Box::new(mk()));
    Ok(())
}

pub fn run(c: &Case, o: &mut Outcome) -> Result<(), Failure> {
    match c {
        Case::RoundTrip { code, message, details, md, via_http, shadow } => {
            o.label("roundtrip");
            run_roundtrip(*code, message, &details.bytes(), md, *via_http, *shadow, o)
        }
        Case::Totality { headers } => {
            o.label("totality");
            run_totality(headers, o)
        }
        Case::HttpStatus { status, trailer_status, empty_data } => run_http(*status, *trailer_status, *empty_data, o),
        Case::H2Reason { reason, how } => run_h2(*reason, *how, o),
        Case::HttpStatusClient { status, streaming, body_bytes } => run_http_client(*status, *streaming, *body_bytes, o),
        Case::FromError { code, message, details, md, depth } => run_from_error(*code, message, &details.bytes(), md, *depth, o),
    }
}

pub struct C04;
impl Prop for C04 {
    const ID: &'static str = "C04";
    type Case = Case;
    fn strategy() -> BoxedStrategy<Case> {
        strategy()
    }
    fn run(c: &Case, o: &mut Outcome) -> Result<(), Failure> {
        run(c, o)
    }
    fn rule() -> &'static str {
        "proptest over six families (incl. statuses recovered from error source chains and the HTTP table through a generated client). (a) round trip: 17 codes x Unicode messages (controls, %, %41, non-ASCII incl. 4-byte, <=300 chars) x details 0-200 bytes x metadata (ASCII/opaque/-bin, repeated, reserved names) through Status::add_header / into_http and back through from_header_map; produced values judged by independent percent/base64 decoders. (b) totality: arbitrary header maps (malformed grpc-status, broken escapes, invalid UTF-8, bad base64). (c) every HTTP status 100..=599 (enumerated exhaustively) through Streaming::new_response, with and without a grpc-status trailer, against the transcribed table. (d) h2 reasons 0..=13 (exhaustive) and unknown ones through From<h2::Error> / from_error, and as RST_STREAM sent by a raw HTTP/2 peer over the in-memory pipe to a generated client (before the response headers, or after headers and half a message), against the transcribed table. Non-trivial: (a) message needs escaping or details length mod 3 != 0 or metadata non-empty; (b) >=1 malformed field; (c) status != 200; (d) all. Distinct = distinct serialised case. Also: status metadata holding an entry named grpc-status-details-bin next to non-empty details (the details win). RST_STREAM(reason) from a raw HTTP/2 peer over the in-memory pipe (before the response headers / after headers and half a message) goes through the same table. A trailers block without grpc-status on mapped HTTP statuses; a raw HTTP/2 peer answering HEADERS (content-length: 0), no DATA, then the status in trailers."
    }
    fn assumptions() -> Vec<String> {
        vec![
            "custom metadata names never start with grpc- (reserved by the gRPC spec) except the six reserved names used on purpose".into(),
            "leading-zero grpc-status strings, STREAM_CLOSED / HTTP_1_1_REQUIRED / unknown h2 reasons and non-canonical base64 (odd padding, non-zero trailing bits) are only required not to panic and not to read as OK".into(),
        ]
    }
    fn cases(t: Tier) -> u64 {
        match t {
            Tier::Quick => 100_000,
            Tier::Thorough => 3_000_000,
        }
    }
    fn fixed_cases(_t: Tier) -> Vec<Case> {
        let mut v = vec![];
        for status in 100u16..=599 {
            v.push(Case::HttpStatus { status, trailer_status: None, empty_data: false });
            if status % 7 == 0 || [400u16, 401, 403, 404, 429, 502, 503, 504].contains(&status) {
                v.push(Case::HttpStatus { status, trailer_status: Some(-1), empty_data: false });
            }
        }
        for status in [200u16, 204, 301, 400, 401, 403, 404, 418, 429, 500, 502, 503, 504, 599] {
            for streaming in [false, true] {
                v.push(Case::HttpStatusClient { status, streaming, body_bytes: false });
            }
        }
        for reason in 0u32..=13 {
            for how in 0..5 {
                v.push(Case::H2Reason { reason, how });
            }
        }
        v
    }
    fn fixed_is_exhaustive() -> Option<&'static str> {
        Some("HTTP status 100..=599 without trailers (500 cases) and h2 reasons 0..=13 x 4 paths (From<h2::Error>, from_error, RST_STREAM from a raw HTTP/2 peer before headers / mid-stream) are enumerated completely")
    }
    fn from_bytes(data: &[u8]) -> Option<Case> {
        // fuzz target c04_headers: raw name/value bytes. Layout: repeated [kind u8][len u8][value bytes]
        let mut headers = vec![];
        let mut i = 0;
        while i + 2 <= data.len() && headers.len() < 8 {
            let kind = data[i];
            let len = (data[i + 1] as usize).min(data.len() - i - 2);
            let val = &data[i + 2..i + 2 + len];
            i += 2 + len;
            let name = match kind % 5 {
                0 => "grpc-status",
                1 => "grpc-message",
                2 => "grpc-status-details-bin",
                3 => "x-other",
                _ => "x-other-bin",
            };
            headers.push((name.to_string(), hex(val)));
        }
        Some(Case::Totality { headers })
    }
    fn fuzz(t: Tier) -> Option<FuzzSpec> {
        match t {
            Tier::Quick => None,
            Tier::Thorough => Some(FuzzSpec { target: "c04_headers", runs: 2_000_000, max_len: 256 }),
        }
    }
}
