//! C01 – message streams survive encode/decode unchanged under any chunking.
use crate::infra::blob::Blob;
use crate::infra::codec_drv::*;
use crate::infra::gen;
use crate::infra::runner::*;
use crate::infra::wire::{self, Enc};
use crate::svc::{Inner, Msg, RawCodec};
use crate::{bail, ensure};
use proptest::prelude::*;
use serde::{Deserialize, Serialize};
use tonic::codec::{BufferSettings, Codec, ProstCodec, Streaming};

#[derive(Clone, Debug, Serialize, Deserialize)]
pub struct MsgSpec {
    pub data: Blob,
    pub s: String,
    pub r: Vec<u32>,
    pub inner: Option<(i64, Vec<String>)>,
    pub f: u64,
}
impl MsgSpec {
    pub fn to_msg(&self) -> Msg {
        Msg {
            data: self.data.bytes(),
            s: self.s.clone(),
            r: self.r.clone(),
            inner: self.inner.clone().map(|(z, names)| Inner { z, names }),
            f: self.f,
        }
    }
}

#[derive(Clone, Debug, Serialize, Deserialize)]
pub struct Case {
    pub prost: bool,
    pub buffer_size: usize,
    pub yield_threshold: usize,
    pub alt_yield: usize,
    pub role: Role,
    pub enc: Option<Enc>,
    pub disable: bool,
    pub msgs: Vec<MsgSpec>,
    pub src_pend: Vec<u8>,
    pub sizes: Vec<u16>,
    /// (frame selector, in-payload?, position selector)
    pub targeted: Vec<(u16, bool, u16)>,
    pub body_pend: Vec<u8>,
    pub trailers: bool,
    /// decoder told about the encoding even when the response opted out of compression
    pub announce_when_disabled: bool,
    /// the body hands every DATA frame to the decoder as a two-segment `Buf`, split after len * seg / 256 bytes
    #[serde(default)]
    pub seg: u8,
}

pub fn msg_spec(bs: usize, yt: usize, prost: bool) -> BoxedStrategy<MsgSpec> {
    if prost {
        (
            gen::payload(bs, yt, true),
            gen::unicode_string(12),
            proptest::collection::vec(any::<u32>(), 0..6),
            proptest::option::of((any::<i64>(), proptest::collection::vec("[a-z]{0,6}", 0..3))),
            prop_oneof![Just(0u64), any::<u64>()],
        )
            .prop_map(|(data, s, r, inner, f)| MsgSpec { data, s, r, inner, f })
            .boxed()
    } else {
        gen::payload(bs, yt, true)
            .prop_map(|data| MsgSpec { data, s: String::new(), r: vec![], inner: None, f: 0 })
            .boxed()
    }
}

pub fn strategy() -> BoxedStrategy<Case> {
    (gen::buffer_settings(), any::<bool>(), 0usize..=12)
        .prop_flat_map(|((bs, yt), prost, n)| {
            (
                proptest::collection::vec(msg_spec(bs, yt, prost), n),
                gen::pend_pattern(n + 1),
                proptest::sample::select(&gen::YIELD_THRESHOLDS[..]),
                prop_oneof![Just(Role::Client), Just(Role::Server)],
                gen::enc_opt(),
                proptest::bool::weighted(0.2),
                gen::chunk_sizes(40),
                proptest::collection::vec((any::<u16>(), any::<bool>(), any::<u16>()), 1..4),
                gen::pend_pattern(5),
                any::<bool>(),
                any::<bool>(),
                prop_oneof![2 => Just(0u8), 3 => any::<u8>()],
            )
                .prop_map(
                    move |(msgs, src_pend, alt_yield, role, enc, disable, sizes, targeted, body_pend, trailers, ann, seg)| Case {
                        prost,
                        buffer_size: bs,
                        yield_threshold: yt,
                        alt_yield,
                        role,
                        enc,
                        disable: disable && role == Role::Server,
                        msgs,
                        src_pend,
                        sizes,
                        targeted,
                        body_pend,
                        trailers,
                        announce_when_disabled: ann,
                        seg,
                    },
                )
        })
        .boxed()
}

fn encode(c: &Case, yt: usize, pend: &[u8]) -> EncOut {
    let budget = 64 + 8 * (c.msgs.len() + pend.iter().map(|p| *p as usize).sum::<usize>());
    if c.prost {
        let items: Vec<Result<Msg, tonic::Status>> = c.msgs.iter().map(|m| Ok(m.to_msg())).collect();
        let encoder = ProstCodec::<Msg, Msg>::raw_encoder(BufferSettings::new(c.buffer_size, yt));
        drive_encode(encoder, src_steps(items, pend), c.role, c.enc, c.disable, None, budget, 2)
    } else {
        let items: Vec<Result<Vec<u8>, tonic::Status>> = c.msgs.iter().map(|m| Ok(m.data.bytes())).collect();
        let encoder = RawCodec::with(c.buffer_size, yt).encoder();
        drive_encode(encoder, src_steps(items, pend), c.role, c.enc, c.disable, None, budget, 2)
    }
}

/// Checks the shape of an encoder transcript and returns the concatenated DATA bytes.
fn check_enc_shape(c: &Case, out: &EncOut, tag: &str) -> Result<Vec<u8>, Failure> {
    if let Some(v) = out.contract_violation() {
        bail!("C01/encoder-body-contract", "{tag}: {v}");
    }
    let mut seen_end = false;
    let mut trailers = 0;
    for (i, ev) in out.events.iter().enumerate() {
        match ev {
            Ev::Stuck => bail!("C01/encode-stuck", "{tag}: EncodeBody did not complete within the poll budget (event {i})"),
            Ev::Err(s) => bail!("C01/encode-error", "{tag}: EncodeBody yielded an error for encodable messages: {s:?}"),
            Ev::Data(_) => ensure!(!seen_end, "C01/data-after-end", "{tag}: DATA frame after the end of the body (event {i})"),
            Ev::Trailers(t) => {
                ensure!(c.role == Role::Server, "C01/client-trailers", "{tag}: client body produced trailers");
                ensure!(!seen_end, "C01/trailers-twice", "{tag}: trailers after the end of the body");
                ensure!(
                    t.get("grpc-status").map(|v| v.as_bytes() == b"0").unwrap_or(false),
                    "C01/ok-trailers",
                    "{tag}: server trailers for an OK stream are {t:?}"
                );
                trailers += 1;
                seen_end = true;
            }
            Ev::End => seen_end = true,
        }
    }
    if c.role == Role::Server {
        ensure!(trailers == 1, "C01/trailers-count", "{tag}: server body produced {trailers} trailers blocks");
    }
    Ok(out.data_concat())
}

pub fn run(c: &Case, o: &mut Outcome) -> Result<(), Failure> {
    let n = c.msgs.len();
    // ---- encode with the generated readiness pattern
    let out = encode(c, c.yield_threshold, &c.src_pend);
    let bytes = check_enc_shape(c, &out, "generated-pattern")?;
    // ---- metamorphic: all-ready source; different yield threshold
    let ready = vec![0u8; n + 1];
    let out2 = encode(c, c.yield_threshold, &ready);
    let bytes2 = check_enc_shape(c, &out2, "all-ready")?;
    ensure!(
        bytes == bytes2,
        "C01/bytes-depend-on-readiness",
        "concatenated encoder output differs between readiness patterns: {} vs {} bytes (first diff at {:?})",
        bytes.len(),
        bytes2.len(),
        bytes.iter().zip(bytes2.iter()).position(|(a, b)| a != b)
    );
    let out3 = encode(c, c.alt_yield, &c.src_pend);
    let bytes3 = check_enc_shape(c, &out3, "alt-yield")?;
    ensure!(
        bytes == bytes3,
        "C01/bytes-depend-on-batching",
        "concatenated encoder output differs between yield thresholds {} and {}: {} vs {} bytes",
        c.yield_threshold,
        c.alt_yield,
        bytes.len(),
        bytes3.len()
    );
    let data_frames = out.events.iter().filter(|e| matches!(e, Ev::Data(_))).count();
    o.label_if(data_frames < n && n >= 2, "batch>=2");
    o.label_if(c.src_pend.iter().any(|p| *p > 0), "source_pending");
    o.label_if(c.prost, "prost");
    o.label_if(c.disable, "override_disable");
    o.label_if(c.msgs.iter().any(|m| m.data.len() == 0), "empty_message");
    o.label_if(bytes.len() > c.yield_threshold && n >= 1, "over_yield_threshold");
    o.label_if(c.msgs.iter().any(|m| m.data.len() > 32768), "msg>32KiB");
    match c.enc {
        Some(_) if !c.disable => o.label("compressed"),
        _ => o.label("identity"),
    }

    // ---- frame boundaries from the independent parser (needed to place targeted cuts)
    let (frames, end) = wire::parse_frames(&bytes);
    ensure!(
        end == wire::ParseEnd::Clean && frames.len() == n,
        "C01/encoder-framing",
        "independent parser finds {} frames ({:?}) for {} messages",
        frames.len(),
        end,
        n
    );
    let mut extra = vec![];
    for (fsel, in_payload, psel) in &c.targeted {
        if frames.is_empty() {
            break;
        }
        let f = &frames[gen::pick(*fsel, frames.len())];
        if *in_payload && f.len >= 2 {
            extra.push(f.off + 5 + 1 + gen::pick(*psel, f.len - 1));
        } else {
            extra.push(f.off + 1 + gen::pick(*psel, 4));
        }
    }
    let chunks = cut(&bytes, &c.sizes, &extra);
    // classify cuts
    let mut pos = 0usize;
    let mut cut_prefix = false;
    let mut cut_payload = false;
    for ch in &chunks {
        pos += ch.len();
        if pos == 0 || pos >= bytes.len() {
            continue;
        }
        for f in &frames {
            if pos > f.off && pos < f.off + 5 {
                cut_prefix = true;
            }
            if pos > f.off + 5 && pos < f.off + 5 + f.len {
                cut_payload = true;
            }
        }
    }
    let compressed = c.enc.is_some() && !c.disable;
    o.label_if(cut_prefix, "cut_in_prefix");
    o.label_if(cut_payload && compressed, "cut_in_compressed_payload");
    o.label_if(cut_payload && !compressed, "cut_in_plain_payload");
    o.label_if(chunks.iter().any(|c| c.is_empty()), "empty_chunk");
    o.label_if(c.body_pend.iter().any(|p| *p > 0), "body_pending");
    o.nontrivial = n >= 1 && (cut_prefix || cut_payload);

    // ---- decode
    let dec_enc = if compressed || (c.disable && c.announce_when_disabled) { c.enc } else { None };
    let trailers = if c.role == Role::Server && c.trailers { Some(ok_trailers()) } else { None };
    let mut body = script_body(&chunks, &c.body_pend, trailers);
    body.eos = c.seg % 2 == 1;
    let probe = body.probe.clone();
    let body = crate::infra::script::SegBody::new(body, c.seg);
    o.label_if(c.seg != 0 && chunks.iter().any(|ch| ch.len() * c.seg as usize / 256 > 0), "data_frame_in_two_buf_segments");
    let budget = 64 + 8 * (chunks.len() * 4 + n);
    macro_rules! decode_and_compare {
        ($decoder:expr, $expected:expr) => {{
            let mut st = match c.role {
                Role::Client => Streaming::new_request($decoder, body, dec_enc.map(|e| e.tonic()), None),
                Role::Server => Streaming::new_response(
                    $decoder,
                    body,
                    http::StatusCode::OK,
                    dec_enc.map(|e| e.tonic()),
                    None,
                ),
            };
            let evs = drive_decode(&mut st, budget, 3);
            let expected = $expected;
            let mut got = 0usize;
            for (i, ev) in evs.iter().enumerate() {
                match ev {
                    DecEv::Stuck => bail!("C01/decode-stuck", "Streaming did not complete within the poll budget at event {i}"),
                    DecEv::Err(s) => bail!("C01/decode-error", "Streaming yielded an error on a valid body at event {i}: {s:?}"),
                    DecEv::Item(m) => {
                        ensure!(got < expected.len(), "C01/extra-message", "Streaming yielded more than {} messages", expected.len());
                        ensure!(i == got, "C01/message-after-end", "message after the end of the stream");
                        ensure!(*m == expected[got], "C01/message-mismatch", "message {got} differs after the round trip");
                        got += 1;
                    }
                    DecEv::End => {
                        ensure!(got == expected.len(), "C01/premature-end", "clean end after {got} of {} messages", expected.len());
                    }
                }
            }
            ensure!(evs.len() == expected.len() + 4, "C01/end-not-sticky", "expected {} events, got {}", expected.len() + 4, evs.len());
        }};
    }
    if c.prost {
        let expected: Vec<Msg> = c.msgs.iter().map(|m| m.to_msg()).collect();
        decode_and_compare!(ProstCodec::<Msg, Msg>::raw_decoder(BufferSettings::new(c.buffer_size, c.yield_threshold)), expected);
    } else {
        let expected: Vec<Vec<u8>> = c.msgs.iter().map(|m| m.data.bytes()).collect();
        decode_and_compare!(RawCodec::with(c.buffer_size, c.yield_threshold).decoder(), expected);
    }
    let pae = probe.polls_after_end.load(std::sync::atomic::Ordering::Relaxed);
    ensure!(pae <= 8, "C01/body-polled-after-end", "body polled {pae} times after it ended");
    Ok(())
}

pub struct C01;
impl Prop for C01 {
    const ID: &'static str = "C01";
    type Case = Case;
    fn strategy() -> BoxedStrategy<Case> {
        strategy()
    }
    fn run(c: &Case, o: &mut Outcome) -> Result<(), Failure> {
        run(c, o)
    }
    fn rule() -> &'static str {
        "proptest: codec in {raw bytes, ProstCodec<Msg>} x BufferSettings (buffer_size in {1,2,5,16,100,4096,8192}, yield_threshold in {0,1,5,64,1024,32768}) x role x encoding in {identity,gzip,deflate,zstd} x per-response opt-out x 0..12 messages (sizes 0, 1-16, <=300, buffer_size+-2, yield_threshold+-6, <=70KiB; random/zero/repetitive) x source Pending pattern x chunking (sizes 0,1,2-5,<=100,<=9000 plus targeted cuts inside a chosen frame's 5-byte prefix / payload) x body Pending pattern x OK-trailers/none. Oracle: round trip through tonic's EncodeBody and Streaming equals the originals then None (sticky); encoder bytes identical for all-ready source and for another yield_threshold. Non-trivial: >=1 message and >=1 chunk boundary strictly inside a length prefix or inside a payload; distinct = distinct serialised case. Every DATA frame reaches the decoder as a two-segment Buf (bytes::buf::Chain) split at a generated position. The raw codec serialises even-length messages through io::Write without reserving; half of the decoder bodies report is_end_stream exactly; an encoder that hands out more than 4 x budget + 64 frames counts as stuck."
    }
    fn assumptions() -> Vec<String> {
        vec![
            "buffer_size >= 1 (0 divides by zero in compress; docs describe growth by buffer_size increments)".into(),
            "compressors are deterministic functions of their input".into(),
        ]
    }
    fn cases(t: Tier) -> u64 {
        match t {
            Tier::Quick => 100_000,
            Tier::Thorough => 1_000_000,
        }
    }
    fn from_bytes(data: &[u8]) -> Option<Case> {
        from_bytes(data)
    }
    fn fuzz(t: Tier) -> Option<FuzzSpec> {
        match t {
            Tier::Quick => None,
            Tier::Thorough => Some(FuzzSpec { target: "c01_roundtrip", runs: 400_000, max_len: 4096 }),
        }
    }
}

pub fn from_bytes(data: &[u8]) -> Option<Case> {
    use arbitrary::Unstructured;
    let mut u = Unstructured::new(data);
    let prost = u.arbitrary::<bool>().ok()?;
    let bs = *u.choose(&gen::BUFFER_SIZES).ok()?;
    let yt = *u.choose(&gen::YIELD_THRESHOLDS).ok()?;
    let alt = *u.choose(&gen::YIELD_THRESHOLDS).ok()?;
    let role = if u.arbitrary::<bool>().ok()? { Role::Client } else { Role::Server };
    let enc = match u.int_in_range(0u8..=4).ok()? {
        0 | 1 => None,
        2 => Some(Enc::Gzip),
        3 => Some(Enc::Deflate),
        _ => Some(Enc::Zstd),
    };
    let disable = role == Role::Server && u.ratio(1u8, 5u8).ok()?;
    let n = u.int_in_range(0usize..=8).ok()?;
    let mut msgs = vec![];
    for _ in 0..n {
        let kind = u.int_in_range(0u8..=5).ok()?;
        let len: u32 = match kind {
            0 => 0,
            1 => u.int_in_range(1u32..=16).ok()?,
            2 => u.int_in_range(0u32..=300).ok()?,
            3 => (bs as u32).saturating_sub(2) + u.int_in_range(0u32..=4).ok()?,
            4 => (yt as u32).saturating_sub(6) + u.int_in_range(0u32..=12).ok()?,
            _ => u.int_in_range(0u32..=40_000).ok()?,
        };
        let data = match u.int_in_range(0u8..=3).ok()? {
            0 => Blob::Zeros(len),
            1 => Blob::Rep(len, u.arbitrary().ok()?),
            2 => Blob::Rnd(len, u.arbitrary().ok()?),
            _ => {
                let l = (len as usize).min(48);
                Blob::of(u.bytes(l.min(u.len())).ok()?)
            }
        };
        let (s, r, inner, f) = if prost {
            let sl = u.int_in_range(0usize..=8).ok()?;
            let s: String = (0..sl).map(|_| u.arbitrary::<char>().unwrap_or('a')).collect();
            let rl = u.int_in_range(0usize..=4).ok()?;
            let r = (0..rl).map(|_| u.arbitrary::<u32>().unwrap_or(0)).collect();
            let inner = if u.arbitrary::<bool>().ok()? { Some((u.arbitrary::<i64>().ok()?, vec!["x".to_string()])) } else { None };
            (s, r, inner, u.arbitrary::<u64>().ok()?)
        } else {
            (String::new(), vec![], None, 0)
        };
        msgs.push(MsgSpec { data, s, r, inner, f });
    }
    let src_pend = (0..=n).map(|_| u.int_in_range(0u8..=2).unwrap_or(0)).collect();
    let body_pend = (0..4).map(|_| u.int_in_range(0u8..=2).unwrap_or(0)).collect();
    let trailers = u.arbitrary::<bool>().ok()?;
    let ann = u.arbitrary::<bool>().ok()?;
    let nt = u.int_in_range(0usize..=3).ok()?;
    let targeted = (0..nt)
        .map(|_| (u.arbitrary().unwrap_or(0), u.arbitrary().unwrap_or(false), u.arbitrary().unwrap_or(0)))
        .collect();
    let ns = u.int_in_range(0usize..=40).ok()?;
    let sizes = (0..ns)
        .map(|_| {
            let b: u8 = u.arbitrary().unwrap_or(1);
            if b < 200 {
                (b % 8) as u16
            } else {
                (b as u16 - 199) * 37
            }
        })
        .collect();
    Some(Case {
        prost,
        buffer_size: bs,
        yield_threshold: yt,
        alt_yield: alt,
        role,
        enc,
        disable,
        msgs,
        src_pend,
        sizes,
        targeted,
        body_pend,
        trailers,
        announce_when_disabled: ann,
        seg: (bs as u8) ^ 0x6b,
    })
}
