//! C20 – rich error details (google.rpc standard messages) round-trip through a status.
//!
//! Families: (a) `ErrorDetails` set -> status -> headers -> status -> set / vec / per-kind getters,
//! (b) `Vec<ErrorDetail>` likewise (ordered, kinds may repeat), (c) "foreign" encodings written by the
//! harness's own protobuf writer (what another gRPC implementation would send) decoded by tonic,
//! (d) totality: mutated valid encodings and arbitrary bytes through all fourteen decode entry points.
//! Everything tonic emits is also read back with the harness's own protobuf reader against the field
//! numbers of google/rpc/status.proto and google/rpc/error_details.proto (transcribed below).
use crate::infra::blob::{hex, small_bytes, Blob};
use crate::infra::gen;
use crate::infra::md::{self, MdEntry};
use crate::infra::runner::*;
use crate::infra::wire::{self, PbVal};
use crate::{bail, ensure};
use bytes::Bytes;
use http::HeaderMap;
use proptest::prelude::*;
use serde::{Deserialize, Serialize};
use std::collections::{BTreeMap, HashMap};
use std::time::Duration;
use tonic::{Code, Status};
use tonic_types::{
    BadRequest, DebugInfo, ErrorDetail, ErrorDetails, ErrorInfo, FieldViolation, Help, HelpLink, LocalizedMessage,
    PreconditionFailure, PreconditionViolation, QuotaFailure, QuotaViolation, RequestInfo, ResourceInfo, RetryInfo,
    RpcStatusExt, StatusExt,
};

// ------------------------------------------------------------------ reference description

/// google.rpc.* message names in the order `ErrorDetails` lists them (error_details.proto).
pub const KINDS: [&str; 10] = [
    "RetryInfo",
    "DebugInfo",
    "QuotaFailure",
    "ErrorInfo",
    "PreconditionFailure",
    "BadRequest",
    "RequestInfo",
    "ResourceInfo",
    "Help",
    "LocalizedMessage",
];
/// documented upper bound of RetryInfo::new (google.protobuf.Duration range, ~10 000 years)
const MAX_S: u64 = 315_576_000_000;
const MAX_N: u32 = 999_999_999;

fn url(kind: usize) -> String {
    format!("type.googleapis.com/google.rpc.{}", KINDS[kind])
}

/// One error detail, described independently of tonic's types.
#[derive(Clone, Debug, Serialize, Deserialize, PartialEq)]
pub enum Det {
    /// retry delay as (seconds, nanos < 1e9) of a std Duration; may exceed the documented maximum
    Retry(Option<(u64, u32)>),
    /// wire-only: raw google.protobuf.Duration{seconds, nanos}, possibly negative / denormal
    RetryRaw(i64, i32),
    Debug(Vec<String>, String),
    Quota(Vec<(String, String)>),
    Info(String, String, BTreeMap<String, String>),
    Prec(Vec<(String, String, String)>),
    Bad(Vec<(String, String)>),
    Req(String, String),
    Res(String, String, String, String),
    Help(Vec<(String, String)>),
    Loc(String, String),
    /// wire-only: arbitrary Any{type_url, value}
    Other(String, Blob),
}

impl Det {
    fn kind(&self) -> Option<usize> {
        Some(match self {
            Det::Retry(_) | Det::RetryRaw(..) => 0,
            Det::Debug(..) => 1,
            Det::Quota(_) => 2,
            Det::Info(..) => 3,
            Det::Prec(_) => 4,
            Det::Bad(_) => 5,
            Det::Req(..) => 6,
            Det::Res(..) => 7,
            Det::Help(_) => 8,
            Det::Loc(..) => 9,
            Det::Other(..) => return None,
        })
    }
    fn strings(&self) -> Vec<&str> {
        let mut v: Vec<&str> = vec![];
        match self {
            Det::Retry(_) | Det::RetryRaw(..) | Det::Other(..) => {}
            Det::Debug(e, d) => {
                v.extend(e.iter().map(|s| s.as_str()));
                v.push(d);
            }
            Det::Quota(x) | Det::Bad(x) | Det::Help(x) => {
                for (a, b) in x {
                    v.push(a);
                    v.push(b);
                }
            }
            Det::Info(a, b, m) => {
                v.push(a);
                v.push(b);
                for (k, x) in m {
                    v.push(k);
                    v.push(x);
                }
            }
            Det::Prec(x) => {
                for (a, b, c) in x {
                    v.push(a);
                    v.push(b);
                    v.push(c);
                }
            }
            Det::Req(a, b) | Det::Loc(a, b) => {
                v.push(a);
                v.push(b);
            }
            Det::Res(a, b, c, d) => {
                v.push(a);
                v.push(b);
                v.push(c);
                v.push(d);
            }
        }
        v
    }
    /// what the public constructors are documented to store (RetryInfo::new clamps to MAX_RETRY_DELAY)
    fn api_expect(&self) -> Det {
        match self {
            Det::Retry(Some((s, n))) => {
                let n = (*n).min(MAX_N);
                if (*s, n) > (MAX_S, MAX_N) {
                    Det::Retry(Some((MAX_S, MAX_N)))
                } else {
                    Det::Retry(Some((*s, n)))
                }
            }
            Det::RetryRaw(s, n) => Det::Retry(Some(((*s).max(0) as u64, (*n).clamp(0, MAX_N as i32) as u32))).api_expect(),
            Det::Other(..) => Det::Retry(None),
            d => d.clone(),
        }
    }
    /// what a conforming reader must obtain from the harness-written encoding of this item; None = the
    /// statement / docs do not pin the value (only totality is demanded)
    fn foreign_expect(&self) -> Option<Det> {
        match self {
            Det::Other(..) => None,
            Det::Retry(Some((s, n))) => (*s <= MAX_S && *n <= MAX_N).then(|| self.clone()),
            Det::RetryRaw(s, n) => {
                let nn = *n as i64;
                if *s >= 0 && (*s as u64) <= MAX_S && (0..=MAX_N as i64).contains(&nn) {
                    Some(Det::Retry(Some((*s as u64, *n as u32))))
                } else if *s <= 0 && *s >= -(MAX_S as i64) && nn <= 0 && nn > -1_000_000_000 {
                    // RetryInfo docs: "negative retry_delay's become 0"
                    Some(Det::Retry(Some((0, 0))))
                } else {
                    None
                }
            }
            d => Some(d.clone()),
        }
    }
}

// ------------------------------------------------------------------ Det -> tonic types

fn to_tonic(d: &Det) -> ErrorDetail {
    match d {
        Det::Retry(x) => RetryInfo::new(x.map(|(s, n)| Duration::new(s, n.min(MAX_N)))).into(),
        Det::RetryRaw(..) | Det::Other(..) => to_tonic(&d.api_expect()),
        Det::Debug(e, s) => DebugInfo::new(e.clone(), s.clone()).into(),
        Det::Quota(v) => QuotaFailure::new(v.iter().map(|(a, b)| QuotaViolation::new(a.clone(), b.clone())).collect::<Vec<_>>()).into(),
        Det::Info(r, dm, m) => ErrorInfo::new(r.clone(), dm.clone(), m.iter().map(|(k, v)| (k.clone(), v.clone())).collect::<HashMap<_, _>>()).into(),
        Det::Prec(v) => PreconditionFailure::new(v.iter().map(|(a, b, c)| PreconditionViolation::new(a.clone(), b.clone(), c.clone())).collect::<Vec<_>>()).into(),
        Det::Bad(v) => BadRequest::new(v.iter().map(|(a, b)| FieldViolation::new(a.clone(), b.clone())).collect::<Vec<_>>()).into(),
        Det::Req(a, b) => RequestInfo::new(a.clone(), b.clone()).into(),
        Det::Res(a, b, c, e) => ResourceInfo::new(a.clone(), b.clone(), c.clone(), e.clone()).into(),
        Det::Help(v) => Help::new(v.iter().map(|(a, b)| HelpLink::new(a.clone(), b.clone())).collect::<Vec<_>>()).into(),
        Det::Loc(a, b) => LocalizedMessage::new(a.clone(), b.clone()).into(),
    }
}

/// set-style setter (`set_*` with the whole value)
fn apply_set(ed: &mut ErrorDetails, d: &Det) {
    match d {
        Det::Retry(x) => {
            ed.set_retry_info(x.map(|(s, n)| Duration::new(s, n.min(MAX_N))));
        }
        Det::RetryRaw(..) | Det::Other(..) => apply_set(ed, &d.api_expect()),
        Det::Debug(e, s) => {
            ed.set_debug_info(e.clone(), s.clone());
        }
        Det::Quota(v) => {
            ed.set_quota_failure(v.iter().map(|(a, b)| QuotaViolation::new(a.clone(), b.clone())).collect::<Vec<_>>());
        }
        Det::Info(r, dm, m) => {
            ed.set_error_info(r.clone(), dm.clone(), m.iter().map(|(k, v)| (k.clone(), v.clone())).collect::<HashMap<_, _>>());
        }
        Det::Prec(v) => {
            ed.set_precondition_failure(v.iter().map(|(a, b, c)| PreconditionViolation::new(a.clone(), b.clone(), c.clone())).collect::<Vec<_>>());
        }
        Det::Bad(v) => {
            ed.set_bad_request(v.iter().map(|(a, b)| FieldViolation::new(a.clone(), b.clone())).collect::<Vec<_>>());
        }
        Det::Req(a, b) => {
            ed.set_request_info(a.clone(), b.clone());
        }
        Det::Res(a, b, c, e) => {
            ed.set_resource_info(a.clone(), b.clone(), c.clone(), e.clone());
        }
        Det::Help(v) => {
            ed.set_help(v.iter().map(|(a, b)| HelpLink::new(a.clone(), b.clone())).collect::<Vec<_>>());
        }
        Det::Loc(a, b) => {
            ed.set_localized_message(a.clone(), b.clone());
        }
    }
}

/// incremental setter (`add_*` one violation / link at a time where the kind has one)
fn apply_add(ed: &mut ErrorDetails, d: &Det) {
    match d {
        Det::Quota(v) if !v.is_empty() => {
            for (a, b) in v {
                ed.add_quota_failure_violation(a.clone(), b.clone());
            }
        }
        Det::Prec(v) if !v.is_empty() => {
            for (a, b, c) in v {
                ed.add_precondition_failure_violation(a.clone(), b.clone(), c.clone());
            }
        }
        Det::Bad(v) if !v.is_empty() => {
            for (a, b) in v {
                ed.add_bad_request_violation(a.clone(), b.clone());
            }
        }
        Det::Help(v) if !v.is_empty() => {
            for (a, b) in v {
                ed.add_help_link(a.clone(), b.clone());
            }
        }
        d => apply_set(ed, d),
    }
}

/// `ErrorDetails::with_*` constructor for one kind
fn with_ctor(d: &Det) -> ErrorDetails {
    match d {
        Det::Retry(x) => ErrorDetails::with_retry_info(x.map(|(s, n)| Duration::new(s, n.min(MAX_N)))),
        Det::RetryRaw(..) | Det::Other(..) => with_ctor(&d.api_expect()),
        Det::Debug(e, s) => ErrorDetails::with_debug_info(e.clone(), s.clone()),
        Det::Quota(v) if v.len() == 1 => ErrorDetails::with_quota_failure_violation(v[0].0.clone(), v[0].1.clone()),
        Det::Quota(v) => ErrorDetails::with_quota_failure(v.iter().map(|(a, b)| QuotaViolation::new(a.clone(), b.clone())).collect::<Vec<_>>()),
        Det::Info(r, dm, m) => ErrorDetails::with_error_info(r.clone(), dm.clone(), m.iter().map(|(k, v)| (k.clone(), v.clone())).collect::<HashMap<_, _>>()),
        Det::Prec(v) if v.len() == 1 => ErrorDetails::with_precondition_failure_violation(v[0].0.clone(), v[0].1.clone(), v[0].2.clone()),
        Det::Prec(v) => ErrorDetails::with_precondition_failure(v.iter().map(|(a, b, c)| PreconditionViolation::new(a.clone(), b.clone(), c.clone())).collect::<Vec<_>>()),
        Det::Bad(v) if v.len() == 1 => ErrorDetails::with_bad_request_violation(v[0].0.clone(), v[0].1.clone()),
        Det::Bad(v) => ErrorDetails::with_bad_request(v.iter().map(|(a, b)| FieldViolation::new(a.clone(), b.clone())).collect::<Vec<_>>()),
        Det::Req(a, b) => ErrorDetails::with_request_info(a.clone(), b.clone()),
        Det::Res(a, b, c, e) => ErrorDetails::with_resource_info(a.clone(), b.clone(), c.clone(), e.clone()),
        Det::Help(v) if v.len() == 1 => ErrorDetails::with_help_link(v[0].0.clone(), v[0].1.clone()),
        Det::Help(v) => ErrorDetails::with_help(v.iter().map(|(a, b)| HelpLink::new(a.clone(), b.clone())).collect::<Vec<_>>()),
        Det::Loc(a, b) => ErrorDetails::with_localized_message(a.clone(), b.clone()),
    }
}

/// mode 0: new() + set_*; 1: new() + add_*; 2: with_*(one kind) + set_* for the others; the call order
/// is the canonical order rotated by `first`
fn build_set(dets: &[Det], mode: u8, first: u8) -> ErrorDetails {
    let n = dets.len();
    if n == 0 {
        return ErrorDetails::new();
    }
    let f = (first as usize) % n;
    let order: Vec<&Det> = (0..n).map(|i| &dets[(f + i) % n]).collect();
    match mode % 3 {
        0 => {
            let mut ed = ErrorDetails::new();
            for d in order {
                apply_set(&mut ed, d);
            }
            ed
        }
        1 => {
            let mut ed = ErrorDetails::new();
            for d in order {
                apply_add(&mut ed, d);
            }
            ed
        }
        _ => {
            let mut ed = with_ctor(order[0]);
            for (i, d) in order[1..].iter().enumerate() {
                if i % 2 == 0 {
                    apply_add(&mut ed, d);
                } else {
                    apply_set(&mut ed, d);
                }
            }
            ed
        }
    }
}

// ------------------------------------------------------------------ tonic types -> Det (field-wise)

fn dur_model(d: &Option<Duration>) -> Option<(u64, u32)> {
    d.map(|d| (d.as_secs(), d.subsec_nanos()))
}

fn to_model(d: &ErrorDetail) -> Det {
    match d {
        ErrorDetail::RetryInfo(x) => Det::Retry(dur_model(&x.retry_delay)),
        ErrorDetail::DebugInfo(x) => Det::Debug(x.stack_entries.clone(), x.detail.clone()),
        ErrorDetail::QuotaFailure(x) => Det::Quota(x.violations.iter().map(|v| (v.subject.clone(), v.description.clone())).collect()),
        ErrorDetail::ErrorInfo(x) => Det::Info(x.reason.clone(), x.domain.clone(), x.metadata.iter().map(|(k, v)| (k.clone(), v.clone())).collect()),
        ErrorDetail::PreconditionFailure(x) => Det::Prec(x.violations.iter().map(|v| (v.r#type.clone(), v.subject.clone(), v.description.clone())).collect()),
        ErrorDetail::BadRequest(x) => Det::Bad(x.field_violations.iter().map(|v| (v.field.clone(), v.description.clone())).collect()),
        ErrorDetail::RequestInfo(x) => Det::Req(x.request_id.clone(), x.serving_data.clone()),
        ErrorDetail::ResourceInfo(x) => Det::Res(x.resource_type.clone(), x.resource_name.clone(), x.owner.clone(), x.description.clone()),
        ErrorDetail::Help(x) => Det::Help(x.links.iter().map(|v| (v.description.clone(), v.url.clone())).collect()),
        ErrorDetail::LocalizedMessage(x) => Det::Loc(x.locale.clone(), x.message.clone()),
        _ => Det::Other("<unknown ErrorDetail variant>".into(), Blob::Hex(String::new())),
    }
}

/// the ten optional slots of an `ErrorDetails`, as models, in KINDS order
fn set_model(ed: &ErrorDetails) -> Vec<Option<Det>> {
    vec![
        ed.retry_info().map(|x| to_model(&x.clone().into())),
        ed.debug_info().map(|x| to_model(&x.clone().into())),
        ed.quota_failure().map(|x| to_model(&x.clone().into())),
        ed.error_info().map(|x| to_model(&x.clone().into())),
        ed.precondition_failure().map(|x| to_model(&x.clone().into())),
        ed.bad_request().map(|x| to_model(&x.clone().into())),
        ed.request_info().map(|x| to_model(&x.clone().into())),
        ed.resource_info().map(|x| to_model(&x.clone().into())),
        ed.help().map(|x| to_model(&x.clone().into())),
        ed.localized_message().map(|x| to_model(&x.clone().into())),
    ]
}

/// the ten `get_details_*` getters, as models, in KINDS order
fn getters_model(st: &Status) -> Vec<Option<Det>> {
    vec![
        st.get_details_retry_info().map(|x| to_model(&x.into())),
        st.get_details_debug_info().map(|x| to_model(&x.into())),
        st.get_details_quota_failure().map(|x| to_model(&x.into())),
        st.get_details_error_info().map(|x| to_model(&x.into())),
        st.get_details_precondition_failure().map(|x| to_model(&x.into())),
        st.get_details_bad_request().map(|x| to_model(&x.into())),
        st.get_details_request_info().map(|x| to_model(&x.into())),
        st.get_details_resource_info().map(|x| to_model(&x.into())),
        st.get_details_help().map(|x| to_model(&x.into())),
        st.get_details_localized_message().map(|x| to_model(&x.into())),
    ]
}

// ------------------------------------------------------------------ own protobuf writer (foreign encodings)

/// style bit 0: write default-valued scalar fields explicitly; bit 1: reverse the field order of leaf messages
fn leaf(fields: &[(u32, &str)], style: u8) -> Vec<u8> {
    let mut out = vec![];
    let mut idx: Vec<usize> = (0..fields.len()).collect();
    if style & 2 != 0 {
        idx.reverse();
    }
    for i in idx {
        let (f, s) = fields[i];
        if !s.is_empty() || style & 1 != 0 {
            wire::pb_write_bytes(&mut out, f, s.as_bytes());
        }
    }
    out
}

fn enc_duration(s: i64, n: i32, style: u8) -> Vec<u8> {
    let mut parts: Vec<Vec<u8>> = vec![];
    if s != 0 || style & 1 != 0 {
        let mut p = vec![];
        wire::pb_write_uvarint_field(&mut p, 1, s as u64);
        parts.push(p);
    }
    if n != 0 || style & 1 != 0 {
        let mut p = vec![];
        wire::pb_write_uvarint_field(&mut p, 2, n as i64 as u64);
        parts.push(p);
    }
    if style & 2 != 0 {
        parts.reverse();
    }
    parts.concat()
}

fn enc_value(d: &Det, style: u8) -> Vec<u8> {
    let mut out = vec![];
    match d {
        Det::Retry(None) => {}
        Det::Retry(Some((s, n))) => wire::pb_write_bytes(&mut out, 1, &enc_duration(*s as i64, *n as i32, style)),
        Det::RetryRaw(s, n) => wire::pb_write_bytes(&mut out, 1, &enc_duration(*s, *n, style)),
        Det::Debug(e, det) => {
            let tail = leaf(&[(2, det)], style);
            if style & 2 != 0 {
                out.extend_from_slice(&tail);
            }
            for s in e {
                wire::pb_write_bytes(&mut out, 1, s.as_bytes());
            }
            if style & 2 == 0 {
                out.extend_from_slice(&tail);
            }
        }
        Det::Quota(v) | Det::Bad(v) | Det::Help(v) => {
            for (a, b) in v {
                wire::pb_write_bytes(&mut out, 1, &leaf(&[(1, a), (2, b)], style));
            }
        }
        Det::Info(r, dm, m) => {
            let head = leaf(&[(1, r), (2, dm)], style);
            if style & 2 == 0 {
                out.extend_from_slice(&head);
            }
            for (k, v) in m {
                wire::pb_write_bytes(&mut out, 3, &leaf(&[(1, k), (2, v)], style));
            }
            if style & 2 != 0 {
                out.extend_from_slice(&head);
            }
        }
        Det::Prec(v) => {
            for (a, b, c) in v {
                wire::pb_write_bytes(&mut out, 1, &leaf(&[(1, a), (2, b), (3, c)], style));
            }
        }
        Det::Req(a, b) | Det::Loc(a, b) => out = leaf(&[(1, a), (2, b)], style),
        Det::Res(a, b, c, e) => out = leaf(&[(1, a), (2, b), (3, c), (4, e)], style),
        Det::Other(_, b) => out = b.bytes(),
    }
    out
}

fn det_url(d: &Det) -> String {
    match d {
        Det::Other(u, _) => u.clone(),
        d => url(d.kind().unwrap()),
    }
}

/// google.rpc.Status { int32 code = 1; string message = 2; repeated google.protobuf.Any details = 3; }
/// google.protobuf.Any { string type_url = 1; bytes value = 2; }
fn enc_status(code: i32, message: &str, items: &[Det], style: u8) -> Vec<u8> {
    let mut out = vec![];
    if code != 0 || style & 1 != 0 {
        wire::pb_write_uvarint_field(&mut out, 1, code as i64 as u64);
    }
    if !message.is_empty() || style & 1 != 0 {
        wire::pb_write_bytes(&mut out, 2, message.as_bytes());
    }
    for d in items {
        let val = enc_value(d, style);
        let u = det_url(d);
        let mut any = vec![];
        if !u.is_empty() || style & 1 != 0 {
            wire::pb_write_bytes(&mut any, 1, u.as_bytes());
        }
        if !val.is_empty() || style & 1 != 0 {
            wire::pb_write_bytes(&mut any, 2, &val);
        }
        wire::pb_write_bytes(&mut out, 3, &any);
    }
    out
}

// ------------------------------------------------------------------ own protobuf reader (judging tonic's output)

fn rd_string(v: &PbVal) -> Result<String, String> {
    match v {
        PbVal::Bytes(b) => String::from_utf8(b.clone()).map_err(|_| "string field is not UTF-8".to_string()),
        other => Err(format!("string field has wire value {other:?}")),
    }
}

/// message whose fields 1..=n are all singular strings
fn rd_leaf(b: &[u8], n: u32) -> Result<Vec<String>, String> {
    let fields = wire::pb_parse(b).ok_or("not well-formed protobuf")?;
    let mut out = vec![None; n as usize];
    for (f, v) in &fields {
        if *f == 0 || *f > n {
            return Err(format!("unknown field {f}"));
        }
        if out[(*f - 1) as usize].replace(rd_string(v)?).is_some() {
            return Err(format!("field {f} written twice"));
        }
    }
    Ok(out.into_iter().map(|x| x.unwrap_or_default()).collect())
}

fn rd_repeated(b: &[u8], n: u32) -> Result<Vec<Vec<String>>, String> {
    let fields = wire::pb_parse(b).ok_or("not well-formed protobuf")?;
    let mut out = vec![];
    for (f, v) in &fields {
        match (f, v) {
            (1, PbVal::Bytes(x)) => out.push(rd_leaf(x, n)?),
            _ => return Err(format!("unexpected field {f} {v:?}")),
        }
    }
    Ok(out)
}

fn pair(v: Vec<String>) -> (String, String) {
    let mut i = v.into_iter();
    (i.next().unwrap_or_default(), i.next().unwrap_or_default())
}

/// decode an Any value of the given kind per error_details.proto
fn rd_value(kind: usize, b: &[u8]) -> Result<Det, String> {
    Ok(match kind {
        0 => {
            let fields = wire::pb_parse(b).ok_or("not well-formed protobuf")?;
            let mut delay = None;
            for (f, v) in &fields {
                match (f, v) {
                    (1, PbVal::Bytes(x)) if delay.is_none() => {
                        let (mut s, mut n) = (0i64, 0i64);
                        for (g, w) in wire::pb_parse(x).ok_or("Duration not well-formed")? {
                            match (g, w) {
                                (1, PbVal::Varint(x)) => s = x as i64,
                                (2, PbVal::Varint(x)) => n = x as i64,
                                (g, w) => return Err(format!("Duration: unexpected field {g} {w:?}")),
                            }
                        }
                        if s < 0 || !(0..1_000_000_000).contains(&n) {
                            return Err(format!("Duration out of range: {s}s {n}ns"));
                        }
                        delay = Some((s as u64, n as u32));
                    }
                    _ => return Err(format!("RetryInfo: unexpected field {f} {v:?}")),
                }
            }
            Det::Retry(delay)
        }
        1 => {
            let fields = wire::pb_parse(b).ok_or("not well-formed protobuf")?;
            let (mut e, mut d) = (vec![], None);
            for (f, v) in &fields {
                match f {
                    1 => e.push(rd_string(v)?),
                    2 if d.is_none() => d = Some(rd_string(v)?),
                    _ => return Err(format!("DebugInfo: unexpected field {f}")),
                }
            }
            Det::Debug(e, d.unwrap_or_default())
        }
        2 => Det::Quota(rd_repeated(b, 2)?.into_iter().map(pair).collect()),
        3 => {
            let fields = wire::pb_parse(b).ok_or("not well-formed protobuf")?;
            let (mut r, mut d, mut m) = (None, None, BTreeMap::new());
            for (f, v) in &fields {
                match (f, v) {
                    (1, v) if r.is_none() => r = Some(rd_string(v)?),
                    (2, v) if d.is_none() => d = Some(rd_string(v)?),
                    (3, PbVal::Bytes(x)) => {
                        let (k, val) = pair(rd_leaf(x, 2)?);
                        if m.insert(k.clone(), val).is_some() {
                            return Err(format!("ErrorInfo: map key {k:?} written twice"));
                        }
                    }
                    _ => return Err(format!("ErrorInfo: unexpected field {f}")),
                }
            }
            Det::Info(r.unwrap_or_default(), d.unwrap_or_default(), m)
        }
        4 => Det::Prec(
            rd_repeated(b, 3)?
                .into_iter()
                .map(|v| {
                    let mut i = v.into_iter();
                    (i.next().unwrap_or_default(), i.next().unwrap_or_default(), i.next().unwrap_or_default())
                })
                .collect(),
        ),
        5 => Det::Bad(rd_repeated(b, 2)?.into_iter().map(pair).collect()),
        6 => {
            let (a, b) = pair(rd_leaf(b, 2)?);
            Det::Req(a, b)
        }
        7 => {
            let mut i = rd_leaf(b, 4)?.into_iter();
            Det::Res(i.next().unwrap_or_default(), i.next().unwrap_or_default(), i.next().unwrap_or_default(), i.next().unwrap_or_default())
        }
        8 => Det::Help(rd_repeated(b, 2)?.into_iter().map(pair).collect()),
        _ => {
            let (a, b) = pair(rd_leaf(b, 2)?);
            Det::Loc(a, b)
        }
    })
}

struct RdStatus {
    code: i64,
    message: String,
    anys: Vec<(String, Vec<u8>)>,
}

fn rd_status(b: &[u8]) -> Result<RdStatus, String> {
    let fields = wire::pb_parse(b).ok_or("details are not well-formed protobuf")?;
    let (mut code, mut message, mut anys) = (None, None, vec![]);
    for (f, v) in &fields {
        match (f, v) {
            (1, PbVal::Varint(x)) if code.is_none() => code = Some(*x as i64 as i32 as i64),
            (2, v) if message.is_none() => message = Some(rd_string(v)?),
            (3, PbVal::Bytes(x)) => {
                let (mut u, mut val) = (None, None);
                for (g, w) in wire::pb_parse(x).ok_or("Any not well-formed")? {
                    match (g, w) {
                        (1, w) if u.is_none() => u = Some(rd_string(&w)?),
                        (2, PbVal::Bytes(y)) if val.is_none() => val = Some(y),
                        (g, _) => return Err(format!("Any: unexpected field {g}")),
                    }
                }
                anys.push((u.unwrap_or_default(), val.unwrap_or_default()));
            }
            _ => return Err(format!("google.rpc.Status: unexpected field {f} {v:?}")),
        }
    }
    Ok(RdStatus { code: code.unwrap_or(0), message: message.unwrap_or_default(), anys })
}

// ------------------------------------------------------------------ case

#[derive(Clone, Debug, Serialize, Deserialize, PartialEq)]
pub struct Mutn {
    pub pos: u16,
    pub op: u8,
    pub byte: u8,
}

#[derive(Clone, Debug, Serialize, Deserialize)]
pub enum Case {
    /// `ErrorDetails` (at most one item per kind, KINDS order) built per `mode`/`first`
    Set { code: i32, message: String, md: Option<Vec<MdEntry>>, dets: Vec<Det>, mode: u8, first: u8 },
    /// `Vec<ErrorDetail>` in this order
    List { code: i32, message: String, md: Option<Vec<MdEntry>>, items: Vec<Det> },
    /// details written by the harness's own protobuf writer (style bits), then mutated
    Wire { code: i32, message: String, items: Vec<Det>, style: u8, muts: Vec<Mutn> },
    /// arbitrary bytes as details
    Garbage { code: i32, message: String, details: Blob },
}

fn st() -> BoxedStrategy<String> {
    prop_oneof![1 => Just(String::new()), 6 => gen::unicode_string(10), 1 => gen::unicode_string(48), 1 => "[a-zA-Z0-9_.:/-]{1,12}".prop_map(|s| s)].boxed()
}

fn delay() -> BoxedStrategy<Option<(u64, u32)>> {
    let secs = prop_oneof![
        2 => Just(0u64),
        3 => 0u64..=100_000,
        2 => 0u64..=MAX_S,
        3 => (MAX_S - 1)..=MAX_S,
        1 => Just(MAX_S + 1),
        1 => (MAX_S + 1)..=u64::MAX,
        1 => prop_oneof![Just(i64::MAX as u64 - 1), Just(i64::MAX as u64), Just(i64::MAX as u64 + 1), Just(u64::MAX)],
    ];
    let nanos = prop_oneof![2 => Just(0u32), 1 => Just(1u32), 2 => Just(MAX_N), 3 => 0u32..=MAX_N];
    prop_oneof![1 => Just(None), 8 => (secs, nanos).prop_map(Some)].boxed()
}

fn pairs() -> BoxedStrategy<Vec<(String, String)>> {
    proptest::collection::vec((st(), st()), 0..=4).boxed()
}

fn det_of(kind: usize) -> BoxedStrategy<Det> {
    match kind {
        0 => delay().prop_map(Det::Retry).boxed(),
        1 => (proptest::collection::vec(st(), 0..=4), prop_oneof![9 => st(), 1 => (6_000usize..20_000).prop_map(|n| "stack frame #0 at module::function (file.rs:123)\n".chars().cycle().take(n).collect::<String>()).boxed()]).prop_map(|(e, d)| Det::Debug(e, d)).boxed(),
        2 => pairs().prop_map(Det::Quota).boxed(),
        3 => (st(), st(), proptest::collection::btree_map(st(), st(), 0..=4)).prop_map(|(r, d, m)| Det::Info(r, d, m)).boxed(),
        4 => proptest::collection::vec((st(), st(), st()), 0..=4).prop_map(Det::Prec).boxed(),
        5 => pairs().prop_map(Det::Bad).boxed(),
        6 => (st(), st()).prop_map(|(a, b)| Det::Req(a, b)).boxed(),
        7 => (st(), st(), st(), st()).prop_map(|(a, b, c, d)| Det::Res(a, b, c, d)).boxed(),
        8 => pairs().prop_map(Det::Help).boxed(),
        _ => (st(), st()).prop_map(|(a, b)| Det::Loc(a, b)).boxed(),
    }
}

fn any_det() -> BoxedStrategy<Det> {
    (0usize..10).prop_flat_map(det_of).boxed()
}

fn raw_retry() -> BoxedStrategy<Det> {
    let s = prop_oneof![
        3 => prop_oneof![Just(i64::MIN), Just(i64::MIN + 1), Just(i64::MIN + 2), Just(i64::MAX), Just(i64::MAX - 1)],
        3 => -1000i64..=1000,
        2 => prop_oneof![Just(-(MAX_S as i64)), Just(MAX_S as i64), Just(-(MAX_S as i64) - 1), Just(MAX_S as i64 + 1)],
        1 => any::<i64>(),
    ];
    let n = prop_oneof![
        4 => prop_oneof![Just(i32::MIN), Just(-1_000_000_000), Just(-999_999_999), Just(-1), Just(0), Just(1), Just(999_999_999), Just(1_000_000_000), Just(i32::MAX)],
        2 => -999_999_999i32..=999_999_999,
        1 => any::<i32>(),
    ];
    (s, n).prop_map(|(s, n)| Det::RetryRaw(s, n)).boxed()
}

fn other_det() -> BoxedStrategy<Det> {
    let u = prop_oneof![
        5 => (0usize..10).prop_map(url),
        1 => (0usize..10).prop_map(|k| url(k).to_lowercase()),
        1 => (0usize..10).prop_map(|k| { let mut s = url(k); s.pop(); s }),
        1 => (0usize..10).prop_map(|k| format!("/google.rpc.{}", KINDS[k])),
        1 => (0usize..10).prop_map(|k| format!("google.rpc.{}", KINDS[k])),
        1 => Just(String::new()),
        1 => Just("type.googleapis.com/google.protobuf.Duration".to_string()),
        1 => gen::unicode_string(12),
    ];
    let v = prop_oneof![
        3 => small_bytes(24),
        3 => (any_det(), 0u8..4).prop_map(|(d, s)| Blob::of(&enc_value(&d, s))),
        1 => raw_retry().prop_map(|d| Blob::of(&enc_value(&d, 0))),
    ];
    (u, v).prop_map(|(u, v)| Det::Other(u, v)).boxed()
}

fn code() -> BoxedStrategy<i32> {
    (1i32..=16).boxed()
}

fn message() -> BoxedStrategy<String> {
    prop_oneof![1 => Just(String::new()), 6 => gen::unicode_string(16), 1 => gen::unicode_string(120)].boxed()
}

fn mdopt() -> BoxedStrategy<Option<Vec<MdEntry>>> {
    prop_oneof![3 => Just(None), 2 => md::entries(4, false, false).prop_map(Some)].boxed()
}

pub fn strategy() -> BoxedStrategy<Case> {
    let set = (
        code(),
        message(),
        mdopt(),
        prop_oneof![2 => Just(12u8), 4 => Just(35u8), 2 => Just(75u8), 1 => Just(100u8)].prop_flat_map(|p| {
            let slot = move |k: usize| -> BoxedStrategy<Option<Det>> {
                if p >= 100 {
                    det_of(k).prop_map(Some).boxed()
                } else {
                    proptest::option::weighted(p as f64 / 100.0, det_of(k)).boxed()
                }
            };
            (slot(0), slot(1), slot(2), slot(3), slot(4), slot(5), slot(6), slot(7), slot(8), slot(9))
                .prop_map(|t| [t.0, t.1, t.2, t.3, t.4, t.5, t.6, t.7, t.8, t.9].into_iter().flatten().collect::<Vec<Det>>())
        }),
        0u8..3,
        0u8..10,
    )
        .prop_map(|(code, message, md, dets, mode, first)| Case::Set { code, message, md, dets, mode, first });
    let list_items = prop_oneof![
        5 => proptest::collection::vec(any_det(), 0..=6),
        1 => (0usize..10).prop_flat_map(|k| proptest::collection::vec(det_of(k), 2..=4)),
        1 => (proptest::collection::vec(any_det(), 1..=3), any::<u16>()).prop_map(|(mut v, sel)| {
            // guaranteed repetition of one generated kind's item at another position
            let d = v[gen::pick(sel, v.len())].clone();
            v.push(d);
            v
        }),
    ];
    let list = (code(), message(), mdopt(), list_items).prop_map(|(code, message, md, items)| Case::List { code, message, md, items });
    let wire_item = prop_oneof![6 => any_det(), 2 => raw_retry(), 2 => other_det()];
    let mutn = (any::<u16>(), 0u8..6, prop_oneof![any::<u8>(), Just(0xffu8), Just(0x80u8), Just(0u8), Just(0x7fu8)]).prop_map(|(pos, op, byte)| Mutn { pos, op, byte });
    let foreign = (0i32..=16, message(), proptest::collection::vec(prop_oneof![8 => any_det(), 2 => raw_retry()], 0..=5), 0u8..4)
        .prop_map(|(code, message, items, style)| Case::Wire { code, message, items, style, muts: vec![] });
    let mutated = (0i32..=16, message(), proptest::collection::vec(wire_item, 0..=4), 0u8..4, proptest::collection::vec(mutn, 0..=3))
        .prop_map(|(code, message, items, style, muts)| Case::Wire { code, message, items, style, muts });
    let garbage = (
        0i32..=16,
        message(),
        prop_oneof![4 => small_bytes(48), 1 => (0u32..=300, any::<u32>()).prop_map(|(n, s)| Blob::Rnd(n, s)), 1 => (0u32..=64).prop_map(Blob::Zeros), 1 => (0u32..=64, any::<u8>()).prop_map(|(n, k)| Blob::Rep(n, k))],
    )
        .prop_map(|(code, message, details)| Case::Garbage { code, message, details });
    prop_oneof![7 => set, 7 => list, 2 => foreign, 3 => mutated, 1 => garbage].boxed()
}

fn mutate(mut v: Vec<u8>, muts: &[Mutn]) -> Vec<u8> {
    for m in muts {
        let p = gen::pick(m.pos, v.len() + 1);
        match m.op % 6 {
            0 if !v.is_empty() => {
                let q = p.min(v.len() - 1);
                v[q] = m.byte;
            }
            1 => v.insert(p, m.byte),
            2 if !v.is_empty() => {
                v.remove(p.min(v.len() - 1));
            }
            3 => v.truncate(p),
            4 if !v.is_empty() => {
                let q = p.min(v.len() - 1);
                v[q] ^= 1 << (m.byte % 8);
            }
            5 if !v.is_empty() => {
                // length-prefix style damage: add to the byte
                let q = p.min(v.len() - 1);
                v[q] = v[q].wrapping_add(m.byte | 1);
            }
            _ => v.push(m.byte),
        }
    }
    v
}

// ------------------------------------------------------------------ judges

fn code_of(i: i32) -> Code {
    Code::from_i32(i)
}

fn short(d: &impl std::fmt::Debug) -> String {
    let s = format!("{d:?}");
    if s.len() > 400 {
        let mut e = 400;
        while !s.is_char_boundary(e) {
            e -= 1;
        }
        format!("{}…", &s[..e])
    } else {
        s
    }
}

fn kname(d: &Det) -> &'static str {
    d.kind().map(|k| KINDS[k]).unwrap_or("Other")
}

/// Decodes `st` through every entry point and compares with the expected ordered list `want`
/// (only the ten kinds, values as the API is documented to store them).
fn judge(st: &Status, want: &[Det], pfx: &str) -> Result<(), Failure> {
    // ordered list
    let got = match st.check_error_details_vec() {
        Ok(v) => v,
        Err(e) => bail!(format!("C20/{pfx}/vec-decode-error"), "check_error_details_vec failed on a valid encoding: {e}"),
    };
    let got: Vec<Det> = got.iter().map(to_model).collect();
    ensure!(got.len() == want.len(), format!("C20/{pfx}/vec-count"), "{} details decoded, {} attached; got kinds {:?}, want {:?}", got.len(), want.len(), got.iter().map(kname).collect::<Vec<_>>(), want.iter().map(kname).collect::<Vec<_>>());
    for (i, (g, w)) in got.iter().zip(want).enumerate() {
        ensure!(g.kind() == w.kind(), format!("C20/{pfx}/vec-kind-or-order"), "position {i}: got {}, want {} (got kinds {:?}, want {:?})", kname(g), kname(w), got.iter().map(kname).collect::<Vec<_>>(), want.iter().map(kname).collect::<Vec<_>>());
    }
    for (i, (g, w)) in got.iter().zip(want).enumerate() {
        ensure!(g == w, format!("C20/{pfx}/vec-field/{}", kname(w)), "position {i}: got {}, want {}", short(g), short(w));
    }
    let lenient: Vec<Det> = st.get_error_details_vec().iter().map(to_model).collect();
    ensure!(lenient == got, format!("C20/{pfx}/get-vec-differs"), "get_error_details_vec {} differs from check_error_details_vec {}", short(&lenient), short(&got));

    // set
    let ed = match st.check_error_details() {
        Ok(v) => v,
        Err(e) => bail!(format!("C20/{pfx}/set-decode-error"), "check_error_details failed on a valid encoding: {e}"),
    };
    let slots = set_model(&ed);
    for k in 0..10 {
        let occ: Vec<&Det> = want.iter().filter(|d| d.kind() == Some(k)).collect();
        match (&slots[k], occ.is_empty()) {
            (None, true) => {}
            (Some(g), true) => bail!(format!("C20/{pfx}/set-extra-kind/{}", KINDS[k]), "ErrorDetails has {} although none was attached", short(g)),
            (None, false) => bail!(format!("C20/{pfx}/set-missing-kind/{}", KINDS[k]), "ErrorDetails lacks {} (attached: {})", KINDS[k], short(occ[0])),
            (Some(g), false) => ensure!(occ.iter().any(|w| *w == g), format!("C20/{pfx}/set-field/{}", KINDS[k]), "ErrorDetails has {}, attached {}", short(g), short(&occ)),
        }
    }
    let lenient = set_model(&st.get_error_details());
    ensure!(lenient == slots, format!("C20/{pfx}/get-set-differs"), "get_error_details {} differs from check_error_details {}", short(&lenient), short(&slots));

    // per-kind getters: first of the kind
    let gs = getters_model(st);
    for k in 0..10 {
        let first = want.iter().find(|d| d.kind() == Some(k));
        ensure!(gs[k].as_ref() == first, format!("C20/{pfx}/getter/{}", KINDS[k]), "get_details_* for {} returned {}, first attached of that kind is {}", KINDS[k], short(&gs[k]), short(&first));
    }
    Ok(())
}

/// The bytes tonic put into `details`, read by the harness's own protobuf reader.
fn judge_wire(details: &[u8], code: i32, message: &str, want: &[Det], pfx: &str) -> Result<(), Failure> {
    let rs = match rd_status(details) {
        Ok(r) => r,
        Err(e) => bail!(format!("C20/{pfx}/wire-status-malformed"), "{e}; details {}", hex(details)),
    };
    ensure!(rs.code == code as i64, format!("C20/{pfx}/wire-code"), "embedded google.rpc.Status.code {} != outer code {}", rs.code, code);
    ensure!(rs.message == message, format!("C20/{pfx}/wire-message"), "embedded google.rpc.Status.message {:?} != outer message {:?}", rs.message, message);
    ensure!(rs.anys.len() == want.len(), format!("C20/{pfx}/wire-count"), "{} Any entries for {} details", rs.anys.len(), want.len());
    for (i, ((u, val), w)) in rs.anys.iter().zip(want).enumerate() {
        let k = w.kind().unwrap();
        ensure!(*u == url(k), format!("C20/{pfx}/wire-type-url/{}", KINDS[k]), "entry {i}: type_url {:?}, expected {:?}", u, url(k));
        match rd_value(k, val) {
            Ok(g) => ensure!(g == *w, format!("C20/{pfx}/wire-field/{}", KINDS[k]), "entry {i}: value {} reads as {} per error_details.proto, attached {}", hex(val), short(&g), short(w)),
            Err(e) => bail!(format!("C20/{pfx}/wire-value-malformed/{}", KINDS[k]), "entry {i}: {e}; value {}", hex(val)),
        }
    }
    Ok(())
}

fn label_dets(dets: &[Det], o: &mut Outcome) {
    let mut seen = [0usize; 10];
    for d in dets {
        if let Some(k) = d.kind() {
            seen[k] += 1;
        }
        match d {
            Det::Retry(None) => o.label("delay_none"),
            Det::Retry(Some(x)) => {
                o.label_if(*x == (MAX_S, MAX_N), "delay_at_max");
                o.label_if(*x > (MAX_S, MAX_N), "delay_over_max_clamped");
                o.label_if(*x < (MAX_S, MAX_N) && x.1 != 0, "delay_with_nanos");
            }
            Det::Quota(v) | Det::Bad(v) | Det::Help(v) => {
                o.label_if(v.is_empty(), "empty_repeated");
                o.label_if(v.len() >= 2, "repeated_ge2");
            }
            Det::Prec(v) => {
                o.label_if(v.is_empty(), "empty_repeated");
                o.label_if(v.len() >= 2, "repeated_ge2");
            }
            Det::Debug(e, d) => {
                o.label_if(e.len() >= 2, "repeated_ge2");
                o.label_if(d.len() >= 6_000, "details_over_8KiB_on_the_wire");
            }
            Det::Info(_, _, m) => {
                o.label_if(!m.is_empty(), "info_map_nonempty");
                o.label_if(m.len() >= 2, "info_map_ge2");
            }
            _ => {}
        }
    }
    let kinds = seen.iter().filter(|n| **n > 0).count();
    let repeated = seen.iter().any(|n| *n > 1);
    let non_ascii = dets.iter().any(|d| d.strings().iter().any(|s| !s.is_ascii()));
    let empty_str = dets.iter().any(|d| d.strings().iter().any(|s| s.is_empty()));
    o.label_if(dets.is_empty(), "no_details");
    o.label_if(kinds >= 2, "kinds_ge2");
    o.label_if(kinds == 10, "all_ten_kinds");
    o.label_if(repeated, "repeated_kind");
    o.label_if(non_ascii, "non_ascii_string");
    o.label_if(empty_str, "empty_string_field");
    o.nontrivial = kinds >= 2 || repeated || non_ascii;
}

fn through_headers(status: &Status, pfx: &str) -> Result<Status, Failure> {
    let mut h = HeaderMap::new();
    if let Err(e) = status.add_header(&mut h) {
        bail!(format!("C20/{pfx}/add-header-failed"), "add_header failed: {e:?}");
    }
    // a peer other than tonic may pad the base64 value (the gRPC spec tells receivers to accept both)
    if status.details().len() % 3 == 1 {
        if let Some(v) = h.get("grpc-status-details-bin").map(|v| v.as_bytes().to_vec()) {
            let mut padded = v.clone();
            while padded.len() % 4 != 0 {
                padded.push(b'=');
            }
            if let Ok(hv) = http::HeaderValue::from_bytes(&padded) {
                h.insert("grpc-status-details-bin", hv);
            }
        }
    }
    let Some(back) = Status::from_header_map(&h) else { bail!(format!("C20/{pfx}/read-back-none"), "from_header_map returned None") };
    ensure!(back.code() == status.code(), format!("C20/{pfx}/read-back-code"), "code {:?} != {:?}", back.code(), status.code());
    ensure!(back.message() == status.message(), format!("C20/{pfx}/read-back-message"), "message {:?} != {:?}", back.message(), status.message());
    ensure!(back.details() == status.details(), format!("C20/{pfx}/read-back-details"), "details {} != {}", hex(back.details()), hex(status.details()));
    Ok(back)
}

/// The status metadata of some cases also holds an entry named like the details header (e.g. the trailers of an
/// upstream call re-raised as metadata): the status' own details must be what travels.
fn md_map(es: &[MdEntry], message: &str, o: &mut Outcome) -> tonic::metadata::MetadataMap {
    let mut m = md::build_map(es);
    if message.len() % 3 == 0 {
        m.insert_bin("grpc-status-details-bin", tonic::metadata::MetadataValue::from_bytes(b"\x08\x0e\x12\x08upstream"));
        o.label("metadata_named_like_details_header");
    }
    m
}

fn check_md(st: &Status, mdv: &Option<Vec<MdEntry>>, pfx: &str) -> Result<(), Failure> {
    if let Some(es) = mdv {
        if let Err(e) = md::check_present(&st.metadata().clone().into_headers(), es, None) {
            bail!(format!("C20/{pfx}/metadata"), "{e}");
        }
    }
    Ok(())
}

fn run_set(code: i32, message: &str, mdv: &Option<Vec<MdEntry>>, dets: &[Det], mode: u8, first: u8, o: &mut Outcome) -> Result<(), Failure> {
    // at most one item per kind, KINDS order (replay files are normalised the same way)
    let mut slots: Vec<Option<Det>> = vec![None; 10];
    for d in dets {
        if let Some(k) = d.kind() {
            if slots[k].is_none() {
                slots[k] = Some(d.clone());
            }
        }
    }
    let dets: Vec<Det> = slots.into_iter().flatten().collect();
    let want: Vec<Det> = dets.iter().map(|d| d.api_expect()).collect();
    label_dets(&dets, o);
    o.label(match mode % 3 {
        0 => "built_with_set",
        1 => "built_with_add",
        _ => "built_with_ctor",
    });
    o.label_if(mdv.is_some(), "with_metadata");
    let ed = build_set(&dets, mode, first);
    // the struct itself, before any encoding
    let local = set_model(&ed);
    for k in 0..10 {
        let w = want.iter().find(|d| d.kind() == Some(k));
        ensure!(local[k].as_ref() == w, format!("C20/set/builder/{}", KINDS[k]), "ErrorDetails built by mode {} holds {}, expected {}", mode % 3, short(&local[k]), short(&w));
    }
    let status = match mdv {
        Some(es) => Status::with_error_details_and_metadata(code_of(code), message.to_string(), ed, md_map(es, message, o)),
        None => Status::with_error_details(code_of(code), message.to_string(), ed),
    };
    ensure!(status.code() == code_of(code) && status.message() == message, "C20/set/outer-status", "status {:?} {:?} for code {} message {:?}", status.code(), status.message(), code, message);
    check_md(&status, mdv, "set")?;
    judge_wire(status.details(), code, message, &want, "set")?;
    let back = through_headers(&status, "set")?;
    check_md(&back, mdv, "set")?;
    judge(&back, &want, "set")
}

fn run_list(code: i32, message: &str, mdv: &Option<Vec<MdEntry>>, items: &[Det], o: &mut Outcome) -> Result<(), Failure> {
    let items: Vec<Det> = items.iter().filter(|d| d.kind().is_some()).cloned().collect();
    let want: Vec<Det> = items.iter().map(|d| d.api_expect()).collect();
    label_dets(&items, o);
    o.label_if(mdv.is_some(), "with_metadata");
    let v: Vec<ErrorDetail> = items.iter().map(to_tonic).collect();
    let status = match mdv {
        Some(es) => Status::with_error_details_vec_and_metadata(code_of(code), message.to_string(), v, md_map(es, message, o)),
        None => Status::with_error_details_vec(code_of(code), message.to_string(), v),
    };
    ensure!(status.code() == code_of(code) && status.message() == message, "C20/list/outer-status", "status {:?} {:?} for code {} message {:?}", status.code(), status.message(), code, message);
    check_md(&status, mdv, "list")?;
    judge_wire(status.details(), code, message, &want, "list")?;
    let back = through_headers(&status, "list")?;
    check_md(&back, mdv, "list")?;
    judge(&back, &want, "list")
}

fn all_none(v: &[Option<Det>]) -> bool {
    v.iter().all(|x| x.is_none())
}

/// Every decode entry point on arbitrary `details`; a panic is caught by the runner. The relations
/// checked are the ones the method docs state (Err => empty default, getters = first of the kind).
fn run_totality(code: i32, message: &str, details: &[u8], o: &mut Outcome) -> Result<(), Failure> {
    let st = Status::with_details(code_of(code), message.to_string(), Bytes::copy_from_slice(details));
    let cv = st.check_error_details_vec();
    let cs = st.check_error_details();
    let gv: Vec<Det> = st.get_error_details_vec().iter().map(to_model).collect();
    let gs = set_model(&st.get_error_details());
    let getters = getters_model(&st);
    o.label_if(cv.is_ok(), "decode_ok");
    o.label_if(cv.is_err(), "decode_err");
    ensure!(cv.is_ok() == cs.is_ok(), "C20/check-set-vs-vec-disagree", "check_error_details is {} but check_error_details_vec is {} on details {}", if cs.is_ok() { "Ok" } else { "Err" }, if cv.is_ok() { "Ok" } else { "Err" }, hex(details));
    match &cv {
        Err(_) => ensure!(gv.is_empty(), "C20/get-vec-not-empty-on-error", "get_error_details_vec returned {} although decoding fails", short(&gv)),
        Ok(v) => {
            let m: Vec<Det> = v.iter().map(to_model).collect();
            o.label_if(!m.is_empty(), "decode_ok_nonempty");
            ensure!(gv == m, "C20/get-vec-differs", "get_error_details_vec {} differs from check_error_details_vec {}", short(&gv), short(&m));
            for k in 0..10 {
                let first = m.iter().find(|d| d.kind() == Some(k));
                ensure!(getters[k].as_ref() == first, format!("C20/getter-vs-vec/{}", KINDS[k]), "get_details_* for {} returned {}, first of that kind in the decoded list is {}", KINDS[k], short(&getters[k]), short(&first));
            }
            if let Ok(ed) = &cs {
                let slots = set_model(ed);
                for k in 0..10 {
                    let occ: Vec<&Det> = m.iter().filter(|d| d.kind() == Some(k)).collect();
                    let ok = match &slots[k] {
                        None => occ.is_empty(),
                        Some(g) => occ.iter().any(|w| *w == g),
                    };
                    ensure!(ok, format!("C20/set-vs-vec/{}", KINDS[k]), "check_error_details has {} for {}, the decoded list has {}", short(&slots[k]), KINDS[k], short(&occ));
                }
            }
            // re-encode -> decode stability
            if !m.is_empty() {
                let again = Status::with_error_details_vec(code_of(code), message.to_string(), v.clone());
                match again.check_error_details_vec() {
                    Ok(v2) => {
                        let m2: Vec<Det> = v2.iter().map(to_model).collect();
                        ensure!(m2 == m, "C20/reencode-unstable", "decoded {} re-encodes and decodes to {}", short(&m), short(&m2));
                    }
                    Err(e) => bail!("C20/reencode-undecodable", "decoded {} re-encodes to something undecodable: {e}", short(&m)),
                }
            }
        }
    }
    // the same accessors offered on the decoded google.rpc.Status (RpcStatusExt) must tell the same story
    if let Ok(ps) = <tonic_types::pb::Status as prost::Message>::decode(details) {
        let pgv: Vec<Det> = ps.get_error_details_vec().iter().map(to_model).collect();
        ensure!(pgv == gv, "C20/rpc-status-get-vec-differs", "pb::Status::get_error_details_vec {} differs from Status::get_error_details_vec {}", short(&pgv), short(&gv));
        let pgs = set_model(&ps.get_error_details());
        ensure!(pgs == gs, "C20/rpc-status-get-set-differs", "pb::Status::get_error_details {} differs from Status::get_error_details {}", short(&pgs), short(&gs));
        ensure!(ps.check_error_details_vec().is_ok() == cv.is_ok() && ps.check_error_details().is_ok() == cs.is_ok(), "C20/rpc-status-check-differs", "pb::Status::check_* and Status::check_* disagree about decodability of {}", hex(details));
        let pg: Vec<Option<Det>> = vec![
            ps.get_details_retry_info().map(|x| to_model(&x.into())),
            ps.get_details_debug_info().map(|x| to_model(&x.into())),
            ps.get_details_quota_failure().map(|x| to_model(&x.into())),
            ps.get_details_error_info().map(|x| to_model(&x.into())),
            ps.get_details_precondition_failure().map(|x| to_model(&x.into())),
            ps.get_details_bad_request().map(|x| to_model(&x.into())),
            ps.get_details_request_info().map(|x| to_model(&x.into())),
            ps.get_details_resource_info().map(|x| to_model(&x.into())),
            ps.get_details_help().map(|x| to_model(&x.into())),
            ps.get_details_localized_message().map(|x| to_model(&x.into())),
        ];
        ensure!(pg == getters, "C20/rpc-status-getters-differ", "pb::Status getters {} differ from Status getters {}", short(&pg), short(&getters));
    } else {
        o.label("envelope_undecodable");
    }
    match &cs {
        Err(_) => ensure!(all_none(&gs), "C20/get-set-not-empty-on-error", "get_error_details returned {} although decoding fails", short(&gs)),
        Ok(ed) => {
            let slots = set_model(ed);
            ensure!(gs == slots, "C20/get-set-differs", "get_error_details {} differs from check_error_details {}", short(&gs), short(&slots));
        }
    }
    Ok(())
}

fn run_wire(code: i32, message: &str, items: &[Det], style: u8, muts: &[Mutn], o: &mut Outcome) -> Result<(), Failure> {
    let clean = enc_status(code, message, items, style);
    let bytes = mutate(clean, muts);
    o.label_if(style & 1 != 0, "wire_explicit_defaults");
    o.label_if(style & 2 != 0, "wire_reversed_fields");
    o.label_if(items.iter().any(|d| matches!(d, Det::RetryRaw(..))), "wire_raw_duration");
    o.label_if(items.iter().any(|d| matches!(d, Det::RetryRaw(s, _) if *s <= i64::MIN + 2)), "wire_duration_seconds_near_i64_min");
    o.label_if(items.iter().any(|d| matches!(d, Det::Other(..))), "wire_other_any");
    let expect: Option<Vec<Det>> = if muts.is_empty() { items.iter().map(|d| d.foreign_expect()).collect() } else { None };
    if let Some(want) = &expect {
        o.label("foreign_exact");
        label_dets(items, o);
        o.label_if(items.iter().any(|d| matches!(d, Det::RetryRaw(s, n) if *s < 0 || *n < 0)), "foreign_negative_delay");
        let st = Status::with_details(code_of(code), message.to_string(), Bytes::copy_from_slice(&bytes));
        judge(&st, want, "foreign")?;
    } else {
        o.label(if muts.is_empty() { "foreign_unpinned" } else { "mutated" });
        o.nontrivial = !bytes.is_empty();
    }
    run_totality(code, message, &bytes, o)
}

pub fn run(c: &Case, o: &mut Outcome) -> Result<(), Failure> {
    match c {
        Case::Set { code, message, md, dets, mode, first } => {
            o.label("set");
            run_set(*code, message, md, dets, *mode, *first, o)
        }
        Case::List { code, message, md, items } => {
            o.label("list");
            run_list(*code, message, md, items, o)
        }
        Case::Wire { code, message, items, style, muts } => {
            o.label("wire");
            run_wire(*code, message, items, *style, muts, o)
        }
        Case::Garbage { code, message, details } => {
            o.label("garbage");
            let b = details.bytes();
            o.nontrivial = !b.is_empty();
            run_totality(*code, message, &b, o)
        }
    }
}

/// one plain value per kind, KINDS order
fn sample() -> Vec<Det> {
    vec![
        Det::Retry(Some((5, 7))),
        Det::Debug(vec!["trace3".into(), "trace2".into()], "détail".into()),
        Det::Quota(vec![("clientip:<ip>".into(), "d".into())]),
        Det::Info("REASON".into(), "example.local".into(), [("k".to_string(), "v".to_string())].into_iter().collect()),
        Det::Prec(vec![("TOS".into(), "subj".into(), "desc".into())]),
        Det::Bad(vec![("field".into(), "desc".into())]),
        Det::Req("id".into(), "data".into()),
        Det::Res("type".into(), "name".into(), "owner".into(), "desc".into()),
        Det::Help(vec![("desc".into(), "https://example.local".into())]),
        Det::Loc("en-US".into(), "message".into()),
    ]
}

/// Seed corpus for the fuzz target `c20_details`: encodings written by the harness's own writer (one per
/// kind, all ten, and the enveloped single-value form), so the fuzzer starts from decodable inputs.
pub fn fuzz_seeds() -> Vec<Vec<u8>> {
    let s = sample();
    let mut v: Vec<Vec<u8>> = s.iter().map(|d| enc_status(3, "m", std::slice::from_ref(d), 0)).collect();
    v.push(enc_status(9, "all", &s, 0));
    v.push(enc_status(9, "all", &s, 3));
    for d in &s {
        let mut w = vec![0x80 + ((d.kind().unwrap() as u8 + 2) % 10)];
        // 0x80 % 10 == 8, so byte 0x80 + ((k + 2) % 10) selects kind k
        w.extend_from_slice(&enc_value(d, 0));
        v.push(w);
    }
    v
}

pub struct C20;
impl Prop for C20 {
    const ID: &'static str = "C20";
    type Case = Case;
    fn strategy() -> BoxedStrategy<Case> {
        strategy()
    }
    fn run(c: &Case, o: &mut Outcome) -> Result<(), Failure> {
        run(c, o)
    }
    fn rule() -> &'static str {
        "proptest over four families. (a) set: ErrorDetails with each of the ten google.rpc kinds optional (density 12/35/75/100 %), built by set_*, add_* or with_* constructors in a rotated call order; (b) list: Vec<ErrorDetail> of 0-7 items, kinds may repeat. Both: Unicode strings (controls, %, 2/3/4-byte UTF-8, empty), 0-4 violations/links/stack entries/map entries, retry delay None or in [0, 315576000000 s 999999999 ns] with the boundary and over-the-boundary values (RetryInfo::new documents clamping; the clamped value is expected), codes 1-16, Unicode message, optional metadata. Judged: the details bytes read by the harness's protobuf reader per status.proto / error_details.proto (code, message, count, type_url, every field), then Status::add_header -> from_header_map -> check_error_details_vec (same kinds, order, fields), check_error_details (per kind: present iff attached, value = an attached one), get_error_details[_vec] equal to check_*, ten get_details_* = first of the kind. (c) foreign: google.rpc.Status written by the harness's own writer (optional explicit defaults / reversed field order, negative durations -> 0 per the RetryInfo docs) decoded by tonic. (d) totality: mutated harness-written encodings (0-3 byte edits; unknown/near-miss type URLs; raw Duration extremes) and arbitrary bytes through all 14 decode entry points: no panic, Err => empty result, getters = first of kind, set and vec agree, the RpcStatusExt accessors on the prost-decoded google.rpc.Status agree with the StatusExt ones, decode -> re-encode -> decode stable. Non-trivial: (a-c) >=2 kinds or a repeated kind or a non-ASCII string; (d) non-empty details. Distinct = distinct serialised case. Also: grpc-status-details-bin re-padded by the peer when the encoded google.rpc.Status is 1 mod 3 long. Statuses built with metadata carry a forged grpc-status-details-bin metadata entry in a third of the cases (the details win)."
    }
    fn assumptions() -> Vec<String> {
        vec![
            "values are built through the public constructors (RetryInfo::new / set_retry_info clamp to MAX_RETRY_DELAY); struct literals with out-of-range delays are not generated".into(),
            "check_error_details on a list with a repeated kind may keep any one of the repeated items (only the getters are documented to return the first)".into(),
            "foreign encodings with unknown type URLs, mixed-sign or out-of-range Durations are only required not to panic and to satisfy the documented Err => empty relations".into(),
            "metadata is compared as 'every attached entry present' (C04 owns the exact metadata round trip)".into(),
        ]
    }
    fn cases(t: Tier) -> u64 {
        match t {
            Tier::Quick => 70_000,
            Tier::Thorough => 2_000_000,
        }
    }
    fn fixed_cases(_t: Tier) -> Vec<Case> {
        // one status per kind with that kind alone (set and list), and all ten together
        let sample = sample();
        let mut v = vec![];
        for d in &sample {
            for mode in 0..3 {
                v.push(Case::Set { code: 3, message: "m".into(), md: None, dets: vec![d.clone()], mode, first: 0 });
            }
            v.push(Case::List { code: 3, message: "m".into(), md: None, items: vec![d.clone()] });
            v.push(Case::Wire { code: 3, message: "m".into(), items: vec![d.clone()], style: 0, muts: vec![] });
        }
        for first in 0..10 {
            v.push(Case::Set { code: 9, message: "all".into(), md: None, dets: sample.clone(), mode: first % 3, first });
        }
        let mut rev = sample.clone();
        rev.reverse();
        v.push(Case::List { code: 9, message: "all".into(), md: None, items: rev });
        v
    }
    fn from_bytes(data: &[u8]) -> Option<Case> {
        from_bytes(data)
    }
    fn fuzz(t: Tier) -> Option<FuzzSpec> {
        match t {
            Tier::Quick => None,
            Tier::Thorough => Some(FuzzSpec { target: "c20_details", runs: 1_000_000, max_len: 512 }),
        }
    }
}

/// fuzz target c20_details. First byte < 0x80: the whole input is the details of a status (so a valid
/// google.rpc.Status, which starts with 0x08 / 0x12 / 0x1a, is its own seed). First byte >= 0x80: the
/// rest is the value of one Any whose type_url is the standard kind `byte % 10`, inside a valid envelope.
pub fn from_bytes(data: &[u8]) -> Option<Case> {
    match data.first() {
        Some(b) if *b >= 0x80 => Some(Case::Wire {
            code: 2,
            message: String::new(),
            items: vec![Det::Other(url((*b % 10) as usize), Blob::of(&data[1..]))],
            style: 0,
            muts: vec![],
        }),
        _ => Some(Case::Garbage { code: 2, message: String::new(), details: Blob::of(data) }),
    }
}
