//! C03 – requests and responses on the wire are spec-conformant gRPC, judged from outside tonic.
use crate::infra::blob::Blob;
use crate::infra::codec_drv::*;
use crate::infra::gen;
use crate::infra::handler::{ErrKind, HandlerScript, Shared, StatusSpec};
use crate::infra::net::Net;
use crate::infra::pipe::{pipe, PipeEnd};
use crate::infra::rt;
use crate::infra::runner::*;
use crate::infra::wire::{self, Enc};
use crate::props::c01::{msg_spec, MsgSpec};
use crate::props::c02::{self, handler_script, pipe_schedule, status_spec, wire_blob, Shape};
use crate::svc::{vt, Msg, RawCodec};
use crate::{bail, ensure};
use bytes::Bytes;
use http::HeaderMap;
use hyper_util::rt::TokioIo;
use proptest::prelude::*;
use prost::Message;
use serde::{Deserialize, Serialize};
use std::time::Duration;
use tonic::codec::{BufferSettings, Codec, ProstCodec};
use tonic::Status;

#[derive(Clone, Debug, Serialize, Deserialize)]
pub enum SrcEnd {
    Ok,
    /// the source yields Err(status) after `pos` messages
    Err(u16, StatusSpec),
    /// the message at `pos` exceeds the encoding limit
    EncodeFail(u16),
}

#[derive(Clone, Debug, Serialize, Deserialize)]
pub struct BodyCase {
    pub prost: bool,
    pub buffer_size: usize,
    pub yield_threshold: usize,
    pub role: Role,
    pub enc: Option<Enc>,
    pub disable: bool,
    pub msgs: Vec<MsgSpec>,
    pub src_pend: Vec<u8>,
    pub end: SrcEnd,
}

#[derive(Clone, Debug, Serialize, Deserialize)]
pub struct ClientWire {
    pub shape: Shape,
    pub prost: bool,
    /// origin path prefix ("" or e.g. "/api/v1")
    pub prefix: String,
    pub send: Option<Enc>,
    pub accept: Vec<Enc>,
    pub req_msgs: Vec<Blob>,
    /// what the raw h2 server answers
    pub resp_msgs: Vec<Blob>,
    pub resp_status: i32,
    pub c2s: Vec<u8>,
    pub s2c: Vec<u8>,
    pub rt_seed: u64,
}

#[derive(Clone, Debug, Serialize, Deserialize)]
pub struct ServerWire {
    pub shape: Shape,
    pub prost: bool,
    /// 0 = the method's real path, otherwise an unknown path variant
    pub bad_path: u8,
    pub script: HandlerScript,
    pub send: Vec<Enc>,
    pub accept_hdr: Option<String>,
    pub req_msgs: Vec<Blob>,
    pub c2s: Vec<u8>,
    pub s2c: Vec<u8>,
    pub rt_seed: u64,
    /// `Server::timeout` in ms; the handler latency of `script` decides whether it expires
    #[serde(default)]
    pub srv_timeout_ms: Option<u32>,
    /// the handler also attaches a `grpc-encoding: zstd` metadata entry of its own
    #[serde(default)]
    pub forged_encoding: bool,
}

#[derive(Clone, Debug, Serialize, Deserialize)]
pub enum Case {
    Body(BodyCase),
    Client(ClientWire),
    Server(ServerWire),
}

const LIMIT: usize = 2000;

fn body_strategy() -> BoxedStrategy<Case> {
    (gen::buffer_settings(), any::<bool>(), 0usize..=8)
        .prop_flat_map(|((bs, yt), prost, n)| {
            let end = prop_oneof![
                4 => Just(SrcEnd::Ok),
                3 => (any::<u16>(), status_spec()).prop_map(|(p, s)| SrcEnd::Err(p, s)),
                2 => any::<u16>().prop_map(SrcEnd::EncodeFail),
            ];
            (
                proptest::collection::vec(msg_spec(bs, yt, prost), n),
                gen::pend_pattern(n + 2),
                prop_oneof![Just(Role::Client), Just(Role::Server)],
                gen::enc_opt(),
                proptest::bool::weighted(0.2),
                end,
            )
                .prop_map(move |(mut msgs, src_pend, role, enc, disable, end)| {
                    // keep ordinary messages well under the limit used for the encode-failure outcome;
                    // the other outcomes keep their occasional large (up to 70 KiB) messages
                    if matches!(end, SrcEnd::EncodeFail(_)) {
                        for m in msgs.iter_mut() {
                            if m.data.len() > 600 {
                                m.data = Blob::Rep(600, 7);
                            }
                        }
                    }
                    Case::Body(BodyCase { prost, buffer_size: bs, yield_threshold: yt, role, enc, disable: disable && role == Role::Server, msgs, src_pend, end })
                })
        })
        .boxed()
}

fn enc_subset() -> BoxedStrategy<Vec<Enc>> {
    proptest::sample::subsequence(wire::ALL_ENC.to_vec(), 0..=3).prop_shuffle().boxed()
}

fn shape() -> BoxedStrategy<Shape> {
    prop_oneof![Just(Shape::Unary), Just(Shape::ClientStream), Just(Shape::ServerStream), Just(Shape::Bidi)].boxed()
}

fn client_strategy() -> BoxedStrategy<Case> {
    (
        shape(),
        any::<bool>(),
        prop_oneof![3 => Just(String::new()), 1 => Just("/api".to_string()), 1 => Just("/a/b.c".to_string())],
        proptest::option::of(gen::enc()),
        enc_subset(),
        proptest::collection::vec(wire_blob(false), 0..4),
        proptest::collection::vec(wire_blob(false), 0..3),
        prop_oneof![3 => Just(0i32), 1 => 1i32..=16],
        pipe_schedule(),
        pipe_schedule(),
        any::<u64>(),
    )
        .prop_map(|(shape, prost, prefix, send, accept, req_msgs, resp_msgs, resp_status, c2s, s2c, rt_seed)| {
            Case::Client(ClientWire { shape, prost, prefix, send, accept, req_msgs, resp_msgs, resp_status, c2s, s2c, rt_seed })
        })
        .boxed()
}

fn server_strategy() -> BoxedStrategy<Case> {
    (shape(), any::<bool>())
        .prop_flat_map(|(shape, prost)| {
            let streaming_resp = matches!(shape, Shape::ServerStream | Shape::Bidi);
            (
                prop_oneof![5 => Just(0u8), 1 => 1u8..=4],
                handler_script(streaming_resp),
                enc_subset(),
                proptest::option::of(prop_oneof![Just("gzip".to_string()), Just("zstd, gzip".to_string()), Just("deflate,gzip,zstd".to_string()), Just("identity".to_string()), Just("br".to_string())]),
                proptest::collection::vec(wire_blob(false), 0..4),
                pipe_schedule(),
                pipe_schedule(),
                any::<u64>(),
                proptest::option::weighted(0.25, prop_oneof![Just(1u32), 2u32..=20, 30u32..=500]),
                proptest::bool::weighted(0.25),
            )
                .prop_map(move |(bad_path, script, send, accept_hdr, req_msgs, c2s, s2c, rt_seed, srv_timeout_ms, forged_encoding)| {
                    let mut script = script;
                    if forged_encoding {
                        script.initial_md.push(crate::infra::md::MdEntry { name: "grpc-encoding".into(), val: crate::infra::blob::hex(b"zstd") });
                    }
                    Case::Server(ServerWire { shape, prost, bad_path, script, send, accept_hdr, req_msgs, c2s, s2c, rt_seed, srv_timeout_ms, forged_encoding })
                })
        })
        .boxed()
}

pub fn strategy() -> BoxedStrategy<Case> {
    prop_oneof![16 => body_strategy(), 1 => client_strategy(), 1 => server_strategy()].boxed()
}

// ------------------------------------------------------------------------------------------ body level

/// The codec's serialisation of message i, computed without tonic.
fn serialise(prost: bool, m: &MsgSpec) -> Vec<u8> {
    if prost {
        m.to_msg().encode_to_vec()
    } else {
        m.data.bytes()
    }
}

/// Judges a concatenation of DATA bytes as gRPC length-prefixed messages of `expect`.
pub fn judge_frames(data: &[u8], expect: &[Vec<u8>], announced: Option<Enc>, tag: &str) -> Result<(), Failure> {
    let (frames, end) = wire::parse_frames(data);
    ensure!(end == wire::ParseEnd::Clean, "C03/body-not-whole-frames", "{tag}: body is not a concatenation of length-prefixed messages: {end:?} after {} frames", frames.len());
    ensure!(frames.len() == expect.len(), "C03/frame-count", "{tag}: {} frames for {} messages", frames.len(), expect.len());
    for (i, (f, want)) in frames.iter().zip(expect.iter()).enumerate() {
        match f.flag {
            0 => ensure!(f.payload == *want, "C03/payload-not-serialisation", "{tag}: frame {i} (flag 0) payload ({} bytes) is not the codec serialisation ({} bytes)", f.payload.len(), want.len()),
            1 => {
                let Some(e) = announced else { bail!("C03/compressed-flag-without-announced-encoding", "{tag}: frame {i} has flag 1 but no grpc-encoding was announced") };
                ensure!(wire::magic_ok(e, &f.payload), "C03/wrong-compressor-behind-encoding", "{tag}: frame {i} flag 1 payload does not start like a {} stream: {:02x?}", e.name(), &f.payload[..f.payload.len().min(6)]);
                match wire::decompress(e, &f.payload) {
                    Ok(p) => ensure!(p == *want, "C03/payload-not-serialisation", "{tag}: frame {i} decompresses ({}) to {} bytes, serialisation has {}", e.name(), p.len(), want.len()),
                    Err(er) => bail!("C03/wrong-compressor-behind-encoding", "{tag}: frame {i} does not decompress as {}: {er}", e.name()),
                }
            }
            fl => bail!("C03/flag-not-0-or-1", "{tag}: frame {i} has flag {fl}"),
        }
    }
    Ok(())
}

/// grpc-status / grpc-message of a trailers (or trailers-only headers) block, read independently.
pub fn read_status_block(h: &HeaderMap, tag: &str) -> Result<(i32, String), Failure> {
    let st: Vec<_> = h.get_all("grpc-status").iter().collect();
    ensure!(st.len() == 1, "C03/grpc-status-count", "{tag}: {} grpc-status entries in one block", st.len());
    let code: i32 = std::str::from_utf8(st[0].as_bytes()).ok().and_then(|s| s.parse().ok()).filter(|c| (0..=16).contains(c)).ok_or_else(|| Failure {
        sig: "C03/grpc-status-not-a-code".into(),
        detail: format!("{tag}: grpc-status {:?}", st[0]),
    })?;
    let msg = match h.get("grpc-message") {
        None => String::new(),
        Some(v) => {
            ensure!(wire::is_strict_percent_encoded(v.as_bytes()), "C03/grpc-message-not-percent-encoded", "{tag}: grpc-message {:?}", v);
            String::from_utf8(wire::percent_decode(v.as_bytes())).map_err(|_| Failure { sig: "C03/grpc-message-not-utf8".into(), detail: format!("{tag}: {:?}", v) })?
        }
    };
    Ok((code, msg))
}

fn run_body(c: &BodyCase, o: &mut Outcome) -> Result<(), Failure> {
    let n = c.msgs.len();
    // source items with the scripted outcome
    let mut expect: Vec<Vec<u8>> = vec![];
    let mut fail_pos: Option<usize> = None;
    let mut err: Option<(usize, StatusSpec)> = None;
    match &c.end {
        SrcEnd::Ok => {}
        SrcEnd::Err(p, s) => err = Some((gen::pick(*p, n + 1), s.clone())),
        SrcEnd::EncodeFail(p) => fail_pos = Some(gen::pick(*p, n + 1)),
    }
    let stop = err.as_ref().map(|e| e.0).or(fail_pos).unwrap_or(n);
    for m in c.msgs.iter().take(stop) {
        expect.push(serialise(c.prost, m));
    }
    let big = MsgSpec { data: Blob::Rnd(3 * LIMIT as u32, 77), s: String::new(), r: vec![], inner: None, f: 0 };
    let compressed = c.enc.is_some() && !c.disable;
    o.label("body");
    o.label(if c.role == Role::Server { "server_role" } else { "client_role" });
    o.label_if(compressed, "compressed");
    o.label_if(c.disable, "override_disable");
    o.label_if(err.is_some(), "source_error");
    o.label_if(fail_pos.is_some(), "encode_failure");
    o.label_if(c.prost, "prost");
    o.nontrivial = stop >= 1 && (compressed || err.is_some() || fail_pos.is_some() || stop >= 2);

    let limit = if fail_pos.is_some() { Some(LIMIT) } else { None };
    let budget = 96 + 8 * (n + 2 + c.src_pend.iter().map(|p| *p as usize).sum::<usize>());
    let extra = if c.role == Role::Server { 3 } else { 0 };
    macro_rules! go {
        ($items:expr, $encoder:expr) => {{
            let mut items = $items;
            drive_encode($encoder, src_steps(std::mem::take(&mut items), &c.src_pend), c.role, c.enc, c.disable, limit, budget, extra)
        }};
    }
    let out = if c.prost {
        let mut items: Vec<Result<Msg, Status>> = vec![];
        for (i, m) in c.msgs.iter().enumerate() {
            if Some(i) == fail_pos {
                items.push(Ok(big.to_msg()));
            }
            if let Some((p, s)) = &err {
                if *p == i {
                    items.push(Err(s.status()));
                }
            }
            items.push(Ok(m.to_msg()));
        }
        if fail_pos == Some(n) {
            items.push(Ok(big.to_msg()));
        }
        if let Some((p, s)) = &err {
            if *p == n {
                items.push(Err(s.status()));
            }
        }
        go!(items, ProstCodec::<Msg, Msg>::raw_encoder(BufferSettings::new(c.buffer_size, c.yield_threshold)))
    } else {
        let mut items: Vec<Result<Vec<u8>, Status>> = vec![];
        for (i, m) in c.msgs.iter().enumerate() {
            if Some(i) == fail_pos {
                items.push(Ok(big.data.bytes()));
            }
            if let Some((p, s)) = &err {
                if *p == i {
                    items.push(Err(s.status()));
                }
            }
            items.push(Ok(m.data.bytes()));
        }
        if fail_pos == Some(n) {
            items.push(Ok(big.data.bytes()));
        }
        if let Some((p, s)) = &err {
            if *p == n {
                items.push(Err(s.status()));
            }
        }
        // a source need not end right after an error item: whatever it would yield next is never sent
        if err.is_some() && c.msgs.len() % 2 == 0 {
            items.push(Ok(b"item behind the error item".to_vec()));
            o.label("source_continues_behind_its_error_item");
        }
        go!(items, RawCodec::with(c.buffer_size, c.yield_threshold).encoder())
    };

    if let Some(v) = out.contract_violation() {
        bail!("C03/body-contract", "{v}");
    }
    o.label_if(c.msgs.iter().take(stop).any(|m| m.data.len() > 32768), "msg>32KiB");
    // ---- shape of the transcript
    let mut trailers: Vec<(usize, &HeaderMap)> = vec![];
    let mut errs: Vec<(usize, &Status)> = vec![];
    let mut terminal: Option<usize> = None;
    for (i, ev) in out.events.iter().enumerate() {
        match ev {
            Ev::Stuck => bail!("C03/body-never-ends", "body did not complete within the poll budget"),
            Ev::Data(_) => ensure!(terminal.is_none(), "C03/data-after-trailers", "DATA frame after the end of the body (event {i}, terminal event {terminal:?})"),
            Ev::Trailers(t) => {
                ensure!(terminal.is_none(), "C03/second-trailers-block", "a second trailers block (event {i})");
                trailers.push((i, t));
                terminal = Some(i);
            }
            Ev::Err(s) => {
                ensure!(terminal.is_none(), "C03/error-after-end", "body error after the end (event {i})");
                errs.push((i, s));
                terminal = Some(i);
            }
            Ev::End => {
                if terminal.is_none() {
                    terminal = Some(i);
                }
            }
        }
    }
    let data = out.data_concat();
    judge_frames(&data, &expect, if compressed { c.enc } else { None }, "EncodeBody")?;
    match c.role {
        Role::Client => {
            ensure!(trailers.is_empty(), "C03/client-body-has-trailers", "a client request body produced a trailers block");
            match (&err, fail_pos) {
                (None, None) => ensure!(errs.is_empty(), "C03/client-body-error", "client body failed: {:?}", errs[0].1),
                (Some((_, s)), _) => ensure!(errs.len() == 1 && errs[0].1.code() == tonic::Code::from_i32(s.code), "C03/client-source-error-not-surfaced", "source error {} gave {:?}", s.code, errs.first().map(|e| e.1.code())),
                (None, Some(_)) => ensure!(errs.len() == 1 && errs[0].1.code() == tonic::Code::OutOfRange, "C03/client-encode-failure-not-surfaced", "encode failure gave {:?}", errs.first().map(|e| e.1.code())),
            }
        }
        Role::Server => {
            ensure!(errs.is_empty(), "C03/server-body-error", "a server body failed instead of sending trailers: {:?}", errs[0].1);
            ensure!(trailers.len() == 1, "C03/trailers-block-count", "{} trailers blocks", trailers.len());
            let (ti, t) = trailers[0];
            let (code, msg) = read_status_block(t, "trailers")?;
            let (want_code, want_msg): (i32, Option<String>) = match (&err, fail_pos) {
                (Some((_, s)), _) => (s.code, Some(s.message.clone())),
                (None, Some(_)) => (11, None),
                (None, None) => (0, Some(String::new())),
            };
            ensure!(code == want_code, "C03/trailers-status", "trailers carry grpc-status {code}, expected {want_code}");
            if let Some(m) = want_msg {
                ensure!(msg == m, "C03/trailers-message", "grpc-message decodes to {msg:?}, expected {m:?}");
            }
            for (k, v) in t.iter() {
                ensure!(wire::is_legal_header_value(v.as_bytes()), "C03/illegal-trailer-value", "trailer {k} has illegal bytes");
            }
            // after the trailers: end of stream, and nothing more
            ensure!(out.end_flags[ti], "C03/not-end-stream-after-trailers", "is_end_stream() is false after the trailers block");
            for ev in &out.events[ti + 1..] {
                ensure!(matches!(ev, Ev::End), "C03/frame-after-trailers", "after the trailers the body yielded {ev:?}");
            }
        }
    }
    Ok(())
}

// ------------------------------------------------------------------------------------------ HTTP level

#[derive(Debug, Default, Clone)]
struct SeenRequest {
    method: String,
    path: String,
    headers: HeaderMap,
    body: Vec<u8>,
    trailers: Option<HeaderMap>,
    n: usize,
}

/// Raw h2 server (no tonic): records the request, answers with the scripted gRPC response.
async fn raw_h2_server(io: PipeEnd, resp_frames: Vec<u8>, status: i32, seen: std::sync::Arc<std::sync::Mutex<SeenRequest>>) -> Result<(), String> {
    let mut conn = h2::server::handshake(io).await.map_err(|e| format!("server handshake: {e}"))?;
    while let Some(r) = conn.accept().await {
        let (req, mut respond) = r.map_err(|e| format!("accept: {e}"))?;
        let (parts, mut body) = req.into_parts();
        let seen2 = seen.clone();
        let resp_frames = resp_frames.clone();
        tokio::spawn(async move {
            let mut data = vec![];
            while let Some(chunk) = body.data().await {
                match chunk {
                    Ok(b) => {
                        let _ = body.flow_control().release_capacity(b.len());
                        data.extend_from_slice(&b);
                    }
                    Err(_) => break,
                }
            }
            let trailers = body.trailers().await.ok().flatten();
            {
                let mut s = seen2.lock().unwrap();
                s.n += 1;
                s.method = parts.method.to_string();
                s.path = parts.uri.path_and_query().map(|p| p.as_str().to_string()).unwrap_or_default();
                s.headers = parts.headers.clone();
                s.body = data;
                s.trailers = trailers;
            }
            let resp = http::Response::builder().status(200).header("content-type", "application/grpc").body(()).unwrap();
            if let Ok(mut send) = respond.send_response(resp, false) {
                if !resp_frames.is_empty() {
                    let _ = send.send_data(Bytes::from(resp_frames), false);
                }
                let mut t = HeaderMap::new();
                t.insert("grpc-status", http::HeaderValue::from_str(&status.to_string()).unwrap());
                let _ = send.send_trailers(t);
            }
        });
    }
    Ok(())
}

fn method_path(shape: Shape, prost: bool) -> String {
    let svc = if prost { "vt.Test" } else { "vt.Raw" };
    let m = match shape {
        Shape::Unary => "Unary",
        Shape::ClientStream => "ClientStream",
        Shape::ServerStream => "ServerStream",
        Shape::Bidi => "Bidi",
    };
    format!("/{svc}/{m}")
}

fn run_client(c: &ClientWire, o: &mut Outcome) -> Result<(), Failure> {
    o.label("client_wire");
    o.label_if(!c.prefix.is_empty(), "origin_with_path_prefix");
    o.label_if(c.send.is_some(), "send_compressed");
    o.nontrivial = true;
    let seen = std::sync::Arc::new(std::sync::Mutex::new(SeenRequest::default()));
    let (cend, send_, _h) = pipe(c.c2s.clone(), c.s2c.clone());
    let streaming_req = matches!(c.shape, Shape::ClientStream | Shape::Bidi);
    let req_msgs: Vec<Vec<u8>> = if streaming_req { c.req_msgs.iter().map(|b| b.bytes()).collect() } else { vec![c.req_msgs.first().map(|b| b.bytes()).unwrap_or_default()] };
    let resp_payloads: Vec<Vec<u8>> = c.resp_msgs.iter().map(|b| b.bytes()).collect();
    let ser = |p: &Vec<u8>| -> Vec<u8> {
        if c.prost {
            <Msg as crate::infra::handler::TestMsg>::from_bytes(p.clone()).encode_to_vec()
        } else {
            p.clone()
        }
    };
    let resp_frames: Vec<u8> = resp_payloads.iter().flat_map(|p| wire::frame(0, &ser(p))).collect();
    let seen2 = seen.clone();
    let cw = c.clone();
    let reqs = req_msgs.clone();
    let res = rt::run_virtual(c.rt_seed, Duration::from_secs(3600), async move {
        let srv = tokio::spawn(raw_h2_server(send_, resp_frames, cw.resp_status, seen2));
        let cell = std::sync::Arc::new(std::sync::Mutex::new(Some(cend)));
        let connector = tower::service_fn(move |_u: http::Uri| {
            let cell = cell.clone();
            async move { cell.lock().unwrap().take().map(TokioIo::new).ok_or_else(|| std::io::Error::new(std::io::ErrorKind::Other, "single-use connector")) }
        });
        let origin: http::Uri = format!("http://pipe.test{}", cw.prefix).parse().unwrap();
        let ch = match tonic::transport::Endpoint::from_shared(origin.to_string()).unwrap().connect_with_connector(connector).await {
            Ok(ch) => ch,
            Err(e) => return Err(format!("connect: {e:?}")),
        };
        let msgs: Vec<(Vec<u8>, u8)> = reqs.into_iter().map(|m| (m, 0u8)).collect();
        // configure compression on the generated client
        macro_rules! cfg {
            ($cl:expr) => {{
                let mut cl = $cl;
                if let Some(e) = cw.send {
                    cl = cl.send_compressed(e.tonic());
                }
                for e in &cw.accept {
                    cl = cl.accept_compressed(e.tonic());
                }
                cl
            }};
        }
        let ob = if cw.prost {
            let cl = cfg!(vt::test_client::TestClient::with_origin(ch, origin.clone()));
            client_calls_generic_prost(cl, cw.shape, msgs).await
        } else {
            let cl = cfg!(vt::raw_client::RawClient::with_origin(ch, origin.clone()));
            client_calls_generic_raw(cl, cw.shape, msgs).await
        };
        rt::quiesce().await;
        srv.abort();
        Ok(ob)
    });
    match res {
        Err(_) => bail!("C03/client-call-never-completes", "call against the raw h2 server did not complete"),
        Ok(Err(e)) => bail!("C03/client-connect", "{e}"),
        Ok(Ok(_)) => {}
    }
    let s = seen.lock().unwrap().clone();
    ensure!(s.n == 1, "C03/request-count", "raw server saw {} requests", s.n);
    ensure!(s.method == "POST", "C03/request-method", "request method {}", s.method);
    let want_path = format!("{}{}", c.prefix, method_path(c.shape, c.prost));
    ensure!(s.path == want_path, "C03/request-path", "request path {:?}, expected {:?}", s.path, want_path);
    let ct = s.headers.get("content-type").map(|v| v.as_bytes().to_vec()).unwrap_or_default();
    ensure!(ct == b"application/grpc" || ct.starts_with(b"application/grpc+") || ct.starts_with(b"application/grpc;"), "C03/request-content-type", "request content-type {:?}", String::from_utf8_lossy(&ct));
    let te: Vec<_> = s.headers.get_all("te").iter().map(|v| v.as_bytes().to_vec()).collect();
    ensure!(te == vec![b"trailers".to_vec()], "C03/request-te-trailers", "request te headers {:?}", te.iter().map(|t| String::from_utf8_lossy(t).to_string()).collect::<Vec<_>>());
    ensure!(s.trailers.is_none(), "C03/request-has-trailers", "client request carried a trailers block: {:?}", s.trailers);
    let ge = s.headers.get("grpc-encoding").map(|v| v.as_bytes().to_vec());
    match c.send {
        Some(e) => ensure!(ge.as_deref() == Some(e.name().as_bytes()), "C03/request-grpc-encoding", "grpc-encoding {:?} with send_compressed({})", ge.map(|g| String::from_utf8_lossy(&g).to_string()), e.name()),
        None => ensure!(ge.is_none() || ge.as_deref() == Some(b"identity"), "C03/request-grpc-encoding", "grpc-encoding present without send_compressed"),
    }
    let expect: Vec<Vec<u8>> = req_msgs.iter().map(ser).collect();
    judge_frames(&s.body, &expect, c.send, "request body on the wire")?;
    Ok(())
}

// small generic drivers over the generated clients (any channel type is the same Channel here)
async fn client_calls_generic_raw(mut cl: vt::raw_client::RawClient<tonic::transport::Channel>, shape: Shape, msgs: Vec<(Vec<u8>, u8)>) -> Result<usize, Status> {
    use tokio_stream::iter;
    let first = msgs.first().map(|m| m.0.clone()).unwrap_or_default();
    let all: Vec<Vec<u8>> = msgs.into_iter().map(|m| m.0).collect();
    match shape {
        Shape::Unary => cl.unary(first).await.map(|_| 1),
        Shape::ClientStream => cl.client_stream(iter(all)).await.map(|_| 1),
        Shape::ServerStream => {
            let mut s = cl.server_stream(first).await?.into_inner();
            let mut n = 0;
            while s.message().await?.is_some() {
                n += 1;
            }
            Ok(n)
        }
        Shape::Bidi => {
            let mut s = cl.bidi(iter(all)).await?.into_inner();
            let mut n = 0;
            while s.message().await?.is_some() {
                n += 1;
            }
            Ok(n)
        }
    }
}
async fn client_calls_generic_prost(mut cl: vt::test_client::TestClient<tonic::transport::Channel>, shape: Shape, msgs: Vec<(Vec<u8>, u8)>) -> Result<usize, Status> {
    use crate::infra::handler::TestMsg;
    use tokio_stream::iter;
    let first = Msg::from_bytes(msgs.first().map(|m| m.0.clone()).unwrap_or_default());
    let all: Vec<Msg> = msgs.into_iter().map(|m| Msg::from_bytes(m.0)).collect();
    match shape {
        Shape::Unary => cl.unary(first).await.map(|_| 1),
        Shape::ClientStream => cl.client_stream(iter(all)).await.map(|_| 1),
        Shape::ServerStream => {
            let mut s = cl.server_stream(first).await?.into_inner();
            let mut n = 0;
            while s.message().await?.is_some() {
                n += 1;
            }
            Ok(n)
        }
        Shape::Bidi => {
            let mut s = cl.bidi(iter(all)).await?.into_inner();
            let mut n = 0;
            while s.message().await?.is_some() {
                n += 1;
            }
            Ok(n)
        }
    }
}

#[derive(Debug, Default)]
struct SeenResponse {
    status: u16,
    headers: HeaderMap,
    headers_end_stream: bool,
    body: Vec<u8>,
    trailers: Option<HeaderMap>,
    error: Option<String>,
}

fn run_server(c: &ServerWire, o: &mut Outcome) -> Result<(), Failure> {
    o.label("server_wire");
    o.label_if(c.bad_path != 0, "unknown_path");
    o.label_if(c.script.outcome.is_some(), "handler_error");
    o.nontrivial = true;
    let sh = Shared::new(vec![c.script.clone()]);
    let (net, incoming) = Net::new(vec![(c.c2s.clone(), c.s2c.clone())]);
    let streaming_req = matches!(c.shape, Shape::ClientStream | Shape::Bidi);
    let ser = |p: Vec<u8>| -> Vec<u8> {
        if c.prost {
            <Msg as crate::infra::handler::TestMsg>::from_bytes(p).encode_to_vec()
        } else {
            p
        }
    };
    let req_payloads: Vec<Vec<u8>> = if streaming_req { c.req_msgs.iter().map(|b| b.bytes()).collect() } else { vec![c.req_msgs.first().map(|b| b.bytes()).unwrap_or_default()] };
    let req_body: Vec<u8> = req_payloads.iter().flat_map(|p| wire::frame(0, &ser(p.clone()))).collect();
    let good = method_path(c.shape, c.prost);
    let path = match c.bad_path {
        0 => good.clone(),
        1 => format!("{good}x"),
        2 => "/vt.Nope/Unary".to_string(),
        3 => good.to_lowercase(),
        _ => "/".to_string(),
    };
    let cw = c.clone();
    let sh2 = sh.clone();
    let res = rt::run_virtual(c.rt_seed, Duration::from_secs(3600), async move {
        let mut server = tonic::transport::Server::builder();
        // the deadline is either the server's own (Server::timeout) or only the caller's (grpc-timeout sent by this
        // non-tonic client to a server that has no timeout of its own)
        let via_header = cw.rt_seed % 2 == 1;
        if let Some(t) = cw.srv_timeout_ms {
            if !via_header {
                server = server.timeout(Duration::from_millis(t as u64));
            }
        }
        let router = if cw.prost {
            let mut s = vt::test_server::TestServer::new(sh2.clone());
            for e in &cw.send {
                s = s.send_compressed(e.tonic());
            }
            server.add_service(s)
        } else {
            let mut s = vt::raw_server::RawServer::new(sh2.clone());
            for e in &cw.send {
                s = s.send_compressed(e.tonic());
            }
            server.add_service(s)
        };
        let srv = tokio::spawn(async move { router.serve_with_incoming(incoming).await });
        let (io, _h) = net.open().map_err(|e| format!("open: {e}"))?;
        let (mut send_req, conn) = h2::client::handshake(io).await.map_err(|e| format!("client handshake: {e}"))?;
        let conn_task = tokio::spawn(async move {
            let _ = conn.await;
        });
        let mut rb = http::Request::builder().method("POST").uri(format!("http://pipe.test{path}")).header("content-type", "application/grpc").header("te", "trailers");
        if let Some(a) = &cw.accept_hdr {
            rb = rb.header("grpc-accept-encoding", a.as_str());
        }
        if let (Some(t), true) = (cw.srv_timeout_ms, via_header) {
            rb = rb.header("grpc-timeout", format!("{t}m"));
        }
        let req = rb.body(()).unwrap();
        let (resp_fut, mut stream) = send_req.send_request(req, false).map_err(|e| format!("send_request: {e}"))?;
        stream.send_data(Bytes::from(req_body), true).map_err(|e| format!("send_data: {e}"))?;
        let mut seen = SeenResponse::default();
        match resp_fut.await {
            Err(e) => seen.error = Some(format!("{e}")),
            Ok(resp) => {
                let (parts, mut body) = resp.into_parts();
                seen.status = parts.status.as_u16();
                seen.headers = parts.headers;
                seen.headers_end_stream = body.is_end_stream();
                while let Some(ch) = body.data().await {
                    match ch {
                        Ok(b) => {
                            let _ = body.flow_control().release_capacity(b.len());
                            seen.body.extend_from_slice(&b);
                        }
                        Err(e) => {
                            seen.error = Some(format!("{e}"));
                            break;
                        }
                    }
                }
                if seen.error.is_none() {
                    match body.trailers().await {
                        Ok(t) => seen.trailers = t,
                        Err(e) => seen.error = Some(format!("{e}")),
                    }
                }
            }
        }
        rt::quiesce().await;
        conn_task.abort();
        srv.abort();
        Ok::<_, String>(seen)
    });
    let seen = match res {
        Err(_) => bail!("C03/server-call-never-completes", "raw h2 call against the tonic server did not complete"),
        Ok(Err(e)) => bail!("C03/server-setup", "{e}"),
        Ok(Ok(s)) => s,
    };
    ensure!(seen.error.is_none(), "C03/response-stream-error", "response failed at the HTTP/2 level: {:?}", seen.error);
    // a server timeout shorter than the handler latency turns the call into a CANCELLED trailers-only response
    o.label_if(c.srv_timeout_ms.is_some() && c.rt_seed % 2 == 1, "deadline_only_in_the_callers_grpc_timeout_header");
    let expired = match c.srv_timeout_ms {
        Some(t) if c.bad_path == 0 => {
            let l = c.script.latency_ms as u64;
            if (t as u64).abs_diff(l) < 2 {
                o.label("timeout_tie_not_judged");
                return Ok(());
            }
            (t as u64) < l
        }
        _ => false,
    };
    o.label_if(expired, "server_timeout_expired");
    o.label_if(c.forged_encoding, "handler_metadata_named_grpc_encoding");
    ensure!(seen.status == 200, "C03/response-http-status", "HTTP status {}", seen.status);
    let ct = seen.headers.get("content-type").map(|v| v.as_bytes().to_vec()).unwrap_or_default();
    ensure!(ct == b"application/grpc" || ct.starts_with(b"application/grpc+"), "C03/response-content-type", "response content-type {:?}", String::from_utf8_lossy(&ct));
    let in_headers = seen.headers.get_all("grpc-status").iter().count();
    let in_trailers = seen.trailers.as_ref().map(|t| t.get_all("grpc-status").iter().count()).unwrap_or(0);
    ensure!(in_headers + in_trailers == 1, "C03/grpc-status-exactly-once", "grpc-status appears {in_headers} times in headers and {in_trailers} times in trailers");
    let streaming_resp = matches!(c.shape, Shape::ServerStream | Shape::Bidi);
    let announced = seen.headers.get("grpc-encoding").and_then(|v| v.to_str().ok()).and_then(Enc::from_name);
    if in_headers == 1 {
        // trailers-only: body-less
        ensure!(seen.body.is_empty() && seen.trailers.is_none(), "C03/trailers-only-with-body", "trailers-only response carries {} body bytes / trailers {:?}", seen.body.len(), seen.trailers.is_some());
        // Trailers-Only = the HEADERS frame itself ends the stream (gRPC peers other than tonic treat a
        // grpc-status in a non-final HEADERS frame as initial metadata and then miss the trailers)
        ensure!(seen.headers_end_stream, "C03/trailers-only-not-end-stream", "a response with grpc-status in its headers did not end the stream with the HEADERS frame (an empty DATA frame followed)");
        let (code, msg) = read_status_block(&seen.headers, "trailers-only headers")?;
        let want: Option<(i32, String)> = if expired {
            Some((1, "Timeout expired".to_string()))
        } else if c.bad_path != 0 {
            Some((12, String::new()))
        } else {
            c.script.outcome.as_ref().map(|s| (s.code, s.message.clone()))
        };
        match want {
            Some((wc, wm)) => {
                ensure!(code == wc, "C03/trailers-only-status", "trailers-only grpc-status {code}, expected {wc}");
                if c.bad_path == 0 {
                    ensure!(msg == wm, "C03/trailers-only-message", "grpc-message {msg:?}, expected {wm:?}");
                }
            }
            None => bail!("C03/unexpected-trailers-only", "trailers-only response (status {code}) although the handler produced messages and OK"),
        }
    } else {
        let t = seen.trailers.as_ref().unwrap();
        let (code, msg) = read_status_block(t, "trailers")?;
        ensure!(c.bad_path == 0, "C03/unknown-path-dispatched", "unknown path got a streamed response");
        ensure!(!expired, "C03/timeout-not-enforced", "Server::timeout {:?} ms expired before the handler latency {} ms, but a normal response was produced", c.srv_timeout_ms, c.script.latency_ms);
        let handler_err = c.script.outcome.is_some() && (!streaming_resp || c.script.err_kind == Some(ErrKind::Handler));
        ensure!(!handler_err || code != 0, "C03/handler-error-reported-ok", "handler failed but trailers say OK");
        let want_msgs: Vec<Vec<u8>> = if handler_err {
            vec![]
        } else if streaming_resp {
            c.script.msgs.iter().map(|m| ser(m.data.bytes())).collect()
        } else {
            vec![ser(c.script.msgs.first().map(|m| m.data.bytes()).unwrap_or_default())]
        };
        judge_frames(&seen.body, &want_msgs, announced, "response body on the wire")?;
        let (wc, wm) = c.script.outcome.as_ref().map(|s| (s.code, s.message.clone())).unwrap_or((0, String::new()));
        ensure!(code == wc && msg == wm, "C03/trailers-status", "trailers carry {code} {msg:?}, expected {wc} {wm:?}");
    }
    // (whether the announced encoding was enabled and offered is C05's question, not judged here)
    Ok(())
}

pub fn run(c: &Case, o: &mut Outcome) -> Result<(), Failure> {
    match c {
        Case::Body(b) => run_body(b, o),
        Case::Client(cw) => run_client(cw, o),
        Case::Server(sw) => run_server(sw, o),
    }
}

pub struct C03;
impl Prop for C03 {
    const ID: &'static str = "C03";
    type Case = Case;
    fn strategy() -> BoxedStrategy<Case> {
        strategy()
    }
    fn run(c: &Case, o: &mut Outcome) -> Result<(), Failure> {
        run(c, o)
    }
    fn rule() -> &'static str {
        "proptest over three families. Body: EncodeBody for both roles x {identity,gzip,deflate,zstd} x per-response opt-out x codec {raw, prost} x buffer settings x 0-8 messages x source outcome {ends OK, Err(status) after p messages, message p over the encoding limit} x source Pending pattern; polled like hyper until the end and then 3 more times. Client wire: generated clients (4 shapes, raw/prost, send_compressed, accept_compressed subsets, origin with/without path prefix) against a raw h2 server (no tonic) over the in-memory pipe. Server wire: a raw h2 client (no tonic) against the generated tonic server with scripted handlers (OK, handler error, stream-item error), unknown paths, send_compressed subsets, grpc-accept-encoding offers. Oracle: independent frame parser (flag 0/1, big-endian length == payload length), payload == codec serialisation directly or after independent decompression + magic check for the announced grpc-encoding; server bodies end in exactly one trailers block with a decimal grpc-status and percent-encoded grpc-message, is_end_stream afterwards and nothing more; client bodies never carry trailers; requests are POST /prefix/pkg.Svc/Method with content-type application/grpc and te: trailers; responses are HTTP 200 application/grpc with grpc-status exactly once (body-less trailers-only or final trailers). Non-trivial: >=1 message and (compressed or error outcome or >=2 frames); every wire scenario. Wave-3 additions: server-side Server::timeout in the wire scenario (CANCELLED at the deadline, sent as trailers-only HEADERS with END_STREAM), a handler metadata entry named grpc-encoding (must not change what the frames are encoded with / announced as). The encoder source may have a further item behind its error item (never sent); in the wire scenario the deadline may come only from the raw client's grpc-timeout header (server without a timeout of its own)."
    }
    fn assumptions() -> Vec<String> {
        vec!["handler error statuses never carry Code::Ok".into(), "a client body is not polled again after it failed (hyper resets the stream)".into()]
    }
    fn cases(t: Tier) -> u64 {
        match t {
            Tier::Quick => 80_000,
            Tier::Thorough => 640_000,
        }
    }
    fn max_shrink_iters() -> u32 {
        1500
    }
}

#[allow(dead_code)]
fn _unused() {
    let _ = c02::Shape::Unary;
}
